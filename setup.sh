#!/bin/bash
# MANIFEST.setup_cmd: offline build of the whole harness (all check binaries).
set -e
cd "$(dirname "$0")/harness"
export CARGO_NET_OFFLINE=true
cargo build --release --offline --bins 2>&1 | tail -5
