//! C27 — PageRank and CDLP follow their specified (LDBC Graphalytics) iteration (DESIGN §C27).
//!
//! Every directed multigraph with n <= 4 nodes (self-loops, parallel edges, dangling nodes)
//! and <= 4 (quick) / <= 5 (thorough) edges, x every PageRank configuration of the lattice
//! damping {0.85,0.5} x iterations {0,1,2,20} x tolerance {0,1e-4} x dangling {on,off}
//! and CDLP max_iterations {0,1,2,5,100}, against straightforward sequential references.
//! The parallel code paths (node_count >= 1000) are reached by embedding the core graph
//! in 999 / 1000 / 1001 nodes (the rest isolated), under rayon pools of 1 and 8 threads.
use samyama_graph_algorithms::{cdlp, page_rank, CdlpConfig, GraphView, PageRankConfig};
use serde_json::{json, Value as J};
use std::collections::HashMap;
use std::sync::atomic::{AtomicU64, Ordering};
use std::sync::Mutex;
use svmc::engine::ctx::guarded;
use svmc::{run_check, Ctx, Level};

const DAMPING: [f64; 2] = [0.85, 0.5];
const ITERS: [usize; 4] = [0, 1, 2, 20];
const TOLS: [f64; 2] = [0.0, 1e-4];
const CDLP_ITERS: [usize; 5] = [0, 1, 2, 5, 100];
const CORE_IDS: [u64; 4] = [7, 3, 9, 5];

#[derive(Clone, Debug)]
struct Core {
    n: usize,
    edges: Vec<(usize, usize)>,
}

/// A concrete graph: N nodes, the core's nodes placed at `pos`, ids per index.
struct Embedded {
    nn: usize,
    ids: Vec<u64>,
    edges: Vec<(usize, usize)>,
}

fn embed(c: &Core, nn: usize) -> Embedded {
    if nn == c.n {
        return Embedded { nn, ids: CORE_IDS[..c.n].to_vec(), edges: c.edges.clone() };
    }
    // spread the core over the index range so rayon splits it across chunks; ids descending
    // so that "smallest label" is not "smallest index"
    let pos: Vec<usize> = (0..c.n).map(|i| if c.n == 1 { nn / 2 } else { i * (nn - 1) / (c.n - 1) }).collect();
    Embedded { nn, ids: (0..nn).map(|i| (nn - i) as u64).collect(), edges: c.edges.iter().map(|&(u, v)| (pos[u], pos[v])).collect() }
}

fn view_of(e: &Embedded) -> GraphView {
    let mut node_to_index = HashMap::with_capacity(e.nn);
    for (i, &id) in e.ids.iter().enumerate() {
        node_to_index.insert(id, i);
    }
    let mut outgoing = vec![vec![]; e.nn];
    let mut incoming = vec![vec![]; e.nn];
    for &(u, v) in &e.edges {
        outgoing[u].push(v);
        incoming[v].push(u);
    }
    GraphView::from_adjacency_list(e.nn, e.ids.clone(), node_to_index, outgoing, incoming, None)
}

// ------------------------------------------------------------------ references

/// LDBC Graphalytics PageRank, sequential, push style (per edge), on the edge multiset.
/// Returns every admissible result: normally one; two when the convergence test
/// |diff - tolerance| is within 1e-9 relative (either stopping point admissible).
fn ref_pagerank(e: &Embedded, d: f64, iterations: usize, tol: f64, dangling: bool) -> Vec<Vec<f64>> {
    let n = e.nn;
    let mut outdeg = vec![0usize; n];
    for &(u, _) in &e.edges {
        outdeg[u] += 1;
    }
    fn go(e: &Embedded, outdeg: &[usize], d: f64, left: usize, tol: f64, dangling: bool, scores: Vec<f64>, out: &mut Vec<Vec<f64>>) {
        if left == 0 {
            out.push(scores);
            return;
        }
        let n = e.nn;
        let nf = n as f64;
        let dang = if dangling { (0..n).filter(|&i| outdeg[i] == 0).map(|i| scores[i]).sum::<f64>() / nf } else { 0.0 };
        let mut acc = vec![0.0f64; n];
        for &(u, v) in &e.edges {
            acc[v] += scores[u] / outdeg[u] as f64;
        }
        let next: Vec<f64> = (0..n).map(|v| (1.0 - d) / nf + d * (acc[v] + dang)).collect();
        let diff: f64 = (0..n).map(|v| (next[v] - scores[v]).abs()).sum();
        let ambiguous = tol > 0.0 && (diff - tol).abs() <= 1e-9 * tol;
        if ambiguous {
            out.push(next.clone());
            go(e, outdeg, d, left - 1, tol, dangling, next, out);
        } else if diff < tol {
            out.push(next);
        } else {
            go(e, outdeg, d, left - 1, tol, dangling, next, out);
        }
    }
    let mut out = vec![];
    go(e, &outdeg, d, iterations, tol, dangling, vec![1.0 / n as f64; n], &mut out);
    out
}

/// Synchronous CDLP (LDBC): label = id; every round every node takes the most frequent label
/// among the labels at the other end of each incident edge (in- and out-edges both counted,
/// once per edge), ties to the smallest label; a node without incident edges keeps its label.
fn ref_cdlp(e: &Embedded, max_iterations: usize) -> Vec<u64> {
    let n = e.nn;
    let mut labels: Vec<u64> = e.ids.clone();
    // incident lists per node (indices of the node at the other end)
    let mut inc: Vec<Vec<usize>> = vec![vec![]; n];
    for &(u, v) in &e.edges {
        inc[u].push(v);
        inc[v].push(u);
    }
    for _ in 0..max_iterations {
        let mut next = labels.clone();
        for v in 0..n {
            if inc[v].is_empty() {
                continue;
            }
            let mut ls: Vec<u64> = inc[v].iter().map(|&x| labels[x]).collect();
            ls.sort();
            let (mut best, mut best_c) = (ls[0], 0usize);
            let mut i = 0;
            while i < ls.len() {
                let mut j = i;
                while j < ls.len() && ls[j] == ls[i] {
                    j += 1;
                }
                if j - i > best_c {
                    best_c = j - i;
                    best = ls[i];
                }
                i = j;
            }
            next[v] = best;
        }
        labels = next;
    }
    labels
}

// ------------------------------------------------------------------ enumeration

fn cores(max_m: usize) -> Vec<Core> {
    let mut out = vec![];
    for n in 1..=4usize {
        for m in 0..=max_m {
            for ms in svmc::engine::odometer::multisets(n * n, m) {
                out.push(Core { n, edges: ms.iter().map(|&k| (k / n, k % n)).collect() });
            }
        }
    }
    out
}

fn binom(n: u64, k: u64) -> u64 {
    let mut r = 1u64;
    for i in 0..k {
        r = r * (n - i) / (i + 1);
    }
    r
}
fn core_count(max_n: usize, max_m: usize) -> u64 {
    let mut t = 0;
    for n in 1..=max_n {
        for m in 0..=max_m {
            t += binom((n * n + m - 1) as u64, m as u64);
        }
    }
    t
}

thread_local! {
    static POOLS: (rayon::ThreadPool, rayon::ThreadPool) = (
        rayon::ThreadPoolBuilder::new().num_threads(1).build().unwrap(),
        rayon::ThreadPoolBuilder::new().num_threads(8).build().unwrap(),
    );
}

fn in_pool<T: Send>(k: usize, f: impl FnOnce() -> T + Send) -> T {
    POOLS.with(|p| if k == 1 { p.0.install(f) } else { p.1.install(f) })
}

struct Counters {
    evals: AtomicU64,
    nontrivial: AtomicU64,
    pr_runs: AtomicU64,
    cdlp_runs: AtomicU64,
    ambiguous: AtomicU64,
    early_stops: AtomicU64,
    par_runs: AtomicU64,
}

fn witness(c: &Core, nn: usize, pool: usize, algo: &str, cfg: J) -> J {
    json!({"algo": algo, "n": c.n, "edges": c.edges.iter().map(|&(u, v)| json!([u, v])).collect::<Vec<_>>(), "N": nn, "pool": pool, "config": cfg})
}

fn close(o: f64, r: f64, parallel: bool) -> bool {
    if parallel {
        (o - r).abs() <= 1e-9 * r.abs().max(f64::MIN_POSITIVE)
    } else {
        (o - r).abs() <= 1e-12
    }
}

fn vio(sig: &str, msg: String, w: J) -> (String, String, J) {
    (sig.to_string(), msg, w)
}

/// All checks for one (core graph, N). `pools`: pool sizes to run under.
fn check_graph(found: &mut Vec<(String, String, J)>, c: &Core, nn: usize, pools: &[usize], cnt: &Counters, verbose: bool) {
    let e = embed(c, nn);
    let view = view_of(&e);
    let parallel = nn >= 1000;
    let path = if parallel { "parallel-path" } else { "sequential-path" };
    let has_edges = !c.edges.is_empty();
    // PageRank
    for &d in &DAMPING {
        for &it in &ITERS {
            for &tol in &TOLS {
                for dang in [true, false] {
                    let refs = ref_pagerank(&e, d, it, tol, dang);
                    if refs.len() > 1 {
                        cnt.ambiguous.fetch_add(1, Ordering::Relaxed);
                    }
                    let cfgj = json!({"damping": d, "iterations": it, "tolerance": tol, "dangling_redistribution": dang});
                    let mut per_pool: Vec<Option<Vec<f64>>> = vec![];
                    for &k in pools {
                        cnt.evals.fetch_add(1, Ordering::Relaxed);
                        cnt.pr_runs.fetch_add(1, Ordering::Relaxed);
                        if parallel {
                            cnt.par_runs.fetch_add(1, Ordering::Relaxed);
                        }
                        if has_edges && it >= 1 {
                            cnt.nontrivial.fetch_add(1, Ordering::Relaxed);
                        }
                        let res = guarded(|| in_pool(k, || page_rank(&view, PageRankConfig { damping_factor: d, iterations: it, tolerance: tol, dangling_redistribution: dang })));
                        let m = match res {
                            Ok(m) => m,
                            Err(p) => {
                                found.push(vio("pagerank:panic", format!("page_rank panicked: {p}"), witness(c, nn, k, "pagerank", cfgj.clone())));
                                per_pool.push(None);
                                continue;
                            }
                        };
                        if m.len() != nn || e.ids.iter().any(|id| !m.contains_key(id)) {
                            found.push(vio("pagerank:node-set", format!("page_rank returned {} scores for {} nodes", m.len(), nn), witness(c, nn, k, "pagerank", cfgj.clone())));
                            per_pool.push(None);
                            continue;
                        }
                        let obs: Vec<f64> = e.ids.iter().map(|id| m[id]).collect();
                        let ok = refs.iter().any(|r| (0..nn).all(|i| close(obs[i], r[i], parallel)));
                        if verbose {
                            let idx: Vec<usize> = interesting(&e);
                            println!("  pagerank {cfgj} N={nn} pool={k}: observed {:?} expected {:?} (indices {:?}) -> {}", idx.iter().map(|&i| obs[i]).collect::<Vec<_>>(), idx.iter().map(|&i| refs[0][i]).collect::<Vec<_>>(), idx, if ok { "equal" } else { "MISMATCH" });
                        }
                        if !ok {
                            let i = (0..nn).find(|&i| !close(obs[i], refs[0][i], parallel)).unwrap_or(0);
                            found.push(vio(&format!("pagerank:scores:{path}"), format!("page_rank {cfgj} on N={nn} pool={k}: node id {} score {:e}, LDBC iteration gives {:e}", e.ids[i], obs[i], refs[0][i]), witness(c, nn, k, "pagerank", cfgj.clone())));
                        }
                        if dang {
                            let s: f64 = obs.iter().sum();
                            if (s - 1.0).abs() > 1e-9 {
                                found.push(vio("pagerank:sum-not-one", format!("page_rank {cfgj} on N={nn} pool={k}: scores sum to {s} with dangling redistribution on"), witness(c, nn, k, "pagerank", cfgj.clone())));
                            }
                        }
                        per_pool.push(Some(obs));
                    }
                    if refs.len() == 1 && it > 0 && tol > 0.0 {
                        // did the reference stop early? (coverage only)
                        let full = ref_pagerank(&e, d, it, 0.0, dang);
                        if full[0] != refs[0] {
                            cnt.early_stops.fetch_add(pools.len() as u64, Ordering::Relaxed);
                        }
                    }
                    if per_pool.len() == 2 {
                        if let (Some(a), Some(b)) = (&per_pool[0], &per_pool[1]) {
                            if refs.len() == 1 && !(0..nn).all(|i| close(a[i], b[i], parallel)) {
                                found.push(vio("pagerank:pool-dependence", format!("page_rank {cfgj} on N={nn}: results under pools {:?} differ", pools), witness(c, nn, pools[1], "pagerank", cfgj.clone())));
                            }
                        }
                    }
                }
            }
        }
    }
    // CDLP
    for &mi in &CDLP_ITERS {
        let want = ref_cdlp(&e, mi);
        let cfgj = json!({"max_iterations": mi});
        let mut per_pool: Vec<Option<Vec<u64>>> = vec![];
        for &k in pools {
            cnt.evals.fetch_add(1, Ordering::Relaxed);
            cnt.cdlp_runs.fetch_add(1, Ordering::Relaxed);
            if parallel {
                cnt.par_runs.fetch_add(1, Ordering::Relaxed);
            }
            if has_edges && mi >= 1 {
                cnt.nontrivial.fetch_add(1, Ordering::Relaxed);
            }
            let res = guarded(|| in_pool(k, || cdlp(&view, &CdlpConfig { max_iterations: mi })));
            let m = match res {
                Ok(m) => m.labels,
                Err(p) => {
                    found.push(vio("cdlp:panic", format!("cdlp panicked: {p}"), witness(c, nn, k, "cdlp", cfgj.clone())));
                    per_pool.push(None);
                    continue;
                }
            };
            if m.len() != nn || e.ids.iter().any(|id| !m.contains_key(id)) {
                found.push(vio("cdlp:node-set", format!("cdlp returned {} labels for {} nodes", m.len(), nn), witness(c, nn, k, "cdlp", cfgj.clone())));
                per_pool.push(None);
                continue;
            }
            let obs: Vec<u64> = e.ids.iter().map(|id| m[id]).collect();
            if verbose {
                let idx = interesting(&e);
                println!("  cdlp {cfgj} N={nn} pool={k}: observed {:?} expected {:?} (node ids {:?}) -> {}", idx.iter().map(|&i| obs[i]).collect::<Vec<_>>(), idx.iter().map(|&i| want[i]).collect::<Vec<_>>(), idx.iter().map(|&i| e.ids[i]).collect::<Vec<_>>(), if obs == want { "equal" } else { "MISMATCH" });
            }
            if obs != want {
                let i = (0..nn).find(|&i| obs[i] != want[i]).unwrap();
                found.push(vio(&format!("cdlp:labels:{path}"), format!("cdlp {cfgj} on N={nn} pool={k}: node id {} label {}, synchronous LDBC propagation gives {}", e.ids[i], obs[i], want[i]), witness(c, nn, k, "cdlp", cfgj.clone())));
            }
            per_pool.push(Some(obs));
        }
        if per_pool.len() == 2 {
            if let (Some(a), Some(b)) = (&per_pool[0], &per_pool[1]) {
                if a != b {
                    found.push(vio("cdlp:pool-dependence", format!("cdlp {cfgj} on N={nn}: labels under pools {:?} differ", pools), witness(c, nn, pools[1], "cdlp", cfgj.clone())));
                }
            }
        }
    }
}

/// indices worth printing in a replay: endpoints of the core's edges plus one padding node
fn interesting(e: &Embedded) -> Vec<usize> {
    let mut s: std::collections::BTreeSet<usize> = e.edges.iter().flat_map(|&(u, v)| [u, v]).collect();
    if e.nn <= 8 {
        s.extend(0..e.nn);
    } else {
        s.insert(1);
    }
    s.into_iter().collect()
}

fn main() {
    run_check("C27", Level::Exploration, |ctx| {
        if let Some(p) = ctx.replay.clone() {
            replay(ctx, &p);
            return;
        }
        let quick = ctx.quick();
        let max_m = if quick { 4 } else { 5 };
        let (pad_n, pad_m) = if quick { (3usize, 3usize) } else { (4usize, 5usize) };
        let all = cores(max_m);
        if all.len() as u64 != core_count(4, max_m) {
            ctx.machinery("core graph generator cardinality mismatch");
        }
        let cnt = Counters { evals: AtomicU64::new(0), nontrivial: AtomicU64::new(0), pr_runs: AtomicU64::new(0), cdlp_runs: AtomicU64::new(0), ambiguous: AtomicU64::new(0), early_stops: AtomicU64::new(0), par_runs: AtomicU64::new(0) };
        // work list: (core index, N, pools)
        let mut work: Vec<(usize, usize)> = vec![];
        let mut padded_cores = 0u64;
        for (i, c) in all.iter().enumerate() {
            work.push((i, c.n));
            if c.n <= pad_n && c.edges.len() <= pad_m {
                padded_cores += 1;
                for nn in [999usize, 1000, 1001] {
                    work.push((i, nn));
                }
            }
        }
        let next = AtomicU64::new(0);
        let samples: Mutex<Vec<J>> = Mutex::new(vec![]);
        let all_found: Mutex<Vec<(usize, Vec<(String, String, J)>)>> = Mutex::new(vec![]);
        let threads = if quick { 8 } else { 12 };
        std::thread::scope(|s| {
            for _ in 0..threads {
                s.spawn(|| loop {
                    let i = next.fetch_add(1, Ordering::SeqCst) as usize;
                    if i >= work.len() {
                        break;
                    }
                    let (ci, nn) = work[i];
                    let c = &all[ci];
                    let pools: &[usize] = if nn == c.n { &[1] } else { &[1, 8] };
                    let mut found = vec![];
                    check_graph(&mut found, c, nn, pools, &cnt, false);
                    if !found.is_empty() {
                        all_found.lock().unwrap().push((i, found));
                    }
                    if c.edges.len() == 3 && c.n == 3 && nn == 1000 {
                        let mut sm = samples.lock().unwrap();
                        if sm.len() < 2 {
                            sm.push(witness(c, nn, 8, "pagerank", json!({"damping": 0.85, "iterations": 20, "tolerance": 1e-4, "dangling_redistribution": true})));
                        }
                    }
                });
            }
        });
        // report in generator order (simplest first), so the witness kept per signature is deterministic
        let mut af = all_found.into_inner().unwrap();
        af.sort_by_key(|x| x.0);
        for (_, found) in af {
            for (sig, msg, w) in found {
                ctx.violation(&sig, msg, w);
            }
        }
        let per_graph = (DAMPING.len() * ITERS.len() * TOLS.len() * 2 + CDLP_ITERS.len()) as u64;
        let card = all.len() as u64 * per_graph + padded_cores * 3 * 2 * per_graph;
        let evals = cnt.evals.load(Ordering::SeqCst);
        if evals != card {
            ctx.machinery(&format!("ran {evals} evaluations, generator cardinality {card}"));
        }
        ctx.cov("evaluations", evals);
        ctx.cov("generator_cardinality", card);
        ctx.cov("exhaustive", true);
        ctx.cov("distinct_nontrivial", cnt.nontrivial.load(Ordering::SeqCst));
        ctx.cov("rule", "a case is (core multigraph, embedding size N in {n, 999, 1000, 1001}, rayon pool size, algorithm configuration); all cases are distinct by construction; a case is non-trivial if the graph has at least one edge and the configuration runs at least one iteration");
        ctx.cov("core_graphs", all.len() as u64);
        ctx.cov("padded_core_graphs", padded_cores);
        ctx.cov("pagerank_runs", cnt.pr_runs.load(Ordering::SeqCst));
        ctx.cov("cdlp_runs", cnt.cdlp_runs.load(Ordering::SeqCst));
        ctx.cov("runs_on_parallel_path", cnt.par_runs.load(Ordering::SeqCst));
        ctx.cov("pagerank_runs_reference_stopped_early_by_tolerance", cnt.early_stops.load(Ordering::SeqCst));
        ctx.cov("pagerank_runs_with_ambiguous_convergence_test", cnt.ambiguous.load(Ordering::SeqCst));
        ctx.cov("bounds", format!("core: n<=4, <= {max_m} edges over n^2 ordered pairs (self-loops, parallel edges); padded to 999/1000/1001 nodes under pools 1 and 8 for cores with n<={pad_n}, <= {pad_m} edges; PageRank damping {:?} x iterations {:?} x tolerance {:?} x dangling on/off; CDLP max_iterations {:?}", DAMPING, ITERS, TOLS, CDLP_ITERS));
        for s in samples.into_inner().unwrap() {
            ctx.sample(s);
        }
        ctx.sample(witness(&all[all.len() / 2], all[all.len() / 2].n, 1, "cdlp", json!({"max_iterations": 5})));
        ctx.assume("PageRank reference (LDBC Graphalytics): PR0 = 1/N; PR(v) = (1-d)/N + d*(sum over edges u->v of PR(u)/outdeg(u) + [dangling on] sum over dangling u of PR(u)/N); stop after `iterations` rounds or after the first round whose L1 change is < tolerance (tolerance 0 = never); parallel edges contribute once per edge");
        ctx.assume("CDLP reference (LDBC Graphalytics): synchronous; initial label = node id; most frequent label over in- and out-edges counted once per edge (a reciprocal neighbour counts twice, a self-loop twice), ties to the smallest label; nodes without incident edges keep their label; exactly max_iterations rounds (stopping at a fixed point gives the same labels)");
        ctx.assume("PageRank compared to 1e-12 absolute on the sequential path (N<1000) and 1e-9 relative on the parallel path (reduction order not controllable); a run whose convergence test is within 1e-9 relative of the tolerance accepts either stopping point; scores must sum to 1 within 1e-9 when dangling redistribution is on; CDLP compared exactly");
        ctx.assume("rayon worker interleavings are not enumerated: thread-count independence is claimed only as pool size 1 == pool size 8 on every enumerated input");
        ctx.assume("the property's 'random graphs' are not covered (no sampling tail)");
    });
}

fn replay(ctx: &Ctx, p: &std::path::Path) {
    let doc: J = serde_json::from_str(&std::fs::read_to_string(p).expect("read replay")).expect("json");
    let w = &doc["witness"];
    let c = Core { n: w["n"].as_u64().unwrap() as usize, edges: w["edges"].as_array().unwrap().iter().map(|e| (e[0].as_u64().unwrap() as usize, e[1].as_u64().unwrap() as usize)).collect() };
    let nn = w["N"].as_u64().unwrap() as usize;
    println!("replay {}: signature={} core n={} edges={:?} embedded in N={} (all configurations of the lattice are re-run on this graph)", p.display(), doc["signature"].as_str().unwrap_or(""), c.n, c.edges, nn);
    let cnt = Counters { evals: AtomicU64::new(0), nontrivial: AtomicU64::new(0), pr_runs: AtomicU64::new(0), cdlp_runs: AtomicU64::new(0), ambiguous: AtomicU64::new(0), early_stops: AtomicU64::new(0), par_runs: AtomicU64::new(0) };
    let pools: &[usize] = if nn == c.n { &[1] } else { &[1, 8] };
    let mut found = vec![];
    check_graph(&mut found, &c, nn, pools, &cnt, true);
    for (sig, msg, w) in found {
        ctx.violation(&sig, msg, w);
    }
}
