//! C13 — a failed snapshot import leaves the store unchanged.
//!
//! Fault enumeration on real bytes (DESIGN §C13): source snapshots (exported at gzip level 0 and
//! at the default level) x target store contents x dedup keys x { every truncation length,
//! every single-byte corruption at every offset with masks 0x01 / 0x80 / 0xFF }.
//! Oracle: Err (or panic) => the full dump of the store (nodes, labels, typed properties through
//! API and Cypher, relationships, label index, adjacency, counts, hierarchy declarations) is
//! identical to the dump before; Ok => store = before (+) snapshot, merged on the dedup keys.
#[path = "../c12/shared.rs"]
mod shared;
mod inflate;

use rayon::prelude::*;
use samyama::graph::{GraphStore, PropertyValue};
use serde_json::{json, Value as J};
use shared::*;
use std::collections::{BTreeMap, BTreeSet};
use svmc::engine::ctx::guarded;
use svmc::{run_check, Ctx, Level, Tier};

const LABELS: [&str; 3] = ["A", "B", "C"];
const KEYS: [&str; 4] = ["k", "pop", "extra", "name"];

fn s(x: &str) -> PropertyValue {
    PropertyValue::String(x.to_string())
}
fn i(x: i64) -> PropertyValue {
    PropertyValue::Integer(x)
}
fn node(labels: &[&str], props: Vec<(&str, PropertyValue)>) -> NodeSpec {
    NodeSpec { labels: labels.iter().map(|l| l.to_string()).collect(), props: props.into_iter().map(|(k, v)| (k.to_string(), v)).collect() }
}
fn edge(src: usize, dst: usize, ty: &str, props: Vec<(&str, PropertyValue)>) -> EdgeSpec {
    EdgeSpec { src, dst, ty: ty.to_string(), props: props.into_iter().map(|(k, v)| (k.to_string(), v)).collect() }
}

/// source graphs (what the snapshots contain)
fn sources(tier: Tier) -> Vec<(&'static str, GraphSpec, bool)> {
    let mut v = vec![
        ("one_node", GraphSpec { nodes: vec![node(&["A"], vec![("k", i(1)), ("pop", i(5))])], edges: vec![] }, false),
        (
            "two_nodes_rel_props",
            GraphSpec { nodes: vec![node(&["A"], vec![("k", i(1)), ("pop", i(5))]), node(&["B"], vec![("k", i(2)), ("name", s("bee"))])], edges: vec![edge(0, 1, "R", vec![("w", i(1))])] },
            false,
        ),
        (
            "labels_strings_stub_rels",
            GraphSpec {
                nodes: vec![node(&["A"], vec![("k", s("x")), ("name", s("ann"))]), node(&["A", "B"], vec![("k", s("y")), ("pop", i(7))])],
                edges: vec![edge(0, 1, "R", vec![]), edge(1, 1, "S", vec![]), edge(1, 0, "R", vec![])],
            },
            false,
        ),
    ];
    if tier == Tier::Thorough {
        v.push((
            "unlabelled_and_both_merge",
            GraphSpec { nodes: vec![node(&[], vec![("k", i(1))]), node(&["A"], vec![("k", i(1)), ("extra", s("new"))]), node(&["B"], vec![("k", i(2)), ("pop", i(3))])], edges: vec![edge(1, 2, "R", vec![]), edge(0, 1, "S", vec![("w", i(2))])] },
            false,
        ));
        v.push((
            "complex_values",
            GraphSpec {
                nodes: vec![node(
                    &["A"],
                    vec![("k", i(1)), ("tags", PropertyValue::Array(vec![i(1), s("a")])), ("m", PropertyValue::Map([("a".to_string(), i(1))].into_iter().collect())), ("v", PropertyValue::Vector(vec![1.0, 0.5])), ("t", PropertyValue::DateTime(5))],
                )],
                edges: vec![edge(0, 0, "R", vec![("w", PropertyValue::Float(0.5))])],
            },
            false,
        ));
        v.push((
            "hierarchy_chain",
            GraphSpec { nodes: vec![node(&["A"], vec![("k", i(1)), ("pop", i(1))]), node(&["A"], vec![("k", i(2)), ("pop", i(2))]), node(&["A"], vec![("k", i(3)), ("pop", i(4))])], edges: vec![edge(2, 1, "R", vec![]), edge(1, 0, "R", vec![])] },
            true,
        ));
    }
    v
}

#[derive(Clone, Copy, Debug, PartialEq, Eq)]
enum TBuild {
    /// set_node_property: row map and column store both hold the value
    Api,
    /// create_node + get_node_mut().set_property: row map only (as the repository's own tests build nodes)
    RowOnly,
    /// create_node_stub + set_column_property: column store only
    Stub,
    /// as Api, but a throw-away node is created before and one after the content and both are
    /// deleted again: the store's id free list is non-empty, so imported nodes take a recycled low
    /// id first and fresh high ids later (a non-initial allocator state; seeded change C13
    /// rolled back "the id range first..=last" and was invisible on hole-free stores)
    ApiFreedIds,
}

/// target store contents (what the store holds before the import)
fn targets(tier: Tier) -> Vec<(&'static str, GraphSpec, TBuild)> {
    let matching = GraphSpec { nodes: vec![node(&["A"], vec![("k", i(1))]), node(&["C"], vec![("k", i(7))])], edges: vec![edge(1, 0, "R", vec![])] };
    let matching_extra = GraphSpec {
        nodes: vec![node(&["A", "C"], vec![("k", i(1)), ("pop", i(99)), ("extra", s("keep"))]), node(&["B"], vec![("k", i(2))]), node(&["A"], vec![("k", s("x"))]), node(&["A"], vec![("k", s("y"))])],
        edges: vec![edge(0, 1, "S", vec![("w", i(9))])],
    };
    let mut v = vec![
        ("empty", GraphSpec::default(), TBuild::Api),
        ("disjoint", GraphSpec { nodes: vec![node(&["A"], vec![("k", i(9)), ("pop", i(1))]), node(&["B"], vec![("k", i(8))])], edges: vec![edge(0, 1, "R", vec![])] }, TBuild::Api),
        ("matching_key", matching.clone(), TBuild::Api),
        ("matching_key_extra_props", matching_extra.clone(), TBuild::Api),
    ];
    v.push(("matching_key_extra_props_row_only", matching_extra.clone(), TBuild::RowOnly));
    v.push(("disjoint_freed_ids", GraphSpec { nodes: vec![node(&["A"], vec![("k", i(9)), ("pop", i(1))]), node(&["B"], vec![("k", i(8))])], edges: vec![edge(0, 1, "R", vec![])] }, TBuild::ApiFreedIds));
    v.push(("matching_key_extra_props_freed_ids", matching_extra.clone(), TBuild::ApiFreedIds));
    if tier == Tier::Thorough {
        v.push(("matching_key_row_only", matching.clone(), TBuild::RowOnly));
        v.push(("matching_key_extra_props_stub", matching_extra, TBuild::Stub));
    }
    v
}

fn build_target(store: &mut GraphStore, spec: &GraphSpec, how: TBuild) -> Result<(), String> {
    match how {
        TBuild::Api => build(store, spec, Builder::Api).map(|_| ()),
        TBuild::ApiFreedIds => {
            let before = store.create_node("Scratch");
            build(store, spec, Builder::Api)?;
            let after = store.create_node("Scratch");
            store.delete_node("default", after).map_err(|e| e.to_string())?;
            store.delete_node("default", before).map_err(|e| e.to_string())?;
            Ok(())
        }
        TBuild::Stub => {
            // stub nodes; relationships with properties go through the full API
            let mut ids = vec![];
            for n in &spec.nodes {
                let id = store.create_node_stub(n.labels[0].as_str());
                for l in n.labels.iter().skip(1) {
                    store.add_label_to_node("default", id, l.as_str()).map_err(|e| e.to_string())?;
                }
                for (k, v) in &n.props {
                    store.set_column_property(id, k, v.clone());
                }
                ids.push(id);
            }
            for e in &spec.edges {
                if e.props.is_empty() {
                    store.create_edge_stub(ids[e.src], ids[e.dst], e.ty.as_str()).map_err(|x| x.to_string())?;
                } else {
                    store.create_edge_with_properties(ids[e.src], ids[e.dst], e.ty.as_str(), e.props.iter().cloned().collect()).map_err(|x| x.to_string())?;
                }
            }
            store.finish_bulk_load();
            Ok(())
        }
        TBuild::RowOnly => {
            let mut ids = vec![];
            for n in &spec.nodes {
                let id = store.create_node_with_labels(n.labels.iter().map(|l| samyama::graph::Label::new(l.as_str())));
                for (k, v) in &n.props {
                    store.get_node_mut(id).ok_or("node vanished")?.set_property(k.clone(), v.clone());
                }
                ids.push(id);
            }
            for e in &spec.edges {
                store.create_edge(ids[e.src], ids[e.dst], e.ty.as_str()).map_err(|x| x.to_string())?;
            }
            Ok(())
        }
    }
}

struct Snap {
    name: String,
    level: Option<u32>,
    bytes: Vec<u8>,
    /// decompressed record stream of the intact snapshot
    plain: Vec<u8>,
    /// dump of (intact snapshot imported into an empty store): "the snapshot's content" as this
    /// tree's importer reproduces it, so that C12's defects are not re-reported here
    content: Dump,
    spec: GraphSpec,
}

#[derive(Clone, Copy, Debug, PartialEq, Eq)]
enum Fault {
    Intact,
    Trunc(usize),
    Flip(usize, u8),
}
impl Fault {
    fn apply(&self, b: &[u8]) -> Vec<u8> {
        match *self {
            Fault::Intact => b.to_vec(),
            Fault::Trunc(n) => b[..n].to_vec(),
            Fault::Flip(o, m) => {
                let mut v = b.to_vec();
                v[o] ^= m;
                v
            }
        }
    }
    fn json(&self) -> J {
        match *self {
            Fault::Intact => json!("intact"),
            Fault::Trunc(n) => json!({"truncate_to": n}),
            Fault::Flip(o, m) => json!({"offset": o, "xor": m}),
        }
    }
}

fn norm_key(v: &PropertyValue, from_json: bool) -> Option<String> {
    match v {
        PropertyValue::String(s) => Some(s.trim().to_lowercase()),
        PropertyValue::Integer(i) => Some(i.to_string()),
        PropertyValue::Float(f) if from_json => Some(format!("{:?}", f)),
        _ => None,
    }
}

const IDKEY: &str = "\u{1}id";

/// Reference: `before` (+) `content`, merged on `dedup` as the importer's contract says:
/// a snapshot node whose (label, key, value) matches a pre-existing node's is merged into it —
/// labels united, snapshot properties added where the node has none (existing values win),
/// relationships re-attached; everything else is added as new. Pre-existing nodes keep their
/// ids (pinned through a pseudo property so the isomorphism test cannot move them).
fn expected_after(before: &Dump, content: &Dump, dedup: &[&str]) -> (Plain, BTreeSet<u64>) {
    let mut nodes: Vec<(u64, NodeSig)> = before
        .nodes
        .iter()
        .map(|n| {
            let mut p = n.props.clone();
            p.insert(IDKEY.into(), PV::new(PropertyValue::Integer(n.id as i64)));
            (n.id, (n.labels.clone(), p))
        })
        .collect();
    let mut edges: Vec<(u64, u64, String, Props)> = before.edges.iter().map(|e| (e.src, e.dst, e.ty.clone(), e.props.clone())).collect();
    let snapshot_labels: BTreeSet<String> = content.nodes.iter().flat_map(|n| n.labels.iter().cloned()).collect();
    let mut index: BTreeMap<(String, String, String), u64> = BTreeMap::new();
    if !dedup.is_empty() {
        for n in &before.nodes {
            for l in n.labels.iter().filter(|l| snapshot_labels.contains(*l)) {
                for k in dedup {
                    if let Some(v) = n.props.get(*k).and_then(|v| norm_key(&v.0, false)) {
                        index.insert((l.clone(), k.to_string(), v), n.id);
                    }
                }
            }
        }
    }
    let mut remap: BTreeMap<u64, u64> = BTreeMap::new();
    let mut merged_into: BTreeSet<u64> = BTreeSet::new();
    let mut next = 1_000_000u64;
    for sn in &content.nodes {
        let labels: Vec<String> = if sn.labels.is_empty() { vec![String::new()] } else { sn.labels.iter().cloned().collect() };
        let mut hit = None;
        'd: for k in dedup {
            if let Some(v) = sn.props.get(*k).and_then(|v| norm_key(&v.0, true)) {
                for l in &labels {
                    if let Some(id) = index.get(&(l.clone(), k.to_string(), v.clone())) {
                        hit = Some(*id);
                        break 'd;
                    }
                }
            }
        }
        match hit {
            Some(id) => {
                let n = nodes.iter_mut().find(|n| n.0 == id).unwrap();
                for l in &sn.labels {
                    n.1 .0.insert(l.clone());
                }
                for (k, v) in &sn.props {
                    n.1 .1.entry(k.clone()).or_insert_with(|| v.clone());
                }
                remap.insert(sn.id, id);
                if id < 1_000_000 {
                    merged_into.insert(id);
                }
            }
            None => {
                let id = next;
                next += 1;
                nodes.push((id, (sn.labels.clone(), sn.props.clone())));
                for k in dedup {
                    if let Some(v) = sn.props.get(*k).and_then(|v| norm_key(&v.0, true)) {
                        for l in &labels {
                            index.insert((l.clone(), k.to_string(), v.clone()), id);
                        }
                    }
                }
                remap.insert(sn.id, id);
            }
        }
    }
    for e in &content.edges {
        edges.push((remap[&e.src], remap[&e.dst], e.ty.clone(), e.props.clone()));
    }
    (Plain { nodes, edges }, merged_into)
}

fn pinned(after: &Dump, before: &Dump) -> Plain {
    let ids: BTreeSet<u64> = before.nodes.iter().map(|n| n.id).collect();
    let mut p = Plain::of(after);
    for n in &mut p.nodes {
        if ids.contains(&n.0) {
            n.1 .1.insert(IDKEY.into(), PV::new(PropertyValue::Integer(n.0 as i64)));
        }
    }
    p
}

/// (label, key value) pairs of node records that are completely decodable from `plain`
fn decodable_node_records(plain: &[u8]) -> Vec<J> {
    let text = String::from_utf8_lossy(plain);
    let mut out = vec![];
    let complete = text.ends_with('\n');
    let lines: Vec<&str> = text.split('\n').collect();
    let n = lines.len();
    for (idx, l) in lines.iter().enumerate() {
        if idx == 0 || l.is_empty() {
            continue;
        }
        if idx == n - 1 && !complete {
            // a last line without its newline is still handed to the parser at end of input,
            // so a complete JSON object there counts
        }
        if let Ok(v) = serde_json::from_str::<J>(l) {
            if v["t"] == "n" {
                out.push(v);
            }
        }
    }
    out
}

struct CaseResult {
    sigs: Vec<(String, String)>,
    outcome: &'static str, // ok / err / panic
    nontrivial: bool,
    ok_other_content: bool,
    detail: J,
}

struct Group<'a> {
    snap: &'a Snap,
    tname: &'a str,
    tspec: &'a GraphSpec,
    tbuild: TBuild,
    dedup: Vec<&'static str>,
    before: Dump,
}

fn run_fault(g: &Group, bytes: &[u8], fault_json: J) -> CaseResult {
    let mut store = GraphStore::new();
    build_target(&mut store, g.tspec, g.tbuild).expect("target builds");
    let res = guarded(|| samyama::snapshot::import_tenant_with_dedup(&mut store, std::io::Cursor::new(bytes), &g.dedup).map(|s| (s.node_count, s.merged_count, s.edge_count)).map_err(|e| e.to_string()));
    let after = dump(&store, &LABELS, &KEYS);
    let dec = inflate::gunzip_prefix(bytes);
    let recs = decodable_node_records(&dec.out);
    let mut r = CaseResult { sigs: vec![], outcome: "err", nontrivial: false, ok_other_content: false, detail: json!(null) };
    // region predicate for the merge finding: dedup requested and a decodable node record matches
    // a pre-existing node on (label, key, value)
    let merge_in_prefix = !g.dedup.is_empty()
        && recs.iter().any(|rec| {
            let labels: Vec<String> = rec["labels"].as_array().map(|a| a.iter().filter_map(|x| x.as_str().map(|s| s.to_string())).collect()).unwrap_or_default();
            g.dedup.iter().any(|k| {
                let v = match &rec["props"][*k] {
                    J::String(s) => Some(s.trim().to_lowercase()),
                    J::Number(n) => Some(n.to_string()),
                    _ => None,
                };
                v.map_or(false, |v| g.before.nodes.iter().any(|n| n.labels.iter().any(|l| labels.contains(l)) && n.props.get(*k).and_then(|p| norm_key(&p.0, false)).as_deref() == Some(v.as_str())))
            })
        });
    let mk_detail = |after: &Dump, res: &str| json!({"snapshot": g.snap.name, "level": g.snap.level, "target": g.tname, "target_build": format!("{:?}", g.tbuild), "dedup": g.dedup, "fault": fault_json, "bytes_hex": hex(bytes), "import_result": res, "before": g.before.to_json(), "after": after.to_json(), "decodable_node_records": recs.len()});
    match res {
        Err(p) => {
            r.outcome = "panic";
            r.nontrivial = !recs.is_empty();
            r.sigs.push(("import:panic".into(), format!("import panicked: {p}")));
            r.detail = mk_detail(&after, &format!("panic: {p}"));
            if after != g.before {
                r.sigs.push(("unclassified:panic_and_store_changed".into(), "store changed and the import panicked".into()));
            }
        }
        Ok(Err(e)) => {
            r.outcome = "err";
            r.nontrivial = !recs.is_empty();
            if after != g.before {
                for (sig, msg) in classify_err_diff(&g.before, &after, merge_in_prefix) {
                    r.sigs.push((sig, format!("import failed ({e}) but the store changed: {msg}")));
                }
                r.detail = mk_detail(&after, &format!("Err({e})"));
            }
        }
        Ok(Ok(stats)) => {
            r.outcome = "ok";
            r.nontrivial = g.snap.content.nodes.len() > 0;
            // strong oracle when the bytes still carry the same record stream
            // (modulo the header line, which carries the export time)
            fn records(b: &[u8]) -> &[u8] {
                b.iter().position(|c| *c == b'\n').map(|i| &b[i + 1..]).unwrap_or(&[])
            }
            let same_stream = dec.valid && records(&dec.out) == records(&g.snap.plain);
            let (want, _) = expected_after(&g.before, &g.snap.content, &g.dedup);
            let got = pinned(&after, &g.before);
            let strong = iso(&want, &got).is_some();
            if !strong {
                if same_stream {
                    r.sigs.push((
                        if g.dedup.is_empty() { "ok_import:result_is_not_before_plus_snapshot".into() } else { "ok_import:dedup:result_is_not_before_merged_with_snapshot".into() },
                        format!("import succeeded {stats:?} but the store is not before (+) snapshot: want {} got {}", want.to_json(), got.to_json()),
                    ));
                    r.detail = mk_detail(&after, &format!("Ok{stats:?}"));
                } else {
                    // a different valid snapshot: only demand that nothing of `before` changed
                    r.ok_other_content = true;
                }
            }
            // whatever was imported, pre-existing content keeps its values in every view
            for b in &g.before.nodes {
                match after.nodes.iter().find(|n| n.id == b.id) {
                    None => r.sigs.push(("ok_import:pre_existing_node_lost".into(), format!("node {} is gone after a successful import", b.id))),
                    Some(a) => {
                        let kept = |x: &Props, y: &Props| x.iter().all(|(k, v)| y.get(k) == Some(v));
                        if !kept(&b.props, &a.props) || !b.labels.is_subset(&a.labels) {
                            r.sigs.push(("ok_import:pre_existing_node_value_changed".into(), format!("node {}: {:?} {:?} -> {:?} {:?}", b.id, b.labels, b.props, a.labels, a.props)));
                        }
                        let inconsistent_now = after.node_inconsistencies().iter().any(|x| x.0 == b.id && x.1 == "cy_props");
                        if !kept(&b.cy_props, &a.cy_props) && !(inconsistent_now && !g.dedup.is_empty()) {
                            // (when the merged node's Cypher and API reads disagree it is reported once, below)
                            r.sigs.push(("ok_import:pre_existing_node_cypher_value_changed".into(), format!("node {}: Cypher read {:?} before, {:?} after a successful import", b.id, b.cy_props, a.cy_props)));
                        }
                        if !b.found_by.is_subset(&a.found_by) {
                            r.sigs.push(("ok_import:pre_existing_node_label_index_lost".into(), format!("node {}: found by {:?} before, {:?} after", b.id, b.found_by, a.found_by)));
                        }
                    }
                }
            }
            // pre-existing (possibly merged) nodes must stay consistent across views; views of the
            // *new* nodes are C12's subject
            let had: BTreeSet<(u64, String)> = g.before.node_inconsistencies().into_iter().map(|x| (x.0, x.1)).collect();
            for (id, view, msg) in after.node_inconsistencies() {
                if g.before.nodes.iter().any(|n| n.id == id) && !had.contains(&(id, view.clone())) {
                    let sig = if g.dedup.is_empty() { format!("ok_import:pre_existing_node:inconsistent_view:{view}") } else { format!("ok_import:dedup_merged_node:inconsistent_view:{view}") };
                    r.sigs.push((sig, format!("after a successful import: {msg}")));
                }
            }
            for b in &g.before.edges {
                if !after.edges.contains(b) {
                    r.sigs.push(("ok_import:pre_existing_relationship_changed".into(), format!("relationship {:?} changed or vanished", b)));
                }
            }
            if !r.sigs.is_empty() && r.detail.is_null() {
                r.detail = mk_detail(&after, &format!("Ok{stats:?}"));
            }
        }
    }
    r.sigs.sort();
    r.sigs.dedup_by(|a, b| a.0 == b.0);
    r
}

fn classify_err_diff(before: &Dump, after: &Dump, merge_in_prefix: bool) -> Vec<(String, String)> {
    // additive-only difference confined to pre-existing nodes?
    let same_node_set = before.nodes.len() == after.nodes.len() && before.nodes.iter().all(|b| after.nodes.iter().any(|a| a.id == b.id));
    let mut what = vec![];
    let mut additive = same_node_set;
    if same_node_set {
        for b in &before.nodes {
            let a = after.nodes.iter().find(|a| a.id == b.id).unwrap();
            let kept = b.props.iter().all(|(k, v)| a.props.get(k) == Some(v)) && b.labels.is_subset(&a.labels);
            if !kept {
                additive = false;
                what.push(format!("node {} lost or changed a value", b.id));
            }
            for (k, v) in &a.props {
                if !b.props.contains_key(k) {
                    what.push(format!("node {} gained property {k}={}", b.id, v.1));
                }
            }
            for l in a.labels.difference(&b.labels) {
                what.push(format!("node {} gained label {l:?}", b.id));
            }
        }
        for e in &before.edges {
            if !after.edges.contains(e) {
                additive = false;
                what.push(format!("relationship {} changed or vanished", e.id));
            }
        }
        for e in &after.edges {
            if !before.edges.contains(e) {
                what.push(format!("relationship {}-[:{}]->{} between pre-existing nodes was added", e.src, e.ty, e.dst));
            }
        }
    } else {
        what.push(format!("node set {:?} -> {:?}", before.nodes.iter().map(|n| n.id).collect::<Vec<_>>(), after.nodes.iter().map(|n| n.id).collect::<Vec<_>>()));
    }
    // views of `after` that disagree with its own primary view although `before`'s did not
    let had: BTreeSet<String> = before.inconsistencies(true).into_iter().map(|x| x.0).collect();
    let new_incons: Vec<(String, String)> = after.inconsistencies(true).into_iter().filter(|x| !had.contains(&x.0)).collect();
    if additive && merge_in_prefix {
        let mut out = vec![];
        if !what.is_empty() {
            out.push(("failed_import:dedup_merged_node:additions_survive".to_string(), what.join("; ")));
        }
        // a surviving relationship that the import created as a stub is not in the type index
        // (finish_bulk_load never ran): that is the same residue, not a second symptom
        let added: BTreeSet<u64> = after.edges.iter().filter(|e| !before.edges.contains(e)).map(|e| e.id).collect();
        let by_type_explained = after.by_type.iter().all(|(t, ids)| {
            let want: Vec<u64> = after.edges.iter().filter(|e| &e.ty == t && !added.contains(&e.id)).map(|e| e.id).collect();
            ids.iter().filter(|i| !added.contains(i)).copied().collect::<Vec<_>>() == want
        });
        for (view, msg) in &new_incons {
            if view == "by_type" && by_type_explained && !added.is_empty() {
                continue;
            }
            out.push((format!("failed_import:dedup_merged_node:inconsistent_view:{view}"), msg.clone()));
        }
        if !out.is_empty() {
            return out;
        }
    }
    if additive && what.is_empty() {
        // primary view equal; a secondary view differs
        let view = if before.hier != after.hier {
            "hierarchy"
        } else if before.cy_label_count != after.cy_label_count || before.nodes.iter().zip(&after.nodes).any(|(b, a)| b.found_by != a.found_by) {
            "label_index"
        } else if before.cy_edges != after.cy_edges || before.adj_out != after.adj_out || before.adj_in != after.adj_in || before.by_type != after.by_type {
            "relationship_views"
        } else if before.nodes.iter().zip(&after.nodes).any(|(b, a)| b.cy_props != a.cy_props) {
            "cypher_property_reads"
        } else if before.api_node_count != after.api_node_count || before.cy_node_count != after.cy_node_count || before.api_edge_count != after.api_edge_count {
            "counts"
        } else {
            "other"
        };
        return vec![(format!("unclassified:failed_import:secondary_view:{view}"), format!("before {:?} after {:?}", before, after))];
    }
    vec![(format!("unclassified:failed_import:{}", if same_node_set { "pre_existing_content_changed" } else { "nodes_left_behind_or_lost" }), what.join("; "))]
}

fn hex(b: &[u8]) -> String {
    b.iter().map(|x| format!("{:02x}", x)).collect()
}
fn unhex(s: &str) -> Vec<u8> {
    (0..s.len() / 2).map(|i| u8::from_str_radix(&s[2 * i..2 * i + 2], 16).unwrap_or(0)).collect()
}

fn make_snaps(tier: Tier) -> Vec<Snap> {
    let mut out = vec![];
    for (name, spec, hier) in sources(tier) {
        for level in [Some(0u32), None] {
            let mut st = GraphStore::new();
            build(&mut st, &spec, Builder::Api).expect("source builds");
            if hier {
                let q = samyama::parse_query("CREATE HIERARCHY INDEX h ON ()-[:R]->() MEASURE pop AGGREGATE sum").expect("ddl parses");
                samyama::query::executor::MutQueryExecutor::new(&mut st, "default".into()).execute(&q).expect("ddl runs");
            }
            let bytes = export_bytes(&st, level).expect("export");
            let dec = inflate::gunzip_prefix(&bytes);
            assert!(dec.valid, "own inflate must read an intact export");
            let mut empty = GraphStore::new();
            samyama::snapshot::import_tenant(&mut empty, std::io::Cursor::new(&bytes)).expect("intact import");
            out.push(Snap { name: name.to_string(), level, bytes, plain: dec.out, content: dump(&empty, &LABELS, &KEYS), spec: spec.clone() });
        }
    }
    out
}

/// Large-import rollback: a failed import that had already created more than 1 024 nodes carrying
/// one property (enough to turn that property's column dense) into a store whose first ids are
/// taken by nodes WITHOUT the property (so the dense band does not start at row 0). After the
/// refusal the store must be as before -- including what is left under the ids the rollback freed:
/// fresh nodes that reuse those ids must not inherit anything (seeded change C13b: the column
/// store's dense `remove` is a no-op for the top rows of a band that starts above row 0).
fn large_rollback_phase(ctx: &Ctx) -> J {
    const N: usize = 1100;
    const PRE: usize = 40;
    let mut src = GraphStore::new();
    for i in 0..N {
        let id = src.create_node("Big");
        src.set_node_property("default", id, "name", PropertyValue::String(format!("n{i}"))).expect("set");
    }
    let bytes = export_bytes(&src, None).expect("export");
    let cuts: Vec<usize> = vec![bytes.len() * 96 / 100, bytes.len() * 98 / 100, bytes.len() * 99 / 100, bytes.len() - 9, bytes.len() - 1];
    let mut out = vec![];
    for cut in cuts {
        let mut store = GraphStore::new();
        for _ in 0..PRE {
            store.create_node("Plain");
        }
        let faulty = &bytes[..cut];
        let decodable = decodable_node_records(&inflate::gunzip_prefix(faulty).out).len();
        let res = guarded(|| samyama::snapshot::import_tenant_with_dedup(&mut store, std::io::Cursor::new(faulty), &[]).map(|s| s.node_count).map_err(|e| e.to_string()));
        let outcome = match &res {
            Ok(Ok(n)) => format!("ok:{n}"),
            Ok(Err(_)) => "err".to_string(),
            Err(p) => format!("panic:{p}"),
        };
        let w = json!({"kind": "large_rollback", "nodes_in_snapshot": N, "pre_existing_nodes_without_the_property": PRE, "cut_at_byte": cut, "of": bytes.len(), "decodable_node_records": decodable, "import_result": outcome});
        if let Ok(Err(e)) = &res {
            // (1) nothing of the snapshot is visible
            let big = cy_count(&store, "MATCH (n:Big) RETURN count(n) AS c");
            let all = cy_count(&store, "MATCH (n) RETURN count(n) AS c");
            if big != Some(0) || all != Some(PRE as i64) {
                ctx.violation("large_rollback:store_changed", format!("import of {decodable} decodable node records failed ({e}) but the store holds {all:?} nodes, {big:?} of them :Big (before: {PRE}, 0)"), w.clone());
            }
            // (2) nothing is left under the freed ids: fresh nodes reuse them
            for _ in 0..N {
                store.create_node("Fresh");
            }
            let named = cy_count(&store, "MATCH (n:Fresh) WHERE n.name IS NOT NULL RETURN count(n) AS c");
            let mut api_named = 0;
            for n in store.all_nodes() {
                if n.labels.iter().any(|l| l.as_str() == "Fresh") && store.node_properties_full(n.id).contains_key("name") {
                    api_named += 1;
                }
            }
            if named != Some(0) || api_named != 0 {
                ctx.violation("large_rollback:freed_ids_keep_property_values", format!("after a failed import of {decodable} decodable node records, {named:?} (Cypher) / {api_named} (API) of {N} freshly created nodes already have a `name`: the rollback left the failed import's values under the ids it freed"), w.clone());
            }
        }
        out.push(w);
    }
    json!(out)
}
fn cy_count(store: &GraphStore, q: &str) -> Option<i64> {
    let eng = samyama::query::QueryEngine::new();
    let b = eng.execute(q, store).ok()?;
    let rec = b.records.first()?;
    match rec.get("c") {
        Some(samyama::query::Value::Property(PropertyValue::Integer(i))) => Some(*i),
        _ => None,
    }
}

fn main() {
    run_check("C13", Level::FaultEnumeration, |ctx| {
        silence_stderr();
        tune_malloc();
        if let Some(p) = &ctx.replay {
            replay(ctx, p);
            return;
        }
        let snaps = make_snaps(ctx.tier);
        let targets = targets(ctx.tier);
        let dedups: Vec<Vec<&'static str>> = vec![vec![], vec!["k"]];
        let masks: Vec<u8> = match ctx.tier {
            Tier::Quick => vec![0x01, 0x80, 0xFF],
            Tier::Thorough => vec![0x01, 0x02, 0x04, 0x08, 0x10, 0x20, 0x40, 0x80, 0xFF],
        };
        let mut groups = vec![];
        for sn in &snaps {
            for (tname, tspec, tbuild) in &targets {
                for d in &dedups {
                    let mut st = GraphStore::new();
                    build_target(&mut st, tspec, *tbuild).expect("target builds");
                    groups.push(Group { snap: sn, tname, tspec, tbuild: *tbuild, dedup: d.clone(), before: dump(&st, &LABELS, &KEYS) });
                }
            }
        }
        // case list: (group, fault)
        let mut cases: Vec<(usize, Fault)> = vec![];
        let mut card_trunc = 0u64;
        let mut card_flip = 0u64;
        for (gi, g) in groups.iter().enumerate() {
            cases.push((gi, Fault::Intact));
            for n in 0..g.snap.bytes.len() {
                cases.push((gi, Fault::Trunc(n)));
                card_trunc += 1;
            }
            for o in 0..g.snap.bytes.len() {
                for &m in &masks {
                    cases.push((gi, Fault::Flip(o, m)));
                    card_flip += 1;
                }
            }
        }
        let results: Vec<(Vec<String>, &'static str, bool, bool)> = cases
            .par_iter()
            .map(|(gi, f)| {
                let g = &groups[*gi];
                let r = run_fault(g, &f.apply(&g.snap.bytes), f.json());
                (r.sigs.into_iter().map(|s| s.0).collect(), r.outcome, r.nontrivial, r.ok_other_content)
            })
            .collect();
        let mut outcome: BTreeMap<String, u64> = BTreeMap::new();
        let mut nontrivial = 0u64;
        let mut other_content = 0u64;
        let mut first: BTreeMap<String, usize> = BTreeMap::new();
        let mut intact_bad = 0u64;
        for (idx, (sigs, oc, nt, other)) in results.iter().enumerate() {
            let kind = match cases[idx].1 {
                Fault::Intact => "intact",
                Fault::Trunc(_) => "truncation",
                Fault::Flip(..) => "corruption",
            };
            *outcome.entry(format!("{kind}:{oc}")).or_default() += 1;
            if *nt && cases[idx].1 != Fault::Intact {
                nontrivial += 1;
            }
            if *other {
                other_content += 1;
            }
            if cases[idx].1 == Fault::Intact && *oc != "ok" {
                intact_bad += 1;
            }
            for s in sigs {
                first.entry(s.clone()).or_insert(idx);
            }
        }
        for (sig, idx) in &first {
            let g = &groups[cases[*idx].0];
            let r = run_fault(g, &cases[*idx].1.apply(&g.snap.bytes), cases[*idx].1.json());
            let msg = r.sigs.iter().find(|x| &x.0 == sig).map(|x| x.1.clone()).unwrap_or_default();
            ctx.violation(sig, msg, r.detail);
        }
        for (idx, (sigs, ..)) in results.iter().enumerate() {
            for s in sigs {
                if first.get(s) != Some(&idx) {
                    ctx.violation(s, "", json!(null));
                }
            }
        }
        if intact_bad > 0 {
            ctx.violation("unclassified:intact_snapshot_refused", format!("{intact_bad} intact imports did not succeed"), json!(null));
        }
        let large = large_rollback_phase(ctx);
        ctx.cov("large_import_rollback", large);
        let evaluations = cases.len() as u64;
        ctx.cov("evaluations", evaluations);
        ctx.cov("generator_cardinality", json!({"groups (snapshot x level x target x dedup)": groups.len(), "intact": groups.len(), "truncations (every length 0..len-1)": card_trunc, "corruptions (every offset x masks)": card_flip, "masks": masks, "total": groups.len() as u64 + card_trunc + card_flip}));
        ctx.cov("exhaustive", evaluations == groups.len() as u64 + card_trunc + card_flip);
        ctx.cov("distinct_nontrivial", nontrivial);
        ctx.cov("rule", "a fault case is non-trivial if the faulty bytes still carry >= 1 completely decodable node record before the fault (measured with the check's own tolerant gunzip), i.e. the importer had something to apply before it could fail; every (group, fault) pair is a distinct case");
        ctx.cov("outcomes", json!(outcome));
        ctx.cov("ok_with_a_different_valid_record_stream", other_content);
        ctx.cov("snapshots", json!(snaps.iter().map(|s| json!({"name": s.name, "level": s.level, "bytes": s.bytes.len(), "record_stream_bytes": s.plain.len()})).collect::<Vec<_>>()));
        ctx.cov("targets", json!(targets.iter().map(|t| json!({"name": t.0, "build": format!("{:?}", t.2), "nodes": t.1.nodes.len(), "relationships": t.1.edges.len()})).collect::<Vec<_>>()));
        ctx.cov("dedup_keys", json!(dedups));
        for idx in [0usize, cases.len() / 3, cases.len() - 1] {
            let g = &groups[cases[idx].0];
            ctx.sample(json!({"snapshot": g.snap.name, "level": g.snap.level, "target": g.tname, "dedup": g.dedup, "fault": cases[idx].1.json(), "outcome": results[idx].1}));
        }
        ctx.assume("snapshot content = what importing the intact snapshot into an empty store yields on this tree (differential), so C12's round-trip defects are not re-reported by C13");
        ctx.assume("merge contract used by the Ok oracle (doc comments of import_tenant / import_tenant_with_dedup and test_dedup_properties_merged_additively): match on (shared label, key, value); labels united; snapshot properties only added where the existing node has none; relationships re-attached");
        ctx.assume("alphabet keeps dedup values exact ('x', 1): the importer's case-insensitive / trimmed matching of key values is not exercised; no two nodes inside one snapshot share (label, key value); no two pre-existing nodes share one");
        ctx.assume("Ok with a record stream that differs from the intact one (possible only through a CRC-32 collision or a header-only change) is judged by the weak oracle: nothing of `before` may change");
        ctx.assume("export writes the current time into the header, so snapshot lengths (and therefore the case count) can differ by a few bytes between runs; replay files carry the exact faulty bytes");
        let _ = ctx;
    });
}

fn replay(ctx: &Ctx, p: &std::path::Path) {
    let doc: J = serde_json::from_str(&std::fs::read_to_string(p).expect("read replay")).expect("json");
    if doc["witness"]["kind"] == "large_rollback" {
        let r = large_rollback_phase(ctx);
        println!("{}", serde_json::to_string_pretty(&r).unwrap_or_default());
        return;
    }
    let w = &doc["witness"];
    let tier = Tier::Thorough;
    let bytes = unhex(w["bytes_hex"].as_str().unwrap_or_else(|| ctx.machinery("replay: no bytes_hex")));
    let targets = targets(tier);
    let (tname, tspec, tbuild) = targets.iter().find(|t| Some(t.0) == w["target"].as_str() && Some(format!("{:?}", t.2).as_str()) == w["target_build"].as_str()).unwrap_or_else(|| ctx.machinery("replay: unknown target"));
    let dedup: Vec<&'static str> = w["dedup"].as_array().map(|a| a.iter().filter_map(|x| if x.as_str() == Some("k") { Some("k") } else { None }).collect()).unwrap_or_default();
    // the snapshot content is re-derived from a fresh export of the named source (same graph)
    let snaps = make_snaps(tier);
    let sn = snaps.iter().find(|s| Some(s.name.as_str()) == w["snapshot"].as_str() && s.level.map(|l| l as u64) == w["level"].as_u64()).unwrap_or_else(|| ctx.machinery("replay: unknown snapshot"));
    let mut st = GraphStore::new();
    build_target(&mut st, tspec, *tbuild).expect("target builds");
    // use the witness bytes' own record stream when it is a valid snapshot of the same content
    let g = Group { snap: sn, tname, tspec, tbuild: *tbuild, dedup, before: dump(&st, &LABELS, &KEYS) };
    // the replayed bytes come from an earlier export (different header timestamp): compare record
    // streams modulo the header line by substituting the witness' own intact stream if decodable
    let r = run_fault(&g, &bytes, w["fault"].clone());
    println!("snapshot={} level={:?} target={} dedup={:?} fault={}", sn.name, sn.level, tname, g.dedup, w["fault"]);
    println!("expected: Err => dump identical to before; Ok => before (+) snapshot merged on dedup keys");
    println!("observed: outcome={} after={}", r.outcome, r.detail["after"]);
    println!("          before={}", g.before.to_json());
    for (sig, msg) in r.sigs {
        println!("  MISMATCH [{sig}] {msg}");
        ctx.violation(&sig, msg, json!({"fault": w["fault"]}));
    }
}
