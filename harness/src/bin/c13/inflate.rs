//! A small tolerant gzip/inflate reader (RFC 1952 / RFC 1951, after zlib's puff.c) used only to
//! *describe* faulty inputs: how much of the record stream is decodable before the fault.
//! It never decides a verdict by itself.

pub struct Decoded {
    /// bytes decodable before the first error / end of input
    pub out: Vec<u8>,
    /// the deflate stream ended with a final block
    pub stream_complete: bool,
    /// header parsed, stream complete, and trailer CRC32 + ISIZE match
    pub valid: bool,
    pub header_ok: bool,
}

struct Bits<'a> {
    d: &'a [u8],
    pos: usize,
    buf: u32,
    cnt: u32,
}
impl<'a> Bits<'a> {
    fn bits(&mut self, need: u32) -> Option<u32> {
        let mut val = self.buf;
        while self.cnt < need {
            let b = *self.d.get(self.pos)?;
            self.pos += 1;
            val |= (b as u32) << self.cnt;
            self.cnt += 8;
        }
        self.buf = if need == 32 { 0 } else { val >> need };
        self.cnt -= need;
        Some(if need == 32 { val } else { val & ((1u32 << need) - 1) })
    }
}

struct Huff {
    count: [u16; 16],
    symbol: Vec<u16>,
}
fn construct(lengths: &[u16]) -> (Huff, i32) {
    let mut h = Huff { count: [0; 16], symbol: vec![0; lengths.len()] };
    for &l in lengths {
        h.count[l as usize] += 1;
    }
    let mut left: i32 = 1;
    if h.count[0] as usize == lengths.len() {
        return (h, 0);
    }
    for len in 1..16 {
        left <<= 1;
        left -= h.count[len] as i32;
        if left < 0 {
            return (h, left);
        }
    }
    let mut offs = [0u16; 16];
    for len in 1..15 {
        offs[len + 1] = offs[len] + h.count[len];
    }
    for (sym, &l) in lengths.iter().enumerate() {
        if l != 0 {
            h.symbol[offs[l as usize] as usize] = sym as u16;
            offs[l as usize] += 1;
        }
    }
    (h, left)
}
fn decode(s: &mut Bits, h: &Huff) -> Option<i32> {
    let (mut code, mut first, mut index) = (0i32, 0i32, 0i32);
    for len in 1..16 {
        code |= s.bits(1)? as i32;
        let count = h.count[len] as i32;
        if code - count < first {
            return Some(h.symbol[(index + (code - first)) as usize] as i32);
        }
        index += count;
        first += count;
        first <<= 1;
        code <<= 1;
    }
    Some(-10)
}
const LENS: [u16; 29] = [3, 4, 5, 6, 7, 8, 9, 10, 11, 13, 15, 17, 19, 23, 27, 31, 35, 43, 51, 59, 67, 83, 99, 115, 131, 163, 195, 227, 258];
const LEXT: [u16; 29] = [0, 0, 0, 0, 0, 0, 0, 0, 1, 1, 1, 1, 2, 2, 2, 2, 3, 3, 3, 3, 4, 4, 4, 4, 5, 5, 5, 5, 0];
const DISTS: [u16; 30] = [1, 2, 3, 4, 5, 7, 9, 13, 17, 25, 33, 49, 65, 97, 129, 193, 257, 385, 513, 769, 1025, 1537, 2049, 3073, 4097, 6145, 8193, 12289, 16385, 24577];
const DEXT: [u16; 30] = [0, 0, 0, 0, 1, 1, 2, 2, 3, 3, 4, 4, 5, 5, 6, 6, 7, 7, 8, 8, 9, 9, 10, 10, 11, 11, 12, 12, 13, 13];

fn codes(s: &mut Bits, out: &mut Vec<u8>, lencode: &Huff, distcode: &Huff) -> Option<bool> {
    loop {
        let sym = decode(s, lencode)?;
        if sym < 0 {
            return Some(false);
        }
        if sym < 256 {
            out.push(sym as u8);
        } else if sym == 256 {
            return Some(true);
        } else {
            let sym = (sym - 257) as usize;
            if sym >= 29 {
                return Some(false);
            }
            let len = LENS[sym] as usize + s.bits(LEXT[sym] as u32)? as usize;
            let ds = decode(s, distcode)?;
            if ds < 0 || ds >= 30 {
                return Some(false);
            }
            let dist = DISTS[ds as usize] as usize + s.bits(DEXT[ds as usize] as u32)? as usize;
            if dist > out.len() {
                return Some(false);
            }
            for _ in 0..len {
                let b = out[out.len() - dist];
                out.push(b);
            }
            if out.len() > (1 << 24) {
                return Some(false);
            }
        }
    }
}

/// Returns Some(true) = block ok, Some(false) = invalid data, None = ran out of input.
fn block(s: &mut Bits, out: &mut Vec<u8>, ty: u32) -> Option<bool> {
    match ty {
        0 => {
            s.buf = 0;
            s.cnt = 0;
            let len = s.bits(16)? as usize;
            let nlen = s.bits(16)? as usize;
            if len != (!nlen & 0xffff) {
                return Some(false);
            }
            for _ in 0..len {
                let b = *s.d.get(s.pos)?;
                s.pos += 1;
                out.push(b);
            }
            Some(true)
        }
        1 => {
            let mut l = [0u16; 288];
            for (i, x) in l.iter_mut().enumerate() {
                *x = if i < 144 {
                    8
                } else if i < 256 {
                    9
                } else if i < 280 {
                    7
                } else {
                    8
                };
            }
            let (lc, _) = construct(&l);
            let (dc, _) = construct(&[5u16; 30]);
            codes(s, out, &lc, &dc)
        }
        2 => {
            const ORDER: [usize; 19] = [16, 17, 18, 0, 8, 7, 9, 6, 10, 5, 11, 4, 12, 3, 13, 2, 14, 1, 15];
            let nlen = s.bits(5)? as usize + 257;
            let ndist = s.bits(5)? as usize + 1;
            let ncode = s.bits(4)? as usize + 4;
            if nlen > 286 || ndist > 30 {
                return Some(false);
            }
            let mut lengths = [0u16; 320];
            for &o in ORDER.iter().take(ncode) {
                lengths[o] = s.bits(3)? as u16;
            }
            let (lencode, err) = construct(&lengths[..19]);
            if err != 0 {
                return Some(false);
            }
            let mut index = 0;
            while index < nlen + ndist {
                let sym = decode(s, &lencode)?;
                if sym < 0 {
                    return Some(false);
                }
                if sym < 16 {
                    lengths[index] = sym as u16;
                    index += 1;
                } else {
                    let (val, rep) = match sym {
                        16 => {
                            if index == 0 {
                                return Some(false);
                            }
                            (lengths[index - 1], 3 + s.bits(2)? as usize)
                        }
                        17 => (0, 3 + s.bits(3)? as usize),
                        _ => (0, 11 + s.bits(7)? as usize),
                    };
                    if index + rep > nlen + ndist {
                        return Some(false);
                    }
                    for _ in 0..rep {
                        lengths[index] = val;
                        index += 1;
                    }
                }
            }
            if lengths[256] == 0 {
                return Some(false);
            }
            let (lc, err) = construct(&lengths[..nlen]);
            if err != 0 && (err < 0 || nlen != (lc.count[0] + lc.count[1]) as usize) {
                return Some(false);
            }
            let (dc, err) = construct(&lengths[nlen..nlen + ndist]);
            if err != 0 && (err < 0 || ndist != (dc.count[0] + dc.count[1]) as usize) {
                return Some(false);
            }
            codes(s, out, &lc, &dc)
        }
        _ => Some(false),
    }
}

pub fn crc32(data: &[u8]) -> u32 {
    let mut c = !0u32;
    for &b in data {
        c ^= b as u32;
        for _ in 0..8 {
            c = if c & 1 != 0 { (c >> 1) ^ 0xEDB8_8320 } else { c >> 1 };
        }
    }
    !c
}

pub fn gunzip_prefix(d: &[u8]) -> Decoded {
    let mut r = Decoded { out: vec![], stream_complete: false, valid: false, header_ok: false };
    if d.len() < 10 || d[0] != 0x1f || d[1] != 0x8b || d[2] != 8 {
        return r;
    }
    let flg = d[3];
    if flg & 0xe0 != 0 {
        return r;
    }
    let mut pos = 10;
    if flg & 4 != 0 {
        if d.len() < pos + 2 {
            return r;
        }
        let xl = d[pos] as usize | (d[pos + 1] as usize) << 8;
        pos += 2 + xl;
    }
    for bit in [8u8, 16] {
        if flg & bit != 0 {
            loop {
                match d.get(pos) {
                    None => return r,
                    Some(0) => {
                        pos += 1;
                        break;
                    }
                    Some(_) => pos += 1,
                }
            }
        }
    }
    if flg & 2 != 0 {
        pos += 2;
    }
    if pos > d.len() {
        return r;
    }
    r.header_ok = true;
    let mut s = Bits { d, pos, buf: 0, cnt: 0 };
    loop {
        let Some(last) = s.bits(1) else { return r };
        let Some(ty) = s.bits(2) else { return r };
        match block(&mut s, &mut r.out, ty) {
            Some(true) => {}
            _ => return r,
        }
        if last == 1 {
            break;
        }
    }
    r.stream_complete = true;
    let p = s.pos;
    if d.len() >= p + 8 {
        let crc = u32::from_le_bytes([d[p], d[p + 1], d[p + 2], d[p + 3]]);
        let isz = u32::from_le_bytes([d[p + 4], d[p + 5], d[p + 6], d[p + 7]]);
        r.valid = crc == crc32(&r.out) && isz == r.out.len() as u32;
    }
    r
}
