include!("/repo/src/main.rs");
