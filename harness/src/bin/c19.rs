//! C19 — writes acknowledged by the server survive a restart.
//!
//! hx over write statements sent through the real front ends in-process:
//!   RESP: `CommandHandler::new(Some(Arc<PersistenceManager>))` + `handle_command`,
//!   HTTP: `HttpServer::new(store, 0).with_data_path(..).with_tenant_manager(..).router()` + tower oneshot,
//! followed, after EVERY step, by a restart: everything is dropped, the data directory is
//! reopened and the store rebuilt by a routine that mirrors `start_server` in src/main.rs line for
//! line. The recovered graph must equal the graph served before the restart whenever every statement
//! of the history was acknowledged. A fixed subset of histories is replayed against the real server
//! process (harness bin `samyama_server_shim` = `include!("/repo/src/main.rs")`) over TCP: start,
//! send, SIGTERM, restart, dump; the verdicts must agree with the in-process ones.
use axum::body::Body;
use axum::http::Request;
use bytes::BytesMut;
use http_body_util::BodyExt;
use samyama::graph::GraphStore;
use samyama::http::HttpServer;
use samyama::persistence::PersistenceManager;
use samyama::protocol::command::CommandHandler;
use samyama::protocol::resp::RespValue;
use samyama::query::QueryEngine;
use serde_json::json;
use std::io::{Read, Write};
use std::path::{Path, PathBuf};
use std::sync::atomic::{AtomicU64, Ordering};
use std::sync::Arc;
use std::time::{Duration, Instant};
use svmc::engine::hx::{self, Model, Step};
use svmc::{run_check, Ctx, Level};
use tokio::sync::RwLock;
use tower::ServiceExt;

#[derive(Clone, Copy, Debug, PartialEq, Eq, Hash, PartialOrd, Ord)]
enum Front {
    Resp,
    Http,
}
impl Front {
    fn name(&self) -> &'static str {
        match self {
            Front::Resp => "resp",
            Front::Http => "http",
        }
    }
}

/// (statement kind, text). Kinds separate statements that hand the written entity back in their
/// result rows from those that do not: the RESP front end persists exactly what comes back.
const STMTS: &[(&str, &str)] = &[
    ("create_node_return", "CREATE (n:L {k: 1}) RETURN n"),
    ("create_node", "CREATE (:L {k: 2})"),
    ("create_path_return_all", "CREATE (a:L {k: 3})-[r:R {w: 1}]->(b:L {k: 4}) RETURN a, r, b"),
    ("create_path_return_start", "CREATE (a:L {k: 5})-[:R]->(b:L {k: 6}) RETURN a"),
    ("create_path", "CREATE (:L {k: 7})-[:R]->(:L {k: 8})"),
    ("match_create_rel_return", "MATCH (a:L), (b:L) WHERE a.k < b.k CREATE (a)-[r:S]->(b) RETURN r"),
    ("set_property_return", "MATCH (n:L) SET n.j = 9 RETURN n"),
    ("set_property", "MATCH (n:L) SET n.j = 9"),
    ("set_label_return", "MATCH (n:L) SET n:L2 RETURN n"),
    ("set_label", "MATCH (n:L) SET n:L2"),
    ("remove_property_return", "MATCH (n:L) REMOVE n.k RETURN n"),
    ("remove_property", "MATCH (n:L) REMOVE n.k"),
    ("delete", "MATCH (n:L) DELETE n"),
    ("detach_delete", "MATCH (n:L) DETACH DELETE n"),
    ("merge_return", "MERGE (n:L {k: 1}) RETURN n"),
    ("merge", "MERGE (n:L {k: 10})"),
    // the same node written once per row with a row-dependent value and handed back in every row:
    // the LAST row's snapshot is the acknowledged state
    ("unwind_set_return", "UNWIND [1, 2, 3] AS i MATCH (n:L) SET n.c = i RETURN n"),
];

#[derive(Clone, Debug, PartialEq, Eq, Hash, PartialOrd, Ord)]
enum Op {
    /// one statement through one front end (both front ends serve the same store, as in the server)
    Stmt(Front, usize),
}

static DIR_SEQ: AtomicU64 = AtomicU64::new(0);
fn tmp_root() -> PathBuf {
    PathBuf::from("/verif/target/tmp")
}
/// Data directories of the in-process explorer live on tmpfs when there is one: a RocksDB open costs
/// 50 ms there and 300-600 ms on the shared disk, and each transition opens the directory three
/// times. What is tested is which writes reach the persistence layer at all, not fsync behaviour.
/// The real-server runs ("proc") always use the real disk under /verif/target/tmp.
fn fast_root() -> PathBuf {
    let shm = PathBuf::from("/dev/shm");
    if std::env::var("C19_NO_SHM").is_err() && shm.is_dir() {
        let d = shm.join("verif-c19");
        if std::fs::create_dir_all(&d).is_ok() {
            return d;
        }
    }
    tmp_root()
}
fn fresh_dir(tag: &str) -> PathBuf {
    let root = if tag == "proc" { tmp_root() } else { fast_root() };
    let d = root.join(format!("c19-{}-{}-{}", std::process::id(), tag, DIR_SEQ.fetch_add(1, Ordering::SeqCst)));
    let _ = std::fs::remove_dir_all(&d);
    std::fs::create_dir_all(&d).expect("mkdir");
    d
}
fn cleanup_own_dirs() {
    let prefix = format!("c19-{}-", std::process::id());
    for root in [tmp_root(), fast_root()] {
        if let Ok(rd) = std::fs::read_dir(&root) {
            for e in rd.flatten() {
                if e.file_name().to_string_lossy().starts_with(&prefix) {
                    let _ = std::fs::remove_dir_all(e.path());
                }
            }
        }
    }
    let _ = std::fs::remove_dir(PathBuf::from("/dev/shm/verif-c19")); // only if empty
}

// ---------------------------------------------------------------------------
// graph dump (ids kept; comparison falls back to an id-free multiset form)
// ---------------------------------------------------------------------------

#[derive(Clone, Debug, PartialEq, Eq, Hash, Default)]
struct Dump {
    nodes: Vec<(u64, Vec<String>, Vec<(String, String)>)>,
    edges: Vec<(u64, u64, u64, String, Vec<(String, String)>)>,
}

fn dump(g: &GraphStore) -> Dump {
    let mut nodes: Vec<_> = g
        .all_nodes()
        .iter()
        .map(|n| {
            let mut labels: Vec<String> = n.labels.iter().map(|l| l.as_str().to_string()).collect();
            labels.sort();
            let mut props: Vec<(String, String)> = g.node_properties_full(n.id).into_iter().filter(|(_, v)| !v.is_null()).map(|(k, v)| (k, format!("{v:?}"))).collect();
            props.sort();
            (n.id.as_u64(), labels, props)
        })
        .collect();
    nodes.sort();
    let mut edges: Vec<_> = g
        .all_edges()
        .iter()
        .map(|e| {
            let mut props: Vec<(String, String)> = e.properties.iter().map(|(k, v)| (k.clone(), format!("{v:?}"))).collect();
            props.sort();
            (e.id.as_u64(), e.source.as_u64(), e.target.as_u64(), e.edge_type.as_str().to_string(), props)
        })
        .collect();
    edges.sort();
    Dump { nodes, edges }
}

/// id-free form: multiset of node descriptors, multiset of (source descriptor, type, props, target descriptor)
fn idfree(d: &Dump) -> (Vec<String>, Vec<String>) {
    let desc = |id: u64| d.nodes.iter().find(|n| n.0 == id).map(|n| format!("{:?}{:?}", n.1, n.2)).unwrap_or_else(|| "?".into());
    let mut n: Vec<String> = d.nodes.iter().map(|n| format!("{:?}{:?}", n.1, n.2)).collect();
    n.sort();
    let mut e: Vec<String> = d.edges.iter().map(|e| format!("{}-[{}{:?}]->{}", desc(e.1), e.3, e.4, desc(e.2))).collect();
    e.sort();
    (n, e)
}
fn same_graph(a: &Dump, b: &Dump) -> bool {
    a == b || idfree(a) == idfree(b)
}

// ---------------------------------------------------------------------------
// the in-process server: same wiring as start_server
// ---------------------------------------------------------------------------

struct Server {
    store: Arc<RwLock<GraphStore>>,
    persistence: Option<Arc<PersistenceManager>>,
    handler: Option<CommandHandler>,
    router: Option<axum::Router>,
}

/// Mirror of `start_server` in /repo/src/main.rs (persistence first, recovery from RocksDB, else
/// snapshot restore, then the two front ends over one shared store and tenant manager).
fn boot(data_path: &Path) -> Result<Server, String> {
    let (mut graph, rx) = GraphStore::with_async_indexing();
    let path = data_path.to_str().unwrap().to_string();
    // Initialize persistence FIRST (before loading data)
    let persistence = match PersistenceManager::new(&path) {
        Ok(pm) => Some(Arc::new(pm)),
        Err(e) => return Err(format!("Failed to initialize persistence: {e}")),
    };
    // Recover persisted data from RocksDB
    let mut recovered = false;
    if let Some(ref pm) = persistence {
        match pm.list_persisted_tenants() {
            Ok(tenants) if !tenants.is_empty() => {
                for tenant in &tenants {
                    match pm.recover(tenant) {
                        Ok((nodes, edges)) => {
                            for node in nodes {
                                graph.insert_recovered_node(node);
                            }
                            for edge in edges {
                                if let Err(_e) = graph.insert_recovered_edge(edge) {
                                    // main.rs prints a warning and carries on
                                }
                            }
                            recovered = true;
                        }
                        Err(_e) => {} // main.rs prints the error and carries on
                    }
                }
            }
            Ok(_) => {}
            Err(_e) => {}
        }
    }
    // (no --demo data)
    // HA-08: If no RocksDB recovery happened, replay the last committed .sgsnap snapshot
    if !recovered {
        let _ = samyama::snapshot::persist::restore_persisted_snapshots(&path, &mut graph);
    }
    let store = Arc::new(RwLock::new(graph));
    let shared_tenants = persistence.as_ref().map(|pm| pm.tenants_arc()).unwrap_or_else(|| Arc::new(samyama::persistence::TenantManager::new()));
    // Start background indexer now that store is wrapped in Arc
    if let Some(ref pm) = persistence {
        let guard = store.try_read().map_err(|e| format!("store lock: {e}"))?;
        pm.start_indexer(&guard, rx);
    }
    let router = HttpServer::new(Arc::clone(&store), 0).with_data_path(Some(path.clone())).with_tenant_manager(Arc::clone(&shared_tenants)).router();
    // RespServer::new_with_tenants builds exactly this handler
    let handler = CommandHandler::new_with_tenants(persistence.clone(), shared_tenants);
    Ok(Server { store, persistence, handler: Some(handler), router: Some(router) })
}

impl Server {
    /// Send one statement through a front end; Ok(()) = acknowledged without error.
    async fn send(&self, front: Front, stmt: &str) -> Result<(), String> {
        match front {
            Front::Resp => {
                let cmd = RespValue::Array(vec![
                    RespValue::BulkString(Some(b"GRAPH.QUERY".to_vec())),
                    RespValue::BulkString(Some(b"default".to_vec())),
                    RespValue::BulkString(Some(stmt.as_bytes().to_vec())),
                ]);
                match self.handler.as_ref().unwrap().handle_command(&cmd, &self.store).await {
                    RespValue::Error(e) => Err(e),
                    _ => Ok(()),
                }
            }
            Front::Http => {
                let req = Request::builder().method("POST").uri("/api/query").header("content-type", "application/json").body(Body::from(json!({"query": stmt}).to_string())).unwrap();
                let resp = self.router.clone().unwrap().oneshot(req).await.map_err(|e| e.to_string())?;
                let status = resp.status();
                let body = resp.into_body().collect().await.map(|b| b.to_bytes()).unwrap_or_default();
                if status.is_success() {
                    Ok(())
                } else {
                    Err(format!("{status}: {}", String::from_utf8_lossy(&body).chars().take(120).collect::<String>()))
                }
            }
        }
    }
    async fn dump(&self) -> Dump {
        dump(&*self.store.read().await)
    }
    /// Drop everything that holds the data directory open.
    fn shutdown(mut self) -> Result<(), String> {
        self.handler.take();
        self.router.take();
        let pm = self.persistence.take();
        drop(self.store);
        if let Some(pm) = pm {
            // flush like a clean shutdown would at best; the process exit of the real server does less
            match Arc::try_unwrap(pm) {
                Ok(pm) => drop(pm),
                Err(_) => return Err("persistence manager still shared at shutdown".into()),
            }
        }
        Ok(())
    }
}

// ---------------------------------------------------------------------------
// hx model
// ---------------------------------------------------------------------------

struct St {
    dir: PathBuf,
    rt: tokio::runtime::Runtime,
    server: Option<Server>,
    hist: Vec<Op>,
    /// true once a statement was refused: the history no longer counts ("acknowledged without error")
    refused: bool,
    /// what RocksDB holds (for the dedup key)
    last_dump: Dump,
    machinery: Option<String>,
}
impl Drop for St {
    fn drop(&mut self) {
        if let Some(s) = self.server.take() {
            let _ = s.shutdown();
        }
        let _ = std::fs::remove_dir_all(&self.dir);
    }
}

struct M {
    /// indices into STMTS that form the alphabet of this tier
    kinds: Vec<usize>,
}

#[derive(Debug, Clone, PartialEq)]
enum Verdict {
    Survived,
    /// recovered graph == graph before the statement (and the statement changed the graph)
    LacksEffect,
    Other(String),
}

fn verdict(before: &Dump, after: &Dump, recovered: &Dump) -> Verdict {
    if same_graph(after, recovered) {
        Verdict::Survived
    } else if same_graph(before, recovered) {
        Verdict::LacksEffect
    } else {
        let (an, ae) = idfree(after);
        let (rn, re) = idfree(recovered);
        let missing_n = an.iter().filter(|x| !rn.contains(x)).count();
        let missing_e = ae.iter().filter(|x| !re.contains(x)).count();
        let extra_n = rn.iter().filter(|x| !an.contains(x)).count();
        let extra_e = re.iter().filter(|x| !ae.contains(x)).count();
        Verdict::Other(format!("recovered graph differs from both: {missing_n} node descriptors and {missing_e} relationships of the served graph are missing, {extra_n} nodes / {extra_e} relationships are not in it"))
    }
}

impl Model for M {
    type Op = Op;
    type State = St;
    type Key = String;
    fn init(&self) -> St {
        let dir = fresh_dir("hx");
        let rt = tokio::runtime::Builder::new_current_thread().enable_all().build().expect("rt");
        let booted = {
            let _g = rt.enter();
            boot(&dir)
        };
        let (server, machinery) = match booted {
            Ok(s) => (Some(s), None),
            Err(e) => (None, Some(e)),
        };
        St { dir, rt, server, hist: vec![], refused: false, last_dump: Dump::default(), machinery }
    }
    fn ops(&self, st: &St) -> Vec<Op> {
        if st.machinery.is_some() || st.refused {
            return vec![];
        }
        let mut v = vec![];
        for f in [Front::Resp, Front::Http] {
            for &i in &self.kinds {
                v.push(Op::Stmt(f, i));
            }
        }
        v
    }
    fn apply(&self, st: &mut St, op: &Op, check: bool) -> Step {
        st.hist.push(op.clone());
        match op {
            Op::Stmt(front, i) => {
                let (kind, text) = STMTS[*i];
                let front = *front;
                let server = match st.server.as_ref() {
                    Some(s) => s,
                    None => return Step { violations: vec![("machinery".into(), st.machinery.clone().unwrap_or_default())], outcome: "machinery".into() },
                };
                let before = st.rt.block_on(server.dump());
                let ack = st.rt.block_on(server.send(front, text));
                let after = st.rt.block_on(server.dump());
                st.last_dump = after.clone();
                if let Err(e) = ack {
                    // not acknowledged: the property promises nothing; such histories are not extended
                    st.refused = true;
                    return Step::ok(format!("refused({})", e.chars().take(40).collect::<String>()));
                }
                if !check {
                    return Step::ok("ack");
                }
                // ---- restart on the same data directory
                let s = st.server.take().unwrap();
                if let Err(e) = s.shutdown() {
                    st.machinery = Some(e.clone());
                    return Step { violations: vec![("machinery".into(), e)], outcome: "machinery".into() };
                }
                let dir = st.dir.clone();
                let rebooted = {
                    let _g = st.rt.enter();
                    boot(&dir)
                };
                let s2 = match rebooted {
                    Ok(s) => s,
                    Err(e) => {
                        st.machinery = Some(e.clone());
                        return Step { violations: vec![("machinery".into(), e)], outcome: "machinery".into() };
                    }
                };
                let recovered = st.rt.block_on(s2.dump());
                st.server = Some(s2);
                let v = verdict(&before, &after, &recovered);
                let changed = !same_graph(&before, &after);
                let outcome = match (&v, changed) {
                    (Verdict::Survived, true) => "survived",
                    (Verdict::Survived, false) => "noop",
                    (Verdict::LacksEffect, _) => "lost",
                    (Verdict::Other(_), _) => "partly_lost",
                };
                let mut violations = vec![];
                match v {
                    Verdict::Survived => {}
                    Verdict::LacksEffect => violations.push((
                        format!("C19-({},{kind}):lacks_effect", front.name()),
                        format!("{} front end acknowledged `{text}`; after a restart on the same data directory the served graph is exactly the graph before that statement ({} nodes, {} relationships instead of {}, {})", front.name(), recovered.nodes.len(), recovered.edges.len(), after.nodes.len(), after.edges.len()),
                    )),
                    Verdict::Other(d) => violations.push((format!("C19-({},{kind}):partly_lost", front.name()), format!("{} front end acknowledged `{text}`; after a restart: {d} (served before: {} nodes, {} relationships; after restart: {}, {})", front.name(), after.nodes.len(), after.edges.len(), recovered.nodes.len(), recovered.edges.len()))),
                }
                Step { violations, outcome: outcome.to_string() }
            }
        }
    }
    fn key(&self, st: &St) -> String {
        if let Some(m) = &st.machinery {
            return format!("MACHINERY {m} {:?}", st.hist);
        }
        // the served graph (with ids) and the front end; what RocksDB holds equals the served graph
        // in every state that is expanded (a transition after which they differ is a violation and is
        // not expanded), so it is not a separate component
        format!("{}|{:?}", st.refused, st.last_dump)
    }
    fn op_name(&self, op: &Op) -> String {
        match op {
            Op::Stmt(f, i) => format!("{}:{}", f.name(), STMTS[*i].0),
        }
    }
    fn op_json(&self, op: &Op) -> serde_json::Value {
        match op {
            Op::Stmt(f, i) => json!(format!("{} {}: {}", f.name(), STMTS[*i].0, STMTS[*i].1)),
        }
    }
}

// ---------------------------------------------------------------------------
// the real server process
// ---------------------------------------------------------------------------

/// the real server binary: a sibling of this executable (`./check` builds both into the same directory)
fn shim_path() -> String {
    if let Ok(p) = std::env::var("C19_SHIM") {
        return p;
    }
    std::env::current_exe().ok().and_then(|e| e.parent().map(|d| d.join("samyama_server_shim"))).map(|p| p.to_string_lossy().to_string()).unwrap_or_else(|| "/verif/target/release/samyama_server_shim".to_string())
}

fn free_port() -> u16 {
    std::net::TcpListener::bind("127.0.0.1:0").unwrap().local_addr().unwrap().port()
}

struct Proc {
    child: std::process::Child,
    port: u16,
    http_port: u16,
}
impl Drop for Proc {
    fn drop(&mut self) {
        let _ = self.child.kill();
        let _ = self.child.wait();
    }
}

fn start_proc(dir: &Path) -> Result<Proc, String> {
    let (port, http_port) = (free_port(), free_port());
    let child = std::process::Command::new(shim_path())
        .args(["--data-path", dir.to_str().unwrap(), "--port", &port.to_string(), "--http-port", &http_port.to_string()])
        .stdout(std::process::Stdio::null())
        .stderr(std::process::Stdio::null())
        .env_remove("EMBED_ENABLED")
        .spawn()
        .map_err(|e| format!("spawn {}: {e}", shim_path()))?;
    let p = Proc { child, port, http_port };
    let deadline = Instant::now() + Duration::from_secs(60);
    loop {
        let a = std::net::TcpStream::connect(("127.0.0.1", port)).is_ok();
        let b = std::net::TcpStream::connect(("127.0.0.1", http_port)).is_ok();
        if a && b {
            return Ok(p);
        }
        if Instant::now() > deadline {
            return Err("server process did not open its ports within 60 s".into());
        }
        std::thread::sleep(Duration::from_millis(50));
    }
}

fn sigterm_and_wait(mut p: Proc) {
    unsafe {
        libc::kill(p.child.id() as i32, libc::SIGTERM);
    }
    let deadline = Instant::now() + Duration::from_secs(20);
    loop {
        match p.child.try_wait() {
            Ok(Some(_)) => break,
            _ if Instant::now() > deadline => {
                let _ = p.child.kill();
                break;
            }
            _ => std::thread::sleep(Duration::from_millis(20)),
        }
    }
}

/// One GRAPH.QUERY over a fresh TCP connection; returns the raw reply bytes (one complete RESP frame).
fn resp_query(port: u16, stmt: &str) -> Result<Vec<u8>, String> {
    let mut s = std::net::TcpStream::connect(("127.0.0.1", port)).map_err(|e| e.to_string())?;
    s.set_read_timeout(Some(Duration::from_secs(20))).ok();
    let cmd = RespValue::Array(vec![RespValue::BulkString(Some(b"GRAPH.QUERY".to_vec())), RespValue::BulkString(Some(b"default".to_vec())), RespValue::BulkString(Some(stmt.as_bytes().to_vec()))]);
    let mut buf = vec![];
    cmd.encode(&mut buf).map_err(|e| e.to_string())?;
    s.write_all(&buf).map_err(|e| e.to_string())?;
    let mut acc = BytesMut::new();
    let mut raw = vec![];
    let mut chunk = [0u8; 4096];
    loop {
        let n = s.read(&mut chunk).map_err(|e| format!("read: {e}"))?;
        if n == 0 {
            return Err("connection closed before a complete reply".into());
        }
        raw.extend_from_slice(&chunk[..n]);
        acc.clear();
        acc.extend_from_slice(&raw);
        match RespValue::decode(&mut acc) {
            Ok(Some(_)) => return Ok(raw),
            Ok(None) => continue,
            Err(_) => continue,
        }
    }
}

fn http_query(port: u16, stmt: &str) -> Result<(u16, String), String> {
    let mut s = std::net::TcpStream::connect(("127.0.0.1", port)).map_err(|e| e.to_string())?;
    s.set_read_timeout(Some(Duration::from_secs(20))).ok();
    let body = json!({"query": stmt}).to_string();
    let req = format!("POST /api/query HTTP/1.1\r\nHost: 127.0.0.1\r\nContent-Type: application/json\r\nContent-Length: {}\r\nConnection: close\r\n\r\n{}", body.len(), body);
    s.write_all(req.as_bytes()).map_err(|e| e.to_string())?;
    let mut out = vec![];
    let _ = s.read_to_end(&mut out);
    let text = String::from_utf8_lossy(&out).to_string();
    let status = text.split_whitespace().nth(1).and_then(|x| x.parse::<u16>().ok()).ok_or_else(|| format!("no status line in {:?}", text.chars().take(80).collect::<String>()))?;
    Ok((status, text))
}

const DUMP_QUERIES: &[&str] = &[
    "MATCH (n) RETURN id(n), n.k, n.j, n.c ORDER BY id(n)",
    "MATCH (n:L) RETURN count(n)",
    "MATCH (n:L2) RETURN count(n)",
    "MATCH (a)-[r]->(b) RETURN id(a), type(r), id(b), r.w ORDER BY id(a), id(b)",
];

fn proc_dump(p: &Proc) -> Result<Vec<Vec<u8>>, String> {
    DUMP_QUERIES.iter().map(|q| resp_query(p.port, q)).collect()
}

/// Replay a history against the real server process; returns the verdict class of its LAST statement.
fn real_binary_verdict(stmts: &[(Front, usize)]) -> Result<(String, String), String> {
    let dir = fresh_dir("proc");
    let res = (|| {
        let p = start_proc(&dir)?;
        let mut before = proc_dump(&p)?;
        let mut after = before.clone();
        for (n, (front, i)) in stmts.iter().enumerate() {
            let text = STMTS[*i].1;
            before = after;
            let ack = match front {
                Front::Resp => {
                    let r = resp_query(p.port, text)?;
                    r.first() != Some(&b'-')
                }
                Front::Http => http_query(p.http_port, text)?.0 == 200,
            };
            if !ack {
                return Ok(("refused".to_string(), format!("statement {n} refused")));
            }
            after = proc_dump(&p)?;
        }
        sigterm_and_wait(p);
        let p2 = start_proc(&dir)?;
        let recovered = proc_dump(&p2)?;
        let v = if recovered == after {
            if before == after {
                "noop"
            } else {
                "survived"
            }
        } else if recovered == before {
            "lost"
        } else {
            "partly_lost"
        };
        Ok((v.to_string(), format!("dump replies after restart: {:?}", recovered.iter().map(|r| String::from_utf8_lossy(r).replace("\r\n", " ")).collect::<Vec<_>>())))
    })();
    let _ = std::fs::remove_dir_all(&dir);
    res
}

/// The in-process verdict of the last statement of a history (same classes as the explorer's outcomes).
fn in_process_verdict(stmts: &[(Front, usize)]) -> Result<String, String> {
    let m = M { kinds: (0..STMTS.len()).collect() };
    let mut st = m.init();
    let mut last = String::new();
    for (n, (f, i)) in stmts.iter().enumerate() {
        let step = m.apply(&mut st, &Op::Stmt(*f, *i), n + 1 == stmts.len());
        last = step.outcome.clone();
        if last.starts_with("refused") {
            return Ok("refused".into());
        }
        if last == "machinery" {
            return Err(st.machinery.clone().unwrap_or_default());
        }
    }
    Ok(last)
}

fn silence_stderr() {
    unsafe {
        let fd = libc::open(b"/dev/null\0".as_ptr() as *const libc::c_char, libc::O_WRONLY);
        if fd >= 0 {
            libc::dup2(fd, 2);
        }
    }
}

fn main() {
    run_check("C19", Level::ModelChecking, |ctx| {
        silence_stderr();
        let _ = std::fs::create_dir_all(tmp_root());
        let depth = ctx.tier.pick(2, 3);
        if let Some(p) = &ctx.replay {
            replay(ctx, p);
            cleanup_own_dirs();
            return;
        }
        let m = M { kinds: if ctx.quick() { vec![0, 1, 2, 3, 6, 7, 8, 9, 10, 11, 13, 15, 16] } else { (0..STMTS.len()).collect() } };
        let mut machinery: Option<String> = None;
        let t_explore = Instant::now();
        let stats = hx::explore(&m, depth, 200_000, |v| {
            if v.sig == "machinery" {
                machinery = Some(v.msg.clone());
                return;
            }
            ctx.violation(&v.sig, v.msg, json!({"history": v.history.iter().map(|o| m.op_json(o)).collect::<Vec<_>>()}));
        });
        if let Some(e) = machinery {
            cleanup_own_dirs();
            ctx.machinery(&e);
        }
        hx::report(ctx, &stats, "up to 2 (quick) / 3 (thorough) statements, each through the RESP or the HTTP front end (one shared store), of 17 kinds (quick: 13 of them) (CREATE node / path with and without RETURN, MATCH..CREATE relationship, SET property / label, REMOVE property, DELETE, DETACH DELETE, MERGE; with and without RETURN of the written entity); a restart with the mirrored start_server recovery after every acknowledged statement");

        let explore_s = t_explore.elapsed().as_secs_f64();
        let t_bind = Instant::now();
        // ---- binding to the real binary
        let (r, h) = (Front::Resp, Front::Http);
        let single: Vec<Vec<(Front, usize)>> = if ctx.quick() {
            vec![vec![(r, 0)], vec![(r, 0), (h, 7)]]
        } else {
            let mut v = vec![];
            for f in [r, h] {
                for i in 0..STMTS.len() {
                    v.push(vec![(f, i)]);
                }
            }
            // after a creation that is persisted (RESP, entity returned)
            for f in [r, h] {
                for i in [2usize, 5, 6, 7, 8, 9, 10, 11, 12, 13, 14] {
                    v.push(vec![(r, 0), (f, i)]);
                }
            }
            v
        };
        use rayon::prelude::*;
        let pool = rayon::ThreadPoolBuilder::new().num_threads(6).build().unwrap();
        let results: Vec<(Vec<(Front, usize)>, Result<String, String>, Result<(String, String), String>)> = pool.install(|| single.par_iter().map(|h| (h.clone(), in_process_verdict(h), real_binary_verdict(h))).collect());
        let mut agree = 0u64;
        let mut table = vec![];
        for (h, inp, real) in &results {
            let hist: Vec<String> = h.iter().map(|(f, i)| format!("{}:{}", f.name(), STMTS[*i].0)).collect();
            match (inp, real) {
                (Ok(a), Ok((b, detail))) => {
                    table.push(json!({"history": hist, "in_process": a, "real_binary": b}));
                    if a == b {
                        agree += 1;
                    } else {
                        cleanup_own_dirs();
                        ctx.machinery(&format!("the mirrored recovery does not behave like the real server: {:?}: in-process verdict {a}, server process verdict {b} ({detail})", hist));
                    }
                }
                (Err(e), _) | (_, Err(e)) => {
                    cleanup_own_dirs();
                    ctx.machinery(&format!("real-binary binding failed for {:?}: {e}", hist));
                }
            }
        }
        ctx.cov("phase_wall_s", json!({"explorer": explore_s, "real_binary_binding": t_bind.elapsed().as_secs_f64()}));
        ctx.cov("real_binary_histories", results.len() as u64);
        ctx.cov("real_binary_agreements", agree);
        ctx.cov("real_binary_table", json!(table));
        ctx.cov("traces_validated_against_impl", stats.transitions + results.len() as u64);
        ctx.assume("a history counts only while every statement was acknowledged without error; a refused statement ends the history (nothing is promised)");
        ctx.assume("graphs are compared with ids, falling back to an id-free multiset form (node descriptors; relationships as source descriptor, type, properties, target descriptor): necessary for isomorphism, sufficient when descriptors are distinct");
        ctx.assume(format!("explorer data directories under {}; real-server data directories under /verif/target/tmp", fast_root().display()));
        ctx.assume("restart in-process = drop of handler, router, store and persistence manager (closes RocksDB), then the line-for-line mirror of start_server; bound to the real binary by replaying a fixed subset over TCP with SIGTERM between the two runs and requiring the same verdict per history");
        ctx.assume("symptom classes: lacks_effect (served graph after restart == graph before the statement), partly_lost (differs from both)");
        cleanup_own_dirs();
    });
}

fn replay(ctx: &Ctx, p: &Path) {
    let doc: serde_json::Value = serde_json::from_str(&std::fs::read_to_string(p).expect("read replay")).expect("json");
    let hist: Vec<String> = doc["witness"]["history"].as_array().unwrap().iter().map(|s| s.as_str().unwrap().to_string()).collect();
    let m = M { kinds: (0..STMTS.len()).collect() };
    let mut st = m.init();
    for (i, want) in hist.iter().enumerate() {
        let ops = m.ops(&st);
        let op = ops.iter().find(|o| m.op_json(o).as_str() == Some(want.as_str())).unwrap_or_else(|| ctx.machinery(&format!("replay: op {want} not enabled at step {i}")));
        let step = m.apply(&mut st, op, true);
        println!("step {i}: {want} -> {}", step.outcome);
        println!("  served graph now: {} nodes, {} relationships (expected after a restart: the same graph)", st.last_dump.nodes.len(), st.last_dump.edges.len());
        for (sig, msg) in step.violations {
            println!("  MISMATCH [{sig}] {msg}");
            if doc["signature"].as_str() == Some(sig.as_str()) {
                ctx.violation(&sig, msg, json!({"history": hist[..=i]}));
            }
        }
    }
}
