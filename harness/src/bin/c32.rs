//! C32 — replicated requests have their persistence effect on every replica (DESIGN §C32).
//!
//! `hx` over sequences of replicated `Request`s (create node / create edge — also to missing
//! nodes — / delete / update node and edge properties, on 2 ids). Every explored history is
//! applied through `GraphStateMachine::apply` to R state machines on fresh directories
//! (depth 2, R = 2 quick; depth 4, R = 3 thorough); each replica is then closed, reopened and `recover`ed. All
//! recovered graphs must be equal to each other and to the persistence-level reference applied
//! to the requests that were not answered `Error`; a request answered `Error` has no effect.
use samyama::graph::{PropertyMap, PropertyValue};
use samyama::persistence::PersistenceManager;
use samyama::raft::state_machine::{GraphStateMachine, Request, Response};
use serde_json::json;
use std::collections::BTreeMap;
use std::path::PathBuf;
use std::sync::atomic::{AtomicU64, Ordering};
use std::sync::Arc;
use svmc::engine::ctx::guarded;
use svmc::engine::hx::{self, Model, Step};
use svmc::{run_check, Level};

const TENANT: &str = "default";

fn root() -> PathBuf {
    // VERIF_TMP lets an operator put the scratch directories on a faster file system
    let base = std::env::var("VERIF_TMP").unwrap_or_else(|_| "/verif/target/tmp".to_string());
    PathBuf::from(format!("{base}/c32-{}", std::process::id()))
}
static DIRCTR: AtomicU64 = AtomicU64::new(0);
struct TmpDir(PathBuf);
impl TmpDir {
    fn new() -> TmpDir {
        let shard = rayon::current_thread_index().map(|i| i as i64).unwrap_or(-1);
        let p = root().join(format!("t{shard}")).join(format!("d{}", DIRCTR.fetch_add(1, Ordering::Relaxed)));
        let _ = std::fs::remove_dir_all(&p);
        std::fs::create_dir_all(&p).expect("mkdir");
        TmpDir(p)
    }
}
impl Drop for TmpDir {
    fn drop(&mut self) {
        let _ = std::fs::remove_dir_all(&self.0);
    }
}

#[derive(Clone, Copy, Debug, PartialEq, Eq, Hash, PartialOrd, Ord)]
enum Op {
    CreateNode(u64),
    CreateEdge(u64),
    DeleteNode(u64),
    DeleteEdge(u64),
    UpdateNode(u64),
    UpdateEdge(u64),
    /// two keys at once: one repeats the value the entity was created with, one is new
    UpdateNodeMulti(u64),
    UpdateEdgeMulti(u64),
}
fn alphabet() -> Vec<Op> {
    let mut v = vec![];
    for id in [1u64, 2] {
        v.extend([Op::CreateNode(id), Op::CreateEdge(id), Op::DeleteNode(id), Op::DeleteEdge(id), Op::UpdateNode(id), Op::UpdateEdge(id), Op::UpdateNodeMulti(id), Op::UpdateEdgeMulti(id)]);
    }
    v
}
fn pm1(k: &str, v: i64) -> PropertyMap {
    let mut m = PropertyMap::new();
    m.insert(k.to_string(), PropertyValue::Integer(v));
    m
}
fn pm2(k1: &str, v1: i64, k2: &str, v2: i64) -> PropertyMap {
    let mut m = pm1(k1, v1);
    m.insert(k2.to_string(), PropertyValue::Integer(v2));
    m
}
fn request(op: &Op) -> Request {
    let tenant = TENANT.to_string();
    match op {
        Op::CreateNode(id) => Request::CreateNode { tenant, node_id: *id, labels: vec!["L".into()], properties: pm1("p", 0) },
        // relationships go from node 1 to node 2 whether or not those nodes exist
        Op::CreateEdge(id) => Request::CreateEdge { tenant, edge_id: *id, source: 1, target: 2, edge_type: "R".into(), properties: pm1("w", 0) },
        Op::DeleteNode(id) => Request::DeleteNode { tenant, node_id: *id },
        Op::DeleteEdge(id) => Request::DeleteEdge { tenant, edge_id: *id },
        Op::UpdateNode(id) => Request::UpdateNodeProperties { tenant, node_id: *id, properties: pm1("p", 1), version: 0 },
        Op::UpdateEdge(id) => Request::UpdateEdgeProperties { tenant, edge_id: *id, properties: pm1("w", 1), version: 0 },
        Op::UpdateNodeMulti(id) => Request::UpdateNodeProperties { tenant, node_id: *id, properties: pm2("p", 0, "q", 2), version: 0 },
        Op::UpdateEdgeMulti(id) => Request::UpdateEdgeProperties { tenant, edge_id: *id, properties: pm2("w", 0, "v", 2), version: 0 },
    }
}

type Props = BTreeMap<String, i64>;
#[derive(Clone, Debug, Default, PartialEq, Eq, Hash)]
struct G {
    nodes: BTreeMap<u64, (Vec<String>, Props)>,
    edges: BTreeMap<u64, (u64, u64, String, Props)>,
}
impl G {
    fn apply(&mut self, op: &Op, skip_updates: bool) {
        match op {
            Op::CreateNode(id) => {
                self.nodes.insert(*id, (vec!["L".into()], [("p".to_string(), 0)].into_iter().collect()));
            }
            Op::CreateEdge(id) => {
                self.edges.insert(*id, (1, 2, "R".into(), [("w".to_string(), 0)].into_iter().collect()));
            }
            Op::DeleteNode(id) => {
                self.nodes.remove(id);
            }
            Op::DeleteEdge(id) => {
                self.edges.remove(id);
            }
            Op::UpdateNode(id) => {
                if !skip_updates {
                    if let Some(n) = self.nodes.get_mut(id) {
                        n.1.insert("p".into(), 1);
                    }
                }
            }
            Op::UpdateEdge(id) => {
                if !skip_updates {
                    if let Some(e) = self.edges.get_mut(id) {
                        e.3.insert("w".into(), 1);
                    }
                }
            }
            Op::UpdateNodeMulti(id) => {
                if !skip_updates {
                    if let Some(n) = self.nodes.get_mut(id) {
                        n.1.insert("p".into(), 0);
                        n.1.insert("q".into(), 2);
                    }
                }
            }
            Op::UpdateEdgeMulti(id) => {
                if !skip_updates {
                    if let Some(e) = self.edges.get_mut(id) {
                        e.3.insert("w".into(), 0);
                        e.3.insert("v".into(), 2);
                    }
                }
            }
        }
    }
}
fn props_of(p: &PropertyMap) -> Props {
    p.iter().map(|(k, v)| (k.clone(), if let PropertyValue::Integer(i) = v { *i } else { i64::MIN })).collect()
}

fn recover_dir(dir: &std::path::Path) -> Result<G, String> {
    let pm = PersistenceManager::new(dir).map_err(|e| format!("reopen: {e}"))?;
    let (nodes, edges) = pm.recover(TENANT).map_err(|e| format!("recover: {e}"))?;
    let mut g = G::default();
    for n in &nodes {
        let mut labels: Vec<String> = n.labels.iter().map(|l| l.as_str().to_string()).collect();
        labels.sort();
        if g.nodes.insert(n.id.as_u64(), (labels, props_of(&n.properties))).is_some() {
            return Err(format!("recover returned node {} twice", n.id.as_u64()));
        }
    }
    for e in &edges {
        if g.edges.insert(e.id.as_u64(), (e.source.as_u64(), e.target.as_u64(), e.edge_type.as_str().to_string(), props_of(&e.properties))).is_some() {
            return Err(format!("recover returned edge {} twice", e.id.as_u64()));
        }
    }
    Ok(g)
}

struct St {
    hist: Vec<Op>,
    model: G,
    /// implementation state the reference does not have but later requests can depend on:
    /// the tenant's usage counters (nodes, edges) of replica 0 after the history
    residue: (usize, usize),
}
struct M {
    replicas: usize,
    verbose: bool,
}

/// Apply the whole history to `replicas` fresh state machines, close, reopen, recover.
/// Returns (violations, reference state).
fn run_history(hist: &[Op], replicas: usize, verbose: bool) -> (Vec<(String, String)>, G, (usize, usize)) {
    let mut vio: Vec<(String, String)> = vec![];
    let rt = tokio::runtime::Builder::new_current_thread().enable_all().build().expect("runtime");
    let dirs: Vec<TmpDir> = (0..replicas).map(|_| TmpDir::new()).collect();
    let mut model = G::default();
    let mut model_noupd = G::default();
    let mut acked_updates: Vec<Op> = vec![];
    let mut residue = (0usize, 0usize);
    {
        let pms: Vec<Arc<PersistenceManager>> = dirs.iter().map(|d| Arc::new(PersistenceManager::new(&d.0).expect("PersistenceManager::new on a fresh directory"))).collect();
        let sms: Vec<GraphStateMachine> = pms.iter().map(|pm| GraphStateMachine::new(pm.clone())).collect();
        for op in hist {
            let mut errs = vec![];
            for (ri, sm) in sms.iter().enumerate() {
                let resp = match guarded(|| rt.block_on(sm.apply(request(op)))) {
                    Ok(r) => r,
                    Err(p) => {
                        vio.push(("apply:panic".into(), format!("replica {ri}: apply({op:?}) panicked: {p}")));
                        return (vio, model, residue);
                    }
                };
                let is_err = matches!(resp, Response::Error { .. });
                let shape_ok = match (op, &resp) {
                    (_, Response::Error { .. }) => true,
                    (Op::CreateNode(id), Response::NodeCreated { node_id }) => node_id == id,
                    (Op::CreateEdge(id), Response::EdgeCreated { edge_id }) => edge_id == id,
                    (Op::DeleteNode(_) | Op::DeleteEdge(_) | Op::UpdateNode(_) | Op::UpdateEdge(_) | Op::UpdateNodeMulti(_) | Op::UpdateEdgeMulti(_), Response::Ok) => true,
                    _ => false,
                };
                if !shape_ok {
                    vio.push(("response:unexpected_variant".into(), format!("replica {ri}: apply({op:?}) answered {resp:?}")));
                }
                if verbose {
                    println!("  replica {ri}: {op:?} -> {resp:?}");
                }
                errs.push(is_err);
            }
            if errs.iter().any(|e| *e != errs[0]) {
                vio.push(("response:replicas_disagree".into(), format!("apply({op:?}) was answered Error on some replicas only: {errs:?}")));
            }
            if !errs[0] {
                model.apply(op, false);
                model_noupd.apply(op, true);
                if matches!(op, Op::UpdateNode(_) | Op::UpdateEdge(_) | Op::UpdateNodeMulti(_) | Op::UpdateEdgeMulti(_)) {
                    acked_updates.push(*op);
                }
            }
        }
        if let Ok(u) = pms[0].tenants().get_usage(TENANT) {
            residue = (u.node_count, u.edge_count);
        }
    } // state machines and their stores are closed here
    let mut got: Vec<G> = vec![];
    for (ri, d) in dirs.iter().enumerate() {
        match guarded(|| recover_dir(&d.0)) {
            Ok(Ok(g)) => got.push(g),
            Ok(Err(e)) => {
                vio.push(("recover:error".into(), format!("replica {ri}: {e}")));
                return (vio, model, residue);
            }
            Err(p) => {
                vio.push(("recover:panic".into(), format!("replica {ri}: {p}")));
                return (vio, model, residue);
            }
        }
    }
    if verbose {
        println!("reference: {:?}", model);
        for (ri, g) in got.iter().enumerate() {
            println!("replica {ri} recovered: {:?}", g);
        }
    }
    for ri in 1..got.len() {
        if got[ri] != got[0] {
            vio.push(("replicas_differ".into(), format!("replica 0 recovered {:?}, replica {ri} recovered {:?}", got[0], got[ri])));
        }
    }
    if got[0] != model {
        if !acked_updates.is_empty() && got[0] == model_noupd {
            let dn = got[0].nodes != model.nodes;
            let de = got[0].edges != model.edges;
            let what = match (dn, de) {
                (true, true) => "node_and_edge",
                (true, false) => "node",
                _ => "edge",
            };
            vio.push((format!("acknowledged_update_lost:{what}"), format!("recovered {:?}; requests answered without Error give {:?} — every replica equals the state without the update request(s) {:?}", got[0], model, acked_updates)));
        } else {
            vio.push(("unclassified:recover_mismatch".into(), format!("recovered {:?}; reference {:?}", got[0], model)));
        }
    }
    (vio, model, residue)
}

impl Model for M {
    type Op = Op;
    type State = St;
    type Key = (G, (usize, usize));
    fn init(&self) -> St {
        St { hist: vec![], model: G::default(), residue: (0, 0) }
    }
    fn ops(&self, _st: &St) -> Vec<Op> {
        alphabet()
    }
    fn apply(&self, st: &mut St, op: &Op, check: bool) -> Step {
        st.hist.push(*op);
        if !check {
            // the live replicas are materialised only when a transition is checked
            return Step::ok("");
        }
        let (vio, model, residue) = run_history(&st.hist, self.replicas, self.verbose);
        st.model = model;
        st.residue = residue;
        Step { violations: vio, outcome: "applied".into() }
    }
    fn key(&self, st: &St) -> (G, (usize, usize)) {
        (st.model.clone(), st.residue)
    }
}

/// `hx::explore` with the successors of a level computed in parallel over (history, op) pairs
/// instead of over histories: a transition costs several RocksDB open/close cycles and the
/// frontiers are small, so per-history parallelism would leave most cores idle. Same
/// level-synchronous BFS, same deterministic sequential dedup in frontier order, same
/// statistics; the successor of a violating transition is not expanded.
fn explore_flat(m: &M, max_depth: usize, mut on_violation: impl FnMut(hx::Violation<Op>)) -> hx::Stats {
    use rayon::prelude::*;
    let mut stats = hx::Stats::default();
    let mut seen: std::collections::HashSet<(G, (usize, usize))> = std::collections::HashSet::new();
    seen.insert(m.key(&m.init()));
    stats.states = 1;
    stats.per_depth_states.push(1);
    let mut frontier: Vec<Vec<Op>> = vec![vec![]];
    for depth in 1..=max_depth {
        if frontier.is_empty() {
            break;
        }
        let tasks: Vec<(usize, Op)> = frontier.iter().enumerate().flat_map(|(i, h)| m.ops(&hx::rebuild(m, h)).into_iter().map(move |o| (i, o))).collect();
        let results: Vec<(Vec<Op>, Option<(G, (usize, usize))>, Step)> = tasks
            .par_iter()
            .map(|(i, op)| {
                let mut st = hx::rebuild(m, &frontier[*i]);
                let step = m.apply(&mut st, op, true);
                let key = if step.violations.is_empty() { Some(m.key(&st)) } else { None };
                (st.hist.clone(), key, step)
            })
            .collect();
        let mut next = vec![];
        let mut new_states = 0u64;
        for (hist, key, step) in results {
            stats.transitions += 1;
            let opname = m.op_name(hist.last().unwrap());
            *stats.outcomes_per_op.entry(opname).or_default().entry(step.outcome.clone()).or_default() += 1;
            if !step.violations.is_empty() {
                stats.pruned_after_violation += 1;
                for (sig, msg) in step.violations {
                    on_violation(hx::Violation { sig, msg, history: hist.clone() });
                }
                continue;
            }
            if seen.insert(key.unwrap()) {
                stats.states += 1;
                new_states += 1;
                if stats.samples.len() < 3 && (depth == 1 || depth == max_depth) {
                    stats.samples.push(json!({"depth": depth, "history": hist.iter().map(|o| format!("{:?}", o)).collect::<Vec<_>>(), "last_outcome": step.outcome}));
                }
                next.push(hist);
            }
        }
        stats.per_depth_states.push(new_states);
        stats.max_depth = depth;
        frontier = next;
    }
    stats
}

fn main() {
    run_check("C32", Level::ModelChecking, |ctx| {
        let (depth, replicas) = match ctx.tier {
            svmc::Tier::Quick => (3, 2),
            svmc::Tier::Thorough => (5, 3),
        };
        if let Some(p) = ctx.replay.clone() {
            let doc: serde_json::Value = serde_json::from_str(&std::fs::read_to_string(&p).expect("read replay")).expect("json");
            let hist: Vec<Op> = doc["witness"]["history"].as_array().unwrap().iter().map(|s| *alphabet().iter().find(|o| format!("{:?}", o) == s.as_str().unwrap()).expect("op")).collect();
            let r = doc["witness"]["replicas"].as_u64().unwrap_or(3) as usize;
            println!("history {:?} on {r} replicas", hist);
            let (vio, _, _) = run_history(&hist, r, true);
            for (sig, msg) in vio {
                println!("  MISMATCH [{sig}] {msg}");
                ctx.violation(&sig, msg, doc["witness"].clone());
            }
            let _ = std::fs::remove_dir_all(root());
            return;
        }
        let m = M { replicas, verbose: false };
        let stats = explore_flat(&m, depth, |v| {
            ctx.violation(&v.sig, v.msg, json!({"history": v.history.iter().map(|o| format!("{:?}", o)).collect::<Vec<_>>(), "replicas": replicas}));
        });
        hx::report(ctx, &stats, "Request::{CreateNode{p:0}, CreateEdge{1->2,w:0} (endpoints may be missing), DeleteNode, DeleteEdge, UpdateNodeProperties{p:1}, UpdateEdgeProperties{w:1}, UpdateNodeProperties{p:0,q:2}, UpdateEdgeProperties{w:0,v:2}} x ids {1,2}");
        ctx.cov("replicas", replicas as u64);
        println!("hx: {} states, {} transitions, depth {}", stats.states, stats.transitions, stats.max_depth);
        ctx.assume("every explored history is applied from scratch to fresh replicas, which are then closed, reopened and recovered; the dedup key is the reference state plus the tenant's usage counters of replica 0 (implementation residue that later requests can depend on: a deletion of a missing id decrements them)");
        ctx.assume("re-creating an existing id replaces it; deleting or updating a missing id is answered without Error and has no effect; referential integrity is not part of the persistence-level model");
        ctx.assume("an update request merges its keys into the entity's properties (the state machine's documented read-modify-write); the two-key update repeats the creation value of one key and adds a new key; wall-clock fields and versions are not compared");
        let _ = std::fs::remove_dir_all(root());
    });
}
