//! C04 — write statements have exactly their openCypher effect.
//! hx over sequences of generated write statements from a family of start graphs; after every
//! statement the returned rows and the full graph dump (up to isomorphism) are compared with the
//! reference mutation semantics (DESIGN Appendix A, "Writes").
#[path = "../cy/ast.rs"]
mod ast;
#[path = "../cy/classify.rs"]
mod classify;
#[path = "../cy/eval.rs"]
mod eval;
#[path = "../cy/gen_write.rs"]
mod gen_write;
#[path = "../cy/judge.rs"]
mod judge;

use eval::{EvalErr, Evaluator};
use judge::{EngineOut, Verdict};
use samyama::graph::GraphStore;
use serde_json::json;
use std::collections::BTreeMap;
use svmc::engine::hx::{self, Model, Step};
use svmc::model::graph::{build, canonical, dump, isomorphic, RefGraph};
use svmc::{run_check, Level, Tier};

struct St {
    store: GraphStore,
    g: RefGraph,
    dead: bool,
}
struct M {
    start: RefGraph,
    stmts: Vec<gen_write::Stmt>,
    texts: Vec<String>,
    parsed: Vec<Result<samyama::query::Query, String>>,
}

fn graph_delta(engine: &RefGraph, reference: &RefGraph) -> String {
    let dn = engine.nodes.len() as i64 - reference.nodes.len() as i64;
    let dr = engine.rels.len() as i64 - reference.rels.len() as i64;
    if dn != 0 || dr != 0 {
        let cls = |d: i64, what: &str| if d > 0 { format!("extra_{what}") } else if d < 0 { format!("missing_{what}") } else { String::new() };
        return [cls(dn, "nodes"), cls(dr, "rels")].iter().filter(|s| !s.is_empty()).cloned().collect::<Vec<_>>().join("+");
    }
    // same sizes: which aspect differs
    let labels = |g: &RefGraph| {
        let mut v: Vec<_> = g.nodes.values().map(|n| n.labels.clone()).collect();
        v.sort();
        v
    };
    if labels(engine) != labels(reference) {
        return "labels".into();
    }
    let nprops = |g: &RefGraph| {
        let mut v: Vec<_> = g.nodes.values().map(|n| n.props.clone()).collect();
        v.sort();
        v
    };
    if nprops(engine) != nprops(reference) {
        return "node_props".into();
    }
    let rprops = |g: &RefGraph| {
        let mut v: Vec<_> = g.rels.values().map(|r| (r.ty.clone(), r.props.clone())).collect();
        v.sort();
        v
    };
    if rprops(engine) != rprops(reference) {
        return "rel_type_or_props".into();
    }
    "structure".into()
}

impl Model for M {
    type Op = usize;
    type State = St;
    type Key = String;
    fn init(&self) -> St {
        let (store, _) = build(&self.start, None);
        St { store, g: self.start.clone(), dead: false }
    }
    fn ops(&self, st: &St) -> Vec<usize> {
        if st.dead {
            vec![]
        } else {
            (0..self.stmts.len()).collect()
        }
    }
    fn op_name(&self, op: &usize) -> String {
        self.stmts[*op].name.to_string()
    }
    fn op_json(&self, op: &usize) -> serde_json::Value {
        json!(self.texts[*op])
    }
    fn apply(&self, st: &mut St, op: &usize, check: bool) -> Step {
        let q = &self.stmts[*op].q;
        let mut vio = vec![];
        let mut ev = Evaluator::new(st.g.clone());
        let reference = ev.run(q);
        // region of a violation: the trigger conditions the reference run met (events); a case
        // that met none is classified by the statement's syntactic shape and surfaces as unclassified
        let shape = {
            let mut evs = ev.events.borrow().clone();
            if evs.contains("delete_connected_node") {
                evs.remove("delete_spans_rows");
            }
            let ev_s = evs.into_iter().collect::<Vec<_>>().join("+");
            let mut tags = classify::shape_tags(q);
            tags.retain(|t| ["create", "merge", "set", "remove", "delete", "detach_delete", "with", "unwind"].contains(&t.as_str()) || t.starts_with("agg_"));
            let sh = tags.into_iter().collect::<Vec<_>>().join("+");
            let has_ret = q.clauses.iter().any(|c| matches!(c, ast::Clause::Return(_)));
            if ev_s.is_empty() { format!("unclassified:{sh}{}", if has_ret { "+return" } else { "" }) } else { ev_s }
        };
        let pre = if check { Some(dump(&st.store)) } else { None };
        let out = match &self.parsed[*op] {
            Err(e) => EngineOut::Err(e.clone()),
            Ok(pq) => judge::run_write(&mut st.store, pq, &BTreeMap::new()),
        };
        let outcome;
        match (reference, out) {
            (_, EngineOut::Panic(p)) => {
                vio.push((format!("{shape}|panic"), format!("{}: engine panicked: {p}", self.texts[*op])));
                outcome = "panic".to_string();
                st.dead = true;
            }
            (Err(EvalErr::Unjudged(why)), _) => {
                outcome = format!("unjudged:{why}");
                st.dead = true;
            }
            (Err(EvalErr::Refuse(why)), EngineOut::Rows(rows)) => {
                vio.push((format!("{shape}|should_refuse"), format!("{}: openCypher defines an error ({why}); the engine answered {} rows and left graph [{}]", self.texts[*op], rows.len(), dump(&st.store).describe())));
                outcome = "should_refuse".into();
                st.dead = true;
            }
            (Err(EvalErr::Refuse(_)), EngineOut::Err(_)) => {
                outcome = "refused_as_defined".into();
                // whether a refused statement left traces is C05's question; do not build on it here
                if let Some(pre) = &pre {
                    if !isomorphic(pre, &dump(&st.store)) {
                        st.dead = true;
                    }
                } else if !isomorphic(&st.g, &dump(&st.store)) {
                    st.dead = true;
                }
            }
            (Ok(_), EngineOut::Err(e)) => {
                outcome = format!("engine_refused:{}", e.chars().take(40).collect::<String>());
                if !isomorphic(&st.g, &dump(&st.store)) {
                    st.dead = true;
                }
            }
            (Ok(r), EngineOut::Rows(rows)) => {
                st.g = ev.g;
                outcome = "ok".into();
                if check {
                    match judge::compare_rows(&rows, &r) {
                        Verdict::Mismatch(sym, detail) => {
                            vio.push((format!("{shape}|rows:{sym}"), format!("{}: {detail}", self.texts[*op])));
                        }
                        _ => {}
                    }
                    let d = dump(&st.store);
                    if !isomorphic(&d, &st.g) {
                        vio.push((format!("{shape}|graph:{}", graph_delta(&d, &st.g)), format!("{}: graph after = [{}], reference = [{}]", self.texts[*op], d.describe(), st.g.describe())));
                    }
                } else if !isomorphic(&dump(&st.store), &st.g) {
                    st.dead = true;
                }
            }
        }
        Step { violations: vio, outcome }
    }
    fn key(&self, st: &St) -> String {
        format!("{:?}|{}", canonical(&st.g), st.dead)
    }
}

fn silence_stderr() {
    unsafe {
        let fd = libc::open(b"/dev/null\0".as_ptr() as *const libc::c_char, libc::O_WRONLY);
        if fd >= 0 {
            libc::dup2(fd, 2);
        }
    }
}

fn main() {
    run_check("C04", Level::ModelChecking, |ctx| {
        silence_stderr();
        let depth = std::env::var("C04_DEPTH").ok().and_then(|s| s.parse().ok()).unwrap_or(match ctx.tier {
            Tier::Quick => 2,
            Tier::Thorough => 4,
        });
        let starts = gen_write::start_graphs();
        if let Some(p) = &ctx.replay {
            replay(ctx, p);
            return;
        }
        let mut total = hx::Stats::default();
        let mut refused_stmts: BTreeMap<String, u64> = BTreeMap::new();
        for (sname, sg) in &starts {
            let stmts = gen_write::statements();
            let texts: Vec<String> = stmts.iter().map(|s| s.q.print()).collect();
            let parsed = texts.iter().map(|t| judge::parse(t)).collect();
            let m = M { start: sg.clone(), stmts, texts: texts.clone(), parsed };
            let stats = hx::explore(&m, depth, 5_000_000, |v| {
                ctx.violation(&v.sig, format!("start [{}] {}", sg.describe(), v.msg), json!({"start": sname, "history": v.history.iter().map(|i| texts[*i].clone()).collect::<Vec<_>>()}));
            });
            total.states += stats.states;
            total.transitions += stats.transitions;
            total.max_depth = total.max_depth.max(stats.max_depth);
            total.pruned_after_violation += stats.pruned_after_violation;
            total.cap_hit |= stats.cap_hit;
            for (op, outs) in stats.outcomes_per_op {
                let e = total.outcomes_per_op.entry(op.clone()).or_default();
                for (o, c) in outs {
                    if o.starts_with("engine_refused") {
                        *refused_stmts.entry(format!("{op}: {o}")).or_default() += c;
                    }
                    *e.entry(o).or_default() += c;
                }
            }
            if total.samples.len() < 4 {
                total.samples.extend(stats.samples.into_iter().take(1));
            }
        }
        hx::report(ctx, &total, &format!("{} write statements (CREATE / MERGE / SET / REMOVE / DELETE / DETACH DELETE with MATCH, WITH, UNWIND) x {} start graphs", gen_write::statements().len(), starts.len()));
        ctx.cov("start_graphs", json!(starts.iter().map(|(n, g)| format!("{n}: {}", g.describe())).collect::<Vec<_>>()));
        ctx.cov("statements_refused_by_engine", json!(refused_stmts));
        ctx.assume("reference mutation semantics: harness/src/cy/eval.rs (DESIGN Appendix A); graphs compared up to isomorphism through the public read API; write statements return scalar columns only");
        ctx.assume("an engine refusal of a statement the reference accepts is recorded (statements_refused_by_engine) and not judged here; a refusal that changes the graph is C05's subject");
    });
}

fn replay(ctx: &svmc::Ctx, p: &std::path::Path) {
    let doc: serde_json::Value = serde_json::from_str(&std::fs::read_to_string(p).expect("read")).expect("json");
    let w = &doc["witness"];
    let sname = w["start"].as_str().unwrap();
    let starts = gen_write::start_graphs();
    let sg = &starts.iter().find(|(n, _)| *n == sname).unwrap_or_else(|| ctx.machinery("replay: unknown start graph")).1;
    let stmts = gen_write::statements();
    let texts: Vec<String> = stmts.iter().map(|s| s.q.print()).collect();
    let parsed = texts.iter().map(|t| judge::parse(t)).collect();
    let m = M { start: sg.clone(), stmts, texts: texts.clone(), parsed };
    let mut st = m.init();
    println!("start: {}", sg.describe());
    for h in w["history"].as_array().unwrap() {
        let t = h.as_str().unwrap();
        let i = texts.iter().position(|x| x == t).unwrap_or_else(|| ctx.machinery("replay: statement not in the alphabet"));
        let step = m.apply(&mut st, &i, true);
        println!("  {t}\n     -> {} ; engine graph [{}] ; reference [{}]", step.outcome, dump(&st.store).describe(), st.g.describe());
        for (sig, msg) in step.violations {
            println!("     MISMATCH [{sig}] {msg}");
            ctx.violation(&sig, msg, w.clone());
        }
    }
}
