//! C25 — the Cypher parser never panics and never silently changes numbers.
//!
//! Bounded-exhaustive input enumeration against the real `samyama::query::parse_query`:
//!   (1) `numerals` — every numeric position the parser has a code path for (integer / float / hex / octal literal in
//!       RETURN, WHERE, property map, list, map, function argument, SET, index, slice, IN; variable-length lower / upper /
//!       exact bound; SKIP and LIMIT in every statement form) x a boundary numeral lattice. If parsing succeeds the
//!       AST must carry the mathematically exact value (for floats: the correctly rounded finite f64); otherwise it
//!       must be an error. A refusal is always admissible.
//!   (2) `edits` — every single-byte edit (replace by each of 40 bytes, insert each, delete) at every offset of a
//!       query corpus (thorough: also every replacement of two adjacent bytes), and `tokens` — every string of <= 3
//!       (thorough 4) tokens of a 30-token alphabet: the outcome must be Ok or Err, never a panic.
//!   (3) `towers` — nesting towers (parentheses, lists, maps, function calls, unary minus, NOT, CASE, list
//!       comprehension brackets in a pattern) at depths 10 .. 10^5, each in a forked child on a 2 MiB stack:
//!       a dead child (stack overflow) is a violation; a parse that does not finish in 60 s is reported as unjudged.
use rayon::prelude::*;
use samyama::graph::PropertyValue;
use samyama::query::ast::{Clause, Expression, Query, UnaryOp};
use samyama::query::parse_query;
use serde_json::{json, Value};
use std::collections::BTreeMap;
use svmc::engine::ctx::guarded;
use svmc::engine::subproc;
use svmc::{run_check, Ctx, Level};

// ---------------------------------------------------------------------------------------------
// numbers

#[derive(Debug, Clone, PartialEq)]
enum Num {
    Int(i128),
    /// f64 bits
    Float(u64),
}
impl Num {
    fn show(&self) -> String {
        match self {
            Num::Int(i) => i.to_string(),
            Num::Float(b) => format!("{:?}f64", f64::from_bits(*b)),
        }
    }
}

/// Numeric leaves of an expression, unary minus folded in. None = contains something this walker does not model.
fn leaves(e: &Expression, out: &mut Vec<Num>) -> Option<()> {
    match e {
        Expression::Literal(v) => pv_leaves(v, out),
        Expression::Unary { op: UnaryOp::Minus, expr } => {
            let mut inner = vec![];
            leaves(expr, &mut inner)?;
            for n in inner {
                out.push(match n {
                    Num::Int(i) => Num::Int(-i),
                    Num::Float(b) => Num::Float((-f64::from_bits(b)).to_bits()),
                });
            }
            Some(())
        }
        Expression::Unary { expr, .. } => leaves(expr, out),
        Expression::Binary { left, right, .. } => {
            leaves(left, out)?;
            leaves(right, out)
        }
        Expression::Function { args, .. } => {
            for a in args {
                leaves(a, out)?;
            }
            Some(())
        }
        Expression::Index { expr, index } => {
            leaves(expr, out)?;
            leaves(index, out)
        }
        Expression::ListSlice { expr, start, end } => {
            leaves(expr, out)?;
            if let Some(s) = start {
                leaves(s, out)?;
            }
            if let Some(e) = end {
                leaves(e, out)?;
            }
            Some(())
        }
        Expression::ListExpr(items) => {
            for a in items {
                leaves(a, out)?;
            }
            Some(())
        }
        Expression::MapExpr(items) => {
            for (_, a) in items {
                leaves(a, out)?;
            }
            Some(())
        }
        Expression::Case { operand, when_clauses, else_result } => {
            if let Some(o) = operand {
                leaves(o, out)?;
            }
            for (w, t) in when_clauses {
                leaves(w, out)?;
                leaves(t, out)?;
            }
            if let Some(e) = else_result {
                leaves(e, out)?;
            }
            Some(())
        }
        Expression::Property { .. } | Expression::Variable(_) | Expression::Parameter(_) | Expression::PathVariable(_) => Some(()),
        _ => None,
    }
}

fn pv_leaves(v: &PropertyValue, out: &mut Vec<Num>) -> Option<()> {
    match v {
        PropertyValue::Integer(i) => out.push(Num::Int(*i as i128)),
        PropertyValue::Float(f) => out.push(Num::Float(f.to_bits())),
        PropertyValue::Array(a) => {
            for x in a {
                pv_leaves(x, out)?;
            }
        }
        PropertyValue::Map(m) => {
            let mut keys: Vec<&String> = m.keys().collect();
            keys.sort();
            for k in keys {
                pv_leaves(&m[k], out)?;
            }
        }
        // a float list narrowed to f32 is a changed number: surface it as the widened value
        PropertyValue::Vector(v) => {
            for x in v {
                out.push(Num::Float((*x as f64).to_bits()));
            }
        }
        PropertyValue::String(_) | PropertyValue::Boolean(_) | PropertyValue::Null => {}
        _ => return None,
    }
    Some(())
}

// ---------------------------------------------------------------------------------------------
// (1) numeral positions

#[derive(Clone, Copy, PartialEq, Debug)]
enum Ty {
    I64,
    Usize,
    F64,
}

struct Position {
    name: &'static str,
    ty: Ty,
    /// query text with `#` where the numeral goes
    template: &'static str,
    /// numeric values the AST carries at this position (everything else in the template is number-free)
    extract: fn(&Query) -> Option<Vec<Num>>,
}

fn ret_leaves(q: &Query) -> Option<Vec<Num>> {
    let mut out = vec![];
    let mut found = false;
    if let Some(r) = &q.return_clause {
        found = true;
        for it in &r.items {
            leaves(&it.expression, &mut out)?;
        }
    } else {
        for c in &q.clauses {
            if let Clause::Return(r) = c {
                found = true;
                for it in &r.items {
                    leaves(&it.expression, &mut out)?;
                }
            }
        }
    }
    if found {
        Some(out)
    } else {
        None
    }
}
fn where_leaves(q: &Query) -> Option<Vec<Num>> {
    let mut out = vec![];
    leaves(&q.where_clause.as_ref()?.predicate, &mut out)?;
    Some(out)
}
fn node_props(n: &samyama::query::ast::NodePattern, out: &mut Vec<Num>) -> Option<()> {
    if let Some(p) = &n.properties {
        let mut keys: Vec<&String> = p.keys().collect();
        keys.sort();
        for k in keys {
            pv_leaves(&p[k], out)?;
        }
    }
    if let Some(p) = &n.property_exprs {
        let mut keys: Vec<&String> = p.keys().collect();
        keys.sort();
        for k in keys {
            leaves(&p[k], out)?;
        }
    }
    Some(())
}
fn pattern_leaves(p: &samyama::query::ast::Pattern, out: &mut Vec<Num>) -> Option<()> {
    for path in &p.paths {
        node_props(&path.start, out)?;
        for s in &path.segments {
            if let Some(pp) = &s.edge.properties {
                let mut keys: Vec<&String> = pp.keys().collect();
                keys.sort();
                for k in keys {
                    pv_leaves(&pp[k], out)?;
                }
            }
            if let Some(pp) = &s.edge.property_exprs {
                let mut keys: Vec<&String> = pp.keys().collect();
                keys.sort();
                for k in keys {
                    leaves(&pp[k], out)?;
                }
            }
            node_props(&s.node, out)?;
        }
    }
    Some(())
}
fn create_leaves(q: &Query) -> Option<Vec<Num>> {
    let mut out = vec![];
    pattern_leaves(&q.create_clause.as_ref()?.pattern, &mut out)?;
    Some(out)
}
fn match_leaves(q: &Query) -> Option<Vec<Num>> {
    let mut out = vec![];
    pattern_leaves(&q.match_clauses.first()?.pattern, &mut out)?;
    Some(out)
}
fn merge_leaves(q: &Query) -> Option<Vec<Num>> {
    let mut out = vec![];
    pattern_leaves(&q.merge_clause.as_ref()?.pattern, &mut out)?;
    Some(out)
}
fn set_leaves(q: &Query) -> Option<Vec<Num>> {
    let mut out = vec![];
    for it in &q.set_clauses.first()?.items {
        leaves(&it.value, &mut out)?;
    }
    Some(out)
}
fn unwind_leaves(q: &Query) -> Option<Vec<Num>> {
    let mut out = vec![];
    leaves(&q.unwind_clause.as_ref()?.expression, &mut out)?;
    Some(out)
}
fn with_leaves(q: &Query) -> Option<Vec<Num>> {
    let mut out = vec![];
    for it in &q.with_clause.as_ref()?.items {
        leaves(&it.expression, &mut out)?;
    }
    Some(out)
}
/// [min, max] of the first variable-length relationship; an absent bound is reported as -1
fn length_of(q: &Query) -> Option<Vec<Num>> {
    let l = q.match_clauses.first()?.pattern.paths.first()?.segments.first()?.edge.length.as_ref()?;
    Some(vec![Num::Int(l.min.map(|x| x as i128).unwrap_or(-1)), Num::Int(l.max.map(|x| x as i128).unwrap_or(-1))])
}

/// every (skip, limit) pair the AST carries, absent = -1: top level, WITH, extra WITH stages, clause list
fn skip_limit(q: &Query) -> Option<Vec<Num>> {
    let f = |o: Option<usize>| Num::Int(o.map(|x| x as i128).unwrap_or(-1));
    let mut out = vec![f(q.skip), f(q.limit)];
    if let Some(w) = &q.with_clause {
        out.push(f(w.skip));
        out.push(f(w.limit));
    }
    for (w, _, _, _) in &q.extra_with_stages {
        out.push(f(w.skip));
        out.push(f(w.limit));
    }
    for c in &q.clauses {
        if let Clause::With(w) = c {
            out.push(f(w.skip));
            out.push(f(w.limit));
        }
    }
    if let Some(sq) = &q.call_subquery {
        out.extend(skip_limit(sq)?);
    }
    for (u, _) in &q.union_queries {
        out.extend(skip_limit(u)?);
    }
    Some(out)
}

fn positions() -> Vec<Position> {
    use Ty::*;
    let mut v = vec![
        Position { name: "return-literal", ty: I64, template: "RETURN #", extract: ret_leaves },
        Position { name: "return-negated", ty: I64, template: "RETURN - #", extract: ret_leaves },
        Position { name: "return-arith", ty: I64, template: "MATCH (n) RETURN n.p + #", extract: ret_leaves },
        Position { name: "return-list", ty: I64, template: "RETURN [#]", extract: ret_leaves },
        Position { name: "return-list-mixed", ty: I64, template: "RETURN [#, 'a', n.p]", extract: ret_leaves },
        Position { name: "return-map", ty: I64, template: "RETURN {k: #}", extract: ret_leaves },
        Position { name: "return-function-arg", ty: I64, template: "RETURN abs(#)", extract: ret_leaves },
        Position { name: "return-index", ty: I64, template: "MATCH (n) RETURN n.l[#]", extract: ret_leaves },
        Position { name: "return-slice-start", ty: I64, template: "MATCH (n) RETURN n.l[#..]", extract: ret_leaves },
        Position { name: "return-slice-end", ty: I64, template: "MATCH (n) RETURN n.l[..#]", extract: ret_leaves },
        Position { name: "return-case", ty: I64, template: "MATCH (n) RETURN CASE WHEN n.p = # THEN 'a' ELSE 'b' END", extract: ret_leaves },
        Position { name: "where-comparison", ty: I64, template: "MATCH (n) WHERE n.p = # RETURN n", extract: where_leaves },
        Position { name: "where-in-list", ty: I64, template: "MATCH (n) WHERE n.p IN [#] RETURN n", extract: where_leaves },
        Position { name: "where-negated", ty: I64, template: "MATCH (n) WHERE n.p > -# RETURN n", extract: where_leaves },
        Position { name: "create-property", ty: I64, template: "CREATE (n:L {p: #})", extract: create_leaves },
        Position { name: "create-property-list", ty: I64, template: "CREATE (n:L {p: [#]})", extract: create_leaves },
        Position { name: "create-property-expr", ty: I64, template: "MATCH (m) CREATE (n:L {p: m.q + #})", extract: create_leaves },
        Position { name: "create-edge-property", ty: I64, template: "CREATE (a)-[:T {w: #}]->(b)", extract: create_leaves },
        Position { name: "match-property", ty: I64, template: "MATCH (n:L {p: #}) RETURN n", extract: match_leaves },
        Position { name: "merge-property", ty: I64, template: "MERGE (n:L {p: #})", extract: merge_leaves },
        Position { name: "set-value", ty: I64, template: "MATCH (n) SET n.p = #", extract: set_leaves },
        Position { name: "unwind-list", ty: I64, template: "UNWIND [#] AS x RETURN x", extract: unwind_leaves },
        Position { name: "unwind-range-arg", ty: I64, template: "UNWIND range(#, #) AS x RETURN x", extract: unwind_leaves },
        Position { name: "with-item", ty: I64, template: "WITH # AS x RETURN x", extract: with_leaves },
        Position { name: "varlen-exact", ty: Usize, template: "MATCH (a)-[*#]->(b) RETURN a", extract: length_of },
        Position { name: "varlen-lower", ty: Usize, template: "MATCH (a)-[*#..]->(b) RETURN a", extract: length_of },
        Position { name: "varlen-upper", ty: Usize, template: "MATCH (a)-[*..#]->(b) RETURN a", extract: length_of },
        Position { name: "varlen-both", ty: Usize, template: "MATCH (a)-[:T*#..#]->(b) RETURN a", extract: length_of },
        Position { name: "varlen-typed-exact", ty: Usize, template: "MATCH (a)-[r:T*#]-(b) RETURN a", extract: length_of },
    ];
    // SKIP / LIMIT in every statement form the grammar has (8 parser sites)
    let forms: [(&'static str, &'static str, &'static str); 10] = [
        ("return-stmt", "RETURN 'a' AS x SKIP #", "RETURN 'a' AS x LIMIT #"),
        ("match-stmt", "MATCH (n) RETURN n SKIP #", "MATCH (n) RETURN n LIMIT #"),
        ("match-order", "MATCH (n) RETURN n ORDER BY n.p SKIP #", "MATCH (n) RETURN n ORDER BY n.p LIMIT #"),
        ("with-return-stmt", "WITH 'a' AS x RETURN x SKIP #", "WITH 'a' AS x RETURN x LIMIT #"),
        ("with-clause", "MATCH (n) WITH n SKIP # RETURN n", "MATCH (n) WITH n LIMIT # RETURN n"),
        ("unwind-stmt", "UNWIND ['a'] AS x RETURN x SKIP #", "UNWIND ['a'] AS x RETURN x LIMIT #"),
        ("create-stmt", "CREATE (n) RETURN n SKIP #", "CREATE (n) RETURN n LIMIT #"),
        ("call-stmt", "CALL db.labels() YIELD label RETURN label SKIP #", "CALL db.labels() YIELD label RETURN label LIMIT #"),
        ("pipeline-stmt", "CREATE (a) WITH a CREATE (b) RETURN b SKIP #", "CREATE (a) WITH a CREATE (b) RETURN b LIMIT #"),
        ("union-stmt", "RETURN 'a' AS x UNION RETURN 'b' AS x SKIP #", "RETURN 'a' AS x UNION RETURN 'b' AS x LIMIT #"),
    ];
    for (n, s, l) in forms {
        v.push(Position { name: Box::leak(format!("skip:{n}").into_boxed_str()), ty: Usize, template: s, extract: skip_limit });
        v.push(Position { name: Box::leak(format!("limit:{n}").into_boxed_str()), ty: Usize, template: l, extract: skip_limit });
    }
    // float literal positions
    for (n, t, e) in [
        ("float:return-literal", "RETURN #", ret_leaves as fn(&Query) -> Option<Vec<Num>>),
        ("float:return-negated", "RETURN - #", ret_leaves),
        ("float:return-list", "RETURN [#]", ret_leaves),
        ("float:return-list-mixed", "RETURN [#, 'a', n.p]", ret_leaves),
        ("float:return-map", "RETURN {k: #}", ret_leaves),
        ("float:where-comparison", "MATCH (n) WHERE n.p < # RETURN n", where_leaves),
        ("float:create-property", "CREATE (n:L {p: #})", create_leaves),
        ("float:create-property-list", "CREATE (n:L {p: [#, #]})", create_leaves),
        ("float:set-value", "MATCH (n) SET n.p = #", set_leaves),
        ("float:unwind-list", "UNWIND [#] AS x RETURN x", unwind_leaves),
    ] {
        v.push(Position { name: n, ty: F64, template: t, extract: e });
    }
    v
}

/// (text, exact value) — integers
fn int_numerals() -> Vec<(&'static str, i128)> {
    vec![
        ("0", 0),
        ("1", 1),
        ("7", 7),
        ("007", 7),
        ("2147483648", 1 << 31),
        ("4294967296", 1 << 32),
        ("9223372036854775807", i64::MAX as i128),
        ("9223372036854775808", i64::MAX as i128 + 1),
        ("18446744073709551615", u64::MAX as i128),
        ("18446744073709551616", u64::MAX as i128 + 1),
        ("100000000000000000000000", 100_000_000_000_000_000_000_000),
        ("340282366920938463463374607431768211456", -1), // 2^128: beyond i128, value irrelevant (fits nothing); flagged below
        ("-1", -1),
        ("-9223372036854775808", i64::MIN as i128),
        ("-9223372036854775809", i64::MIN as i128 - 1),
        ("0x10", 16),
        ("0X1f", 31),
        ("0x7FFFFFFFFFFFFFFF", i64::MAX as i128),
        ("0x8000000000000000", i64::MAX as i128 + 1),
        ("0xFFFFFFFFFFFFFFFF", u64::MAX as i128),
        ("0x10000000000000000", u64::MAX as i128 + 1),
        ("-0x8000000000000000", i64::MIN as i128),
        ("0o17", 15),
        ("0o777777777777777777777", i64::MAX as i128),
        ("0o1000000000000000000000", i64::MAX as i128 + 1),
        ("0o2000000000000000000000", u64::MAX as i128 + 1),
    ]
}
const HUGE: &str = "340282366920938463463374607431768211456";

fn float_numerals() -> Vec<&'static str> {
    vec![
        "0.0", "1.5", "7.5", "0.1", ".5", "1e5", "1E5", "1e-7", "1.0e+2", "9007199254740993.0", "123456789012345678901234567890.0", "1e308", "1.7976931348623157e308", "1.7976931348623159e308", "1e309", "1e999", "-1e999", "1.0e400", "1e-999", "4.9e-324", "2.5e-324", "0.000000000000000000000000000001",
        "179769313486231580000000000000000000000000000000000000000000000000000000000000000000000000000000000000000000000000000000000000000000000000000000000000000000000000000000000000000000000000000000000000000000000000000000000000000000000000000000000000000000000000000000000000000000000000000000000000000000000000000.0",
    ]
}

fn fits(ty: Ty, v: i128) -> bool {
    match ty {
        Ty::I64 => v >= i64::MIN as i128 && v <= i64::MAX as i128,
        Ty::Usize => v >= 0 && v <= usize::MAX as i128,
        Ty::F64 => false,
    }
}

#[derive(Debug)]
enum Verdict {
    /// parsed, exact value present
    Exact,
    /// Err for a numeral that does not fit
    RefusedUnfit,
    /// Err for a numeral that fits (admissible, counted)
    RefusedFit,
    Violation(String, String),
    Machinery(String),
}

fn fill(template: &str, numeral: &str) -> String {
    template.replace('#', numeral)
}

fn judge_numeral(p: &Position, numeral: &str, exact: Option<i128>) -> Verdict {
    let query = fill(p.template, numeral);
    let slots = p.template.matches('#').count();
    // what the AST holds for the baseline numeral 7 (7.5): tells where the value lives
    let negated = p.template.contains("- #") || p.template.contains("-#");
    let base_num = if p.ty == Ty::F64 { "7.5" } else { "7" };
    let base_val = match (p.ty == Ty::F64, negated) {
        (true, false) => Num::Float(7.5f64.to_bits()),
        (true, true) => Num::Float((-7.5f64).to_bits()),
        (false, false) => Num::Int(7),
        (false, true) => Num::Int(-7),
    };
    let base = match guarded(|| parse_query(&fill(p.template, base_num))) {
        Ok(Ok(q)) => match (p.extract)(&q) {
            Some(v) => v,
            None => return Verdict::Machinery(format!("position {}: the extractor cannot read the baseline AST", p.name)),
        },
        other => return Verdict::Machinery(format!("position {}: baseline query {:?} does not parse: {:?}", p.name, fill(p.template, base_num), other.map(|r| r.map(|_| ()).map_err(|e| e.to_string())))),
    };
    if base.iter().filter(|n| **n == base_val).count() < slots {
        return Verdict::Machinery(format!("position {}: baseline AST carries {:?}, expected at least {} x {}", p.name, base.iter().map(|n| n.show()).collect::<Vec<_>>(), slots, base_val.show()));
    }
    // expected: negation positions ("- #") fold the sign
    let (want, unfit): (Option<Num>, bool) = match p.ty {
        Ty::F64 => {
            let f: f64 = numeral.parse().expect("float numeral");
            let f = if negated { -f } else { f };
            if f.is_finite() {
                (Some(Num::Float(f.to_bits())), false)
            } else {
                (None, true)
            }
        }
        ty => {
            let v = exact.unwrap();
            let v = if negated { -v } else { v };
            if numeral != HUGE && fits(ty, v) {
                (Some(Num::Int(v)), false)
            } else {
                (None, true)
            }
        }
    };
    match guarded(|| parse_query(&query)) {
        Err(panic) => Verdict::Violation("panic".into(), format!("parse_query({query:?}) panicked: {panic}")),
        Ok(Err(_)) => {
            if unfit {
                Verdict::RefusedUnfit
            } else {
                Verdict::RefusedFit
            }
        }
        Ok(Ok(q)) => {
            let got = match (p.extract)(&q) {
                Some(g) => g,
                None => return Verdict::Violation("value-missing".into(), format!("parse_query({query:?}) succeeded but the AST no longer has a number at the position (baseline shape: {:?})", base.iter().map(|n| n.show()).collect::<Vec<_>>())),
            };
            // expected AST numbers: the baseline's, with the baseline value replaced by the exact value
            match want {
                Some(w) => {
                    let exp: Vec<Num> = base.iter().map(|n| if *n == base_val { w.clone() } else { n.clone() }).collect();
                    if got == exp {
                        Verdict::Exact
                    } else {
                        Verdict::Violation("value-changed".into(), format!("parse_query({query:?}) succeeded with {} at the position; the numeral denotes {}", show(&got), show(&exp)))
                    }
                }
                None => Verdict::Violation("unfit-accepted".into(), format!("parse_query({query:?}) succeeded with {} at the position; the numeral does not fit {:?} and must be an error", show(&got), p.ty)),
            }
        }
    }
}

fn show(v: &[Num]) -> String {
    format!("[{}]", v.iter().map(|n| n.show()).collect::<Vec<_>>().join(", "))
}

// ---------------------------------------------------------------------------------------------
// (2) edits and token strings

fn corpus() -> Vec<&'static str> {
    vec![
        "MATCH (n) RETURN n",
        "MATCH (n:Person {name: 'Al', age: 30}) RETURN n.name AS name",
        "MATCH (a)-[r:KNOWS]->(b) WHERE a.age >= 18 AND NOT b.x RETURN a, b",
        "MATCH (a)-[:T*1..3]->(b) RETURN DISTINCT b ORDER BY b.p DESC SKIP 1 LIMIT 2",
        "MATCH (a)<-[r]-(b), (c) RETURN count(*), collect(a.p)",
        "OPTIONAL MATCH (n)-[r]-(m) RETURN n, type(r), labels(m)",
        "MATCH p = shortestPath((a)-[*]-(b)) RETURN length(p)",
        "CREATE (a:A {p: 1, q: 'x', r: [1, 2.5], s: true})-[:T {w: -1}]->(b:B)",
        "MERGE (n:L {k: 1}) ON CREATE SET n.c = 1 ON MATCH SET n.m = 2 RETURN n",
        "MATCH (n) SET n.p = n.p + 1, n:Extra REMOVE n.q",
        "MATCH (n) DETACH DELETE n",
        "MATCH (n)-[r]->() DELETE r",
        "UNWIND [1, 2, 3] AS x WITH x WHERE x > 1 RETURN x * 2 AS y",
        "UNWIND range(1, 3) AS i CREATE (n:N {i: i})",
        "WITH 1 AS a, 'b' AS b RETURN a + 2, b + 'c'",
        "RETURN 1 + 2 * 3 - 4 / 5 % 6 ^ 2",
        "RETURN 0x1F, 0o17, 1.5e3, .5, -0.0, null, true, FALSE",
        "RETURN 'it''s', \"dq\", 'a\\nb', 'u\\u0041'",
        "RETURN [1, [2, 3]][1][0], [1,2,3][0..2], {a: 1, b: {c: 2}}.b.c",
        "RETURN CASE WHEN 1 < 2 THEN 'a' WHEN 2 <> 3 THEN 'b' ELSE 'c' END",
        "RETURN CASE 1 WHEN 1 THEN 'x' END",
        "RETURN [x IN [1,2,3] WHERE x > 1 | x * 2]",
        "RETURN all(x IN [1] WHERE x > 0), any(x IN [1] WHERE x > 0), none(x IN [] WHERE x), single(x IN [1] WHERE x = 1)",
        "RETURN reduce(acc = 0, x IN [1,2] | acc + x)",
        "MATCH (n) WHERE n.p IS NULL OR n.q IS NOT NULL RETURN n",
        "MATCH (n) WHERE n.name STARTS WITH 'a' OR n.name ENDS WITH 'b' OR n.name CONTAINS 'c' RETURN n",
        "MATCH (n) WHERE n.name =~ 'a.*' AND n.p IN [1, 2] RETURN n",
        "MATCH (n) WHERE (n)-[:T]->() RETURN n",
        "MATCH (n) WHERE EXISTS { MATCH (n)-[:T]->(m) WHERE m.p = 1 } RETURN n",
        "MATCH (n) WHERE n:Person XOR n.p <= 2 RETURN n",
        "MATCH (n) RETURN n.p AS p UNION ALL MATCH (m) RETURN m.p AS p",
        "MATCH (n) RETURN n.p UNION MATCH (n) RETURN n.p",
        "MATCH (n) WITH n ORDER BY n.p LIMIT 3 MATCH (n)-[]->(m) RETURN m",
        "MATCH (n) WITH n, count(*) AS c WHERE c > 1 RETURN n, c",
        "CALL db.labels() YIELD label RETURN label",
        "CALL db.index.vector.queryNodes('V', 'e', [1.0, 2.0], 3) YIELD node, score RETURN node, score",
        "CALL { MATCH (n) RETURN n } RETURN n",
        "CREATE INDEX ON :P(v)",
        "DROP INDEX ON :P(v)",
        "CREATE CONSTRAINT ON (n:U) ASSERT n.k IS UNIQUE",
        "CREATE VECTOR INDEX vi FOR (n:V) ON (n.e) OPTIONS {dimensions: 2, similarity: 'l2'}",
        "CREATE HIERARCHY INDEX h ON ()-[:IS_A]->() MEASURE units AGGREGATE sum, max",
        "SHOW INDEXES",
        "SHOW CONSTRAINTS",
        "EXPLAIN MATCH (n) RETURN n",
        "PROFILE MATCH (n) RETURN n",
        "MATCH (n) RETURN n.p ORDER BY n.p ASC, n.q DESC",
        "MATCH (n {p: $param}) RETURN $other",
        "FOREACH (x IN [1, 2] | CREATE (:N {v: x}))",
        "MATCH (n) FOREACH (x IN [1] | SET n.p = x)",
        "MATCH (n) RETURN toUpper(n.name), size(n.l), coalesce(n.a, n.b, 0), toInteger('1')",
        "MATCH (n) RETURN n { .name, .age }",
        "MATCH (a), (b) WHERE id(a) = 0 AND id(b) = 1 CREATE (a)-[:T]->(b)",
        "MATCH (n) RETURN [(n)-[:T]->(m) WHERE m.p > 0 | m.p]",
        "MATCH (n) RETURN n // trailing comment",
        "MATCH (n) /* block */ RETURN n",
        "MATCH (`odd name`) RETURN `odd name`",
        "MATCH (n) RETURN count(DISTINCT n.p), sum(n.p), avg(n.p), min(n.p), max(n.p)",
        "CREATE (a) WITH a CREATE (b) RETURN b",
        "MATCH (n) RETURN -n.p, NOT n.q, n.p IS NULL",
    ]
}

const EDIT_BYTES: &[u8] = b"()[]{}<>-=+*/%^.,:;|'\"`\\$ \n\t0179aAeExXnN_#&!?~@";

const TOKENS: [&str; 30] = ["MATCH", "RETURN", "CREATE", "WHERE", "WITH", "(", ")", "[", "]", "{", "}", "n", ":L", ".p", "-", "->", "*", "..", "1", "99999999999999999999", "1e999", "'a'", "'", ",", "=", "AS", "SKIP", "LIMIT", "UNWIND", "$p"];

fn parse_outcome(s: &str) -> Result<bool, String> {
    guarded(|| parse_query(s).is_ok())
}

// ---------------------------------------------------------------------------------------------
// (3) towers in forked children

const TOWER_DEPTHS: [usize; 5] = [10, 100, 1_000, 10_000, 100_000];

fn tower_kinds() -> Vec<(&'static str, fn(usize) -> String)> {
    vec![
        ("parentheses", |d| format!("RETURN {}1{}", "(".repeat(d), ")".repeat(d))),
        ("lists", |d| format!("RETURN {}1{}", "[".repeat(d), "]".repeat(d))),
        ("maps", |d| format!("RETURN {}1{}", "{a:".repeat(d), "}".repeat(d))),
        ("function-calls", |d| format!("RETURN {}1{}", "abs(".repeat(d), ")".repeat(d))),
        ("unary-minus", |d| format!("RETURN {}1", "- ".repeat(d))),
        ("not", |d| format!("RETURN {}true", "NOT ".repeat(d))),
        ("case", |d| format!("RETURN {}1{}", "CASE WHEN true THEN ".repeat(d), " END".repeat(d))),
        ("where-parentheses", |d| format!("MATCH (n) WHERE {}n.p = 1{} RETURN n", "(".repeat(d), ")".repeat(d))),
        ("property-map-lists", |d| format!("CREATE (n {{p: {}1{}}})", "[".repeat(d), "]".repeat(d))),
        ("binary-chain", |d| format!("RETURN 1{}", " + 1".repeat(d))),
        ("and-chain", |d| format!("MATCH (n) WHERE n.p = 1{} RETURN n", " AND n.p = 1".repeat(d))),
        ("path-chain", |d| format!("MATCH (a){} RETURN a", "-[]->()".repeat(d))),
        ("unclosed-parentheses", |d| format!("RETURN {}1", "(".repeat(d))),
        ("unclosed-lists", |d| format!("RETURN {}1", "[".repeat(d))),
    ]
}

const WORKER_STACK: usize = 2 << 20;

/// worker line: `<kind index> <depth>`; answer `ok` | `err` | `panic <msg>`; the parse runs in a forked child
fn tower_worker(line: &str) -> String {
    let p: Vec<&str> = line.split(' ').collect();
    let (k, d): (usize, usize) = (p[0].parse().unwrap(), p[1].parse().unwrap());
    let q = (tower_kinds()[k].1)(d);
    let mut fds = [0i32; 2];
    unsafe {
        if libc::pipe(fds.as_mut_ptr()) != 0 {
            return "machinery pipe".into();
        }
    }
    let pid = unsafe { libc::fork() };
    if pid < 0 {
        return "machinery fork".into();
    }
    if pid == 0 {
        unsafe { libc::close(fds[0]) };
        let r = std::thread::Builder::new()
            .stack_size(WORKER_STACK)
            .spawn(move || match guarded(|| parse_query(&q).map(|ast| drop(ast))) {
                Ok(Ok(())) => "ok".to_string(),
                Ok(Err(_)) => "err".to_string(),
                Err(p) => format!("panic {}", p.replace('\n', " ")),
            })
            .unwrap()
            .join()
            .unwrap_or_else(|_| "panic thread".into());
        unsafe {
            libc::write(fds[1], r.as_ptr() as *const libc::c_void, r.len());
            libc::_exit(0);
        }
    }
    unsafe { libc::close(fds[1]) };
    // wait up to 60 s
    let deadline = std::time::Instant::now() + std::time::Duration::from_secs(60);
    let mut out = vec![];
    let mut timed_out = false;
    loop {
        let left = deadline.saturating_duration_since(std::time::Instant::now()).as_millis() as i32;
        let mut pf = libc::pollfd { fd: fds[0], events: libc::POLLIN, revents: 0 };
        let r = unsafe { libc::poll(&mut pf, 1, left.max(0)) };
        if r == 0 {
            timed_out = true;
            unsafe { libc::kill(pid, libc::SIGKILL) };
            break;
        }
        if r < 0 {
            continue;
        }
        let mut buf = [0u8; 4096];
        let n = unsafe { libc::read(fds[0], buf.as_mut_ptr() as *mut libc::c_void, buf.len()) };
        if n <= 0 {
            break;
        }
        out.extend_from_slice(&buf[..n as usize]);
    }
    let mut status = 0;
    unsafe {
        libc::waitpid(pid, &mut status, 0);
        libc::close(fds[0]);
    }
    if timed_out {
        return "timeout".into();
    }
    if libc::WIFEXITED(status) && libc::WEXITSTATUS(status) == 0 && !out.is_empty() {
        return String::from_utf8_lossy(&out).to_string();
    }
    if libc::WIFSIGNALED(status) {
        return format!("died signal {}", libc::WTERMSIG(status));
    }
    format!("died status {status}")
}

// ---------------------------------------------------------------------------------------------

fn main() {
    if let Some(_n) = subproc::worker_arg() {
        std::panic::set_hook(Box::new(|_| {}));
        // the child's "thread overflowed its stack" message is noise here
        unsafe {
            let fd = libc::open(b"/dev/null\0".as_ptr() as *const libc::c_char, libc::O_WRONLY);
            if fd >= 0 {
                libc::dup2(fd, 2);
            }
        }
        subproc::worker_main(tower_worker);
    }
    run_check("C25", Level::Exploration, |ctx| {
        if let Some(p) = ctx.replay.clone() {
            replay(ctx, &p);
            return;
        }
        let thorough = !ctx.quick();
        let mut evals = 0u64;
        let mut nontrivial = 0u64;

        // ---- (1) numerals
        let pos = positions();
        let ints = int_numerals();
        let floats = float_numerals();
        let mut cases: Vec<(usize, String, Option<i128>)> = vec![];
        for (pi, p) in pos.iter().enumerate() {
            if p.ty == Ty::F64 {
                for f in &floats {
                    cases.push((pi, f.to_string(), None));
                }
            } else {
                for (t, v) in &ints {
                    // "- #" templates: a numeral with its own sign would be a double negation, which the grammar reads differently
                    if (p.template.contains("- #") || p.template.contains("-#")) && t.starts_with('-') {
                        continue;
                    }
                    cases.push((pi, t.to_string(), Some(*v)));
                }
            }
        }
        let card_num = cases.len() as u64;
        let verdicts: Vec<Verdict> = cases.par_iter().map(|(pi, t, v)| judge_numeral(&pos[*pi], t, *v)).collect();
        let mut vcount: BTreeMap<&str, u64> = BTreeMap::new();
        let mut refused_fit_examples: Vec<String> = vec![];
        for ((pi, t, _), v) in cases.iter().zip(verdicts.iter()) {
            evals += 1;
            let p = &pos[*pi];
            match v {
                Verdict::Exact => {
                    *vcount.entry("exact").or_default() += 1;
                    nontrivial += 1;
                }
                Verdict::RefusedUnfit => {
                    *vcount.entry("refused-unfit").or_default() += 1;
                    nontrivial += 1;
                }
                Verdict::RefusedFit => {
                    *vcount.entry("refused-although-it-fits").or_default() += 1;
                    if refused_fit_examples.len() < 12 {
                        refused_fit_examples.push(fill(p.template, t));
                    }
                }
                Verdict::Machinery(m) => ctx.machinery(m),
                Verdict::Violation(sym, msg) => {
                    *vcount.entry("violation").or_default() += 1;
                    nontrivial += 1;
                    let class = numeral_class(p);
                    ctx.violation(&format!("numeral:{class}:{sym}"), msg.clone(), json!({"part": "numeral", "position": p.name, "numeral": t, "query": fill(p.template, t)}));
                }
            }
        }

        // ---- (2) edits
        let corp = corpus();
        let mut edit_cases: Vec<String> = vec![];
        for q in &corp {
            let b = q.as_bytes();
            edit_cases.push(q.to_string());
            for i in 0..b.len() {
                let mut d = b.to_vec();
                d.remove(i);
                push_utf8(&mut edit_cases, d);
                for &c in EDIT_BYTES {
                    if c != b[i] {
                        let mut r = b.to_vec();
                        r[i] = c;
                        push_utf8(&mut edit_cases, r);
                    }
                }
            }
            for i in 0..=b.len() {
                for &c in EDIT_BYTES {
                    let mut r = b.to_vec();
                    r.insert(i, c);
                    push_utf8(&mut edit_cases, r);
                }
            }
            if thorough {
                for i in 0..b.len().saturating_sub(1) {
                    for &c1 in EDIT_BYTES {
                        for &c2 in EDIT_BYTES {
                            if c1 != b[i] && c2 != b[i + 1] {
                                let mut r = b.to_vec();
                                r[i] = c1;
                                r[i + 1] = c2;
                                push_utf8(&mut edit_cases, r);
                            }
                        }
                    }
                }
            }
        }
        let card_edit = edit_cases.len() as u64;
        let t_edit = std::time::Instant::now();
        let eres: Vec<Result<bool, String>> = edit_cases.par_iter().map(|s| parse_outcome(s)).collect();
        let (mut e_ok, mut e_err, mut e_panic) = (0u64, 0u64, 0u64);
        for (s, r) in edit_cases.iter().zip(eres.iter()) {
            evals += 1;
            match r {
                Ok(true) => {
                    e_ok += 1;
                    nontrivial += 1;
                }
                Ok(false) => e_err += 1,
                Err(p) => {
                    e_panic += 1;
                    nontrivial += 1;
                    ctx.violation(&format!("edit:panic:{}", panic_class(p)), format!("parse_query({s:?}) panicked: {p}"), json!({"part": "edit", "query": s}));
                }
            }
        }
        let edit_wall = t_edit.elapsed().as_secs_f64();

        // ---- tokens
        let max_tok = if thorough { 4 } else { 3 };
        let mut tok_cases: Vec<String> = vec![];
        for l in 0..=max_tok {
            for seq in svmc::engine::odometer::sequences(TOKENS.len(), l) {
                tok_cases.push(seq.iter().map(|&i| TOKENS[i]).collect::<Vec<_>>().join(" "));
            }
        }
        let card_tok = tok_cases.len() as u64;
        let tres: Vec<Result<bool, String>> = tok_cases.par_iter().map(|s| parse_outcome(s)).collect();
        let (mut t_ok, mut t_err, mut t_panic) = (0u64, 0u64, 0u64);
        for (s, r) in tok_cases.iter().zip(tres.iter()) {
            evals += 1;
            match r {
                Ok(true) => {
                    t_ok += 1;
                    nontrivial += 1;
                }
                Ok(false) => t_err += 1,
                Err(p) => {
                    t_panic += 1;
                    nontrivial += 1;
                    ctx.violation(&format!("tokens:panic:{}", panic_class(p)), format!("parse_query({s:?}) panicked: {p}"), json!({"part": "tokens", "query": s}));
                }
            }
        }

        // ---- (3) towers
        let kinds = tower_kinds();
        let mut lines = vec![];
        for (k, _) in kinds.iter().enumerate() {
            for d in TOWER_DEPTHS {
                lines.push(format!("{k} {d}"));
            }
        }
        let card_tower = lines.len() as u64;
        let outs = subproc::run_cases("c25", &lines, &subproc::Opts { concurrency: 8, timeout: std::time::Duration::from_secs(200), env: vec![("RUST_BACKTRACE".into(), "0".into())], rlimit_as: Some(8 << 30) });
        let mut tower_table: BTreeMap<String, Vec<String>> = BTreeMap::new();
        let mut unjudged = 0u64;
        for (l, o) in lines.iter().zip(outs.iter()) {
            evals += 1;
            nontrivial += 1;
            let p: Vec<&str> = l.split(' ').collect();
            let (k, d): (usize, usize) = (p[0].parse().unwrap(), p[1].parse().unwrap());
            let ans = match o {
                subproc::Outcome::Done(s) => s.clone(),
                other => ctx.machinery(&format!("tower supervisor failed on {l}: {other:?}")),
            };
            tower_table.entry(kinds[k].0.to_string()).or_default().push(format!("{d}:{}", ans.split(' ').take(3).collect::<Vec<_>>().join("-")));
            if ans.starts_with("machinery") {
                ctx.machinery(&format!("tower {l}: {ans}"));
            } else if ans == "timeout" {
                unjudged += 1;
            } else if ans.starts_with("died") {
                ctx.violation(&format!("tower:{}:stack-overflow", tower_class(kinds[k].0, d)), format!("parse_query of a {} tower of depth {d} killed the process ({ans}) on a 2 MiB stack", kinds[k].0), json!({"part": "tower", "kind": kinds[k].0, "kind_index": k, "depth": d}));
            } else if ans.starts_with("panic") {
                ctx.violation(&format!("tower:{}:panic", tower_class(kinds[k].0, d)), format!("parse_query of a {} tower of depth {d} panicked: {ans}", kinds[k].0), json!({"part": "tower", "kind": kinds[k].0, "kind_index": k, "depth": d}));
            }
        }

        ctx.cov("evaluations", evals);
        ctx.cov("generator_cardinality", card_num + card_edit + card_tok + card_tower);
        ctx.cov("generator_cardinality_by_generator", json!({"numerals": card_num, "edits": card_edit, "tokens": card_tok, "towers": card_tower}));
        ctx.cov("exhaustive", true);
        ctx.cov("distinct_nontrivial", nontrivial);
        ctx.cov("rule", "numerals: (position, numeral) pairs whose outcome was judged on the value (exact, refused because it does not fit, or a violation); edits/tokens: inputs that parsed successfully or panicked (a plain syntax error is the trivial outcome); every tower");
        ctx.cov("numerals", json!({"positions": pos.len(), "integer_numerals": ints.len(), "float_numerals": floats.len(), "verdicts": vcount, "refused_although_it_fits_examples": refused_fit_examples}));
        ctx.cov("edits", json!({"corpus_queries": corp.len(), "edit_bytes": EDIT_BYTES.len(), "ok": e_ok, "err": e_err, "panic": e_panic, "wall_s": edit_wall, "two_adjacent_bytes": thorough}));
        ctx.cov("tokens", json!({"alphabet": TOKENS, "max_len": max_tok, "ok": t_ok, "err": t_err, "panic": t_panic}));
        ctx.cov("towers", json!({"depths": TOWER_DEPTHS, "kinds": tower_table, "unjudged_timeouts": unjudged, "stack": "2 MiB thread in a forked child"}));
        ctx.cov("unjudged", unjudged);
        ctx.sample(json!({"part": "numeral", "query": "RETURN 9223372036854775807", "verdict": format!("{:?}", judge_numeral(&pos[0], "9223372036854775807", Some(i64::MAX as i128)))}));
        ctx.sample(json!({"part": "numeral", "query": fill(pos.iter().find(|p| p.name == "varlen-both").unwrap().template, "2"), "verdict": format!("{:?}", judge_numeral(pos.iter().find(|p| p.name == "varlen-both").unwrap(), "2", Some(2)))}));
        ctx.sample(json!({"part": "edit", "query": edit_cases[1], "parsed": eres[1].clone().unwrap_or(false)}));
        ctx.assume("a parse error is always admissible, also for a numeral that fits (counted as refused-although-it-fits)");
        ctx.assume("float literals: the AST must carry the correctly rounded f64 if that is finite (so 1e-999 may be 0.0); a numeral that rounds to infinity must be an error");
        ctx.assume("SKIP/LIMIT and variable-length bounds are usize positions: a negative or > usize::MAX numeral must be an error; a hex/octal numeral the grammar accepts denotes its value");
        ctx.assume("towers: a parse that does not finish within 60 s is unjudged (the property states no time bound)");
    });
}

fn push_utf8(v: &mut Vec<String>, b: Vec<u8>) {
    // parse_query takes &str: edits that break UTF-8 cannot be passed in and are not part of the space
    if let Ok(s) = String::from_utf8(b) {
        v.push(s);
    }
}

/// stable class of a panic message: the source location if it names the parser, else the first words
fn panic_class(p: &str) -> String {
    let mut s: String = p.chars().map(|c| if c.is_ascii_alphanumeric() { c } else { '-' }).collect();
    s.truncate(40);
    s
}

/// Region of a tower for the signature: nesting towers of depth >= 1000 and operator chains of >= 100000 terms are
/// the two regions of the known recursion-depth finding; anything shallower gets a different signature.
fn tower_class(kind: &str, depth: usize) -> String {
    let (class, threshold) = match kind {
        "binary-chain" | "and-chain" | "path-chain" => ("long-chain", 100_000),
        _ => ("deep-nesting", 1_000),
    };
    if depth >= threshold {
        format!("{class}>={threshold}")
    } else {
        format!("{class}<{threshold}")
    }
}

fn numeral_class(p: &Position) -> &'static str {
    if p.name.starts_with("skip:") || p.name.starts_with("limit:") {
        "skip-limit"
    } else if p.name.starts_with("varlen") {
        "varlen-bound"
    } else if p.ty == Ty::F64 {
        "float-literal"
    } else {
        "integer-literal"
    }
}

fn replay(ctx: &Ctx, p: &std::path::Path) {
    let doc: Value = serde_json::from_str(&std::fs::read_to_string(p).unwrap_or_else(|e| ctx.machinery(&format!("read replay: {e}")))).unwrap_or_else(|e| ctx.machinery(&format!("replay json: {e}")));
    let w = &doc["witness"];
    match w["part"].as_str().unwrap_or("") {
        "numeral" => {
            let pos = positions();
            let p = pos.iter().find(|p| Some(p.name) == w["position"].as_str()).unwrap_or_else(|| ctx.machinery("replay: unknown position"));
            let t = w["numeral"].as_str().unwrap();
            let exact = int_numerals().iter().find(|(x, _)| *x == t).map(|(_, v)| *v);
            println!("query: {}", fill(p.template, t));
            println!("expected: the exact value of the numeral in the AST, or a parse error");
            match judge_numeral(p, t, exact) {
                Verdict::Violation(sym, msg) => {
                    println!("observed: {msg}");
                    ctx.violation(&format!("numeral:{}:{sym}", numeral_class(p)), msg, w.clone());
                }
                other => println!("observed: {other:?}"),
            }
        }
        "edit" | "tokens" => {
            let q = w["query"].as_str().unwrap();
            println!("query: {q:?}");
            println!("expected: Ok or Err");
            match parse_outcome(q) {
                Ok(ok) => println!("observed: {}", if ok { "Ok" } else { "Err" }),
                Err(p) => {
                    println!("observed: panic: {p}");
                    ctx.violation(&format!("edit:panic:{}", panic_class(&p)), format!("parse_query({q:?}) panicked: {p}"), w.clone());
                }
            }
        }
        "tower" => {
            let k = w["kind_index"].as_u64().unwrap();
            let d = w["depth"].as_u64().unwrap();
            println!("tower: {} depth {d}", w["kind"]);
            println!("expected: Ok or Err");
            let outs = subproc::run_cases("c25", &[format!("{k} {d}")], &subproc::Opts { concurrency: 1, timeout: std::time::Duration::from_secs(200), env: vec![("RUST_BACKTRACE".into(), "0".into())], rlimit_as: Some(8 << 30) });
            println!("observed: {:?}", outs[0]);
            if let subproc::Outcome::Done(s) = &outs[0] {
                let kind = w["kind"].as_str().unwrap_or("");
                if s.starts_with("died") {
                    ctx.violation(&format!("tower:{}:stack-overflow", tower_class(kind, d as usize)), format!("tower {kind} depth {d}: {s}"), w.clone());
                } else if s.starts_with("panic") {
                    ctx.violation(&format!("tower:{}:panic", tower_class(kind, d as usize)), format!("tower {kind} depth {d}: {s}"), w.clone());
                }
            }
        }
        other => ctx.machinery(&format!("replay: unknown part {other:?}")),
    }
}
