//! C36 — RDF serialisations round-trip every triple set (DESIGN §C36).
//!
//! Bounded-exhaustive triple lists (1 and 2 triples) over a boundary alphabet of subjects,
//! predicates and objects (IRIs with '#', '%20', non-ASCII and astral characters; shared blank
//! nodes; plain / language-tagged / typed literals whose lexical forms are all strings of
//! <= 2 tokens over a boundary token set) x {N-Triples, Turtle, RDF/XML}.
//! Oracle: serialize may refuse (Err); if it returns text, parse of that text must succeed and
//! give the same SET of triples up to a bijective renaming of blank nodes.
use rayon::prelude::*;
use samyama::rdf::{BlankNode, Literal, NamedNode, RdfFormat, RdfObject, RdfParser, RdfPredicate, RdfSerializer, RdfSubject, Triple};
use serde_json::{json, Value as J};
use std::collections::{BTreeMap, BTreeSet};
use std::sync::atomic::{AtomicU64, Ordering};
use svmc::engine::ctx::guarded;
use svmc::{run_check, Ctx, Level};

const TOKENS: [&str; 13] = ["\"", "\\", "\n", "\r", "\t", "\u{1}", "é", "😀", "<", "&", "]]>", " ", "a"];
const SUBJECTS: [&str; 5] = ["http://e.org/s", "http://e.org/a%20b#frag", "http://e.org/é😀", "_:b0", "_:b1"];
/// three that split into namespace + NCName (at '#', at '/', the rdf namespace), one that does not (local name starts with a digit)
const PREDICATES: [&str; 4] = ["http://e.org/ns#p", "http://e.org/ns/p", "http://www.w3.org/1999/02/22-rdf-syntax-ns#type", "http://e.org/ns/1"];
const LANG_TAGS: [&str; 8] = ["es-419", "zh-hant-tw", "zh-hant-hk", "de-ch-1901", "sr-latn-rs", "en-x-foo", "sl-rozaj-biske-1994", "x-private"];
const XSD_INTEGER: &str = "http://www.w3.org/2001/XMLSchema#integer";
const CUSTOM_DT: &str = "http://e.org/dt#T";

/// Plain-data description of a term (what the check generates and compares).
#[derive(Clone, Debug, PartialEq, Eq, PartialOrd, Ord, Hash)]
enum T {
    Iri(String),
    Blank(String),
    /// value, language (lowercased), datatype ("" when language-tagged)
    Lit(String, String, String),
}
type Tr = (T, String, T);

fn lexical_forms(max_tokens: usize) -> Vec<String> {
    let mut v = vec![String::new()];
    for k in 1..=max_tokens {
        for seq in svmc::engine::odometer::sequences(TOKENS.len(), k) {
            v.push(seq.iter().map(|&i| TOKENS[i]).collect::<String>());
        }
    }
    v
}

fn objects(max_tokens: usize) -> Vec<T> {
    let mut v = vec![T::Iri("http://e.org/o".into()), T::Blank("b0".into())];
    for lf in lexical_forms(max_tokens) {
        v.push(T::Lit(lf.clone(), "".into(), "http://www.w3.org/2001/XMLSchema#string".into()));
        v.push(T::Lit(lf.clone(), "en".into(), "".into()));
        v.push(T::Lit(lf.clone(), "en-gb".into(), "".into()));
        v.push(T::Lit(lf.clone(), "".into(), XSD_INTEGER.into()));
        v.push(T::Lit(lf, "".into(), CUSTOM_DT.into()));
    }
    // datatypes that resemble xsd:string (same fragment in another namespace, other case, a longer
    // fragment): a serializer that recognises xsd:string by anything less than the whole IRI would
    // write these as simple literals, which parse back as xsd:string
    for lf in lexical_forms(1) {
        for dt in ["http://e.org/ns#string", "http://www.w3.org/2001/XMLSchema#String", "http://www.w3.org/2001/XMLSchema#string2", "http://www.w3.org/2001/XMLSchema#"] {
            v.push(T::Lit(lf.clone(), "".into(), dt.into()));
        }
    }
    // the language-tag lattice (1, 2, 3 and 4 subtags, numeric region, variant, private use) on the
    // lexical forms of <= 1 token
    for lf in lexical_forms(1) {
        for tag in LANG_TAGS {
            v.push(T::Lit(lf.clone(), tag.to_string(), "".into()));
        }
    }
    v
}

fn subj(s: &str) -> T {
    match s.strip_prefix("_:") {
        Some(b) => T::Blank(b.to_string()),
        None => T::Iri(s.to_string()),
    }
}

fn triples_of(max_tokens: usize) -> Vec<Tr> {
    let objs = objects(max_tokens);
    let mut v = vec![];
    for s in SUBJECTS {
        for p in PREDICATES {
            for o in &objs {
                v.push((subj(s), p.to_string(), o.clone()));
            }
        }
    }
    v
}

/// the "structure" triples used as the first element of pairs
fn structure_triples() -> Vec<Tr> {
    let objs = [T::Iri("http://e.org/o".into()), T::Blank("b0".into()), T::Lit("a".into(), "".into(), "http://www.w3.org/2001/XMLSchema#string".into())];
    let mut v = vec![];
    for s in SUBJECTS {
        for p in PREDICATES {
            for o in &objs {
                v.push((subj(s), p.to_string(), o.clone()));
            }
        }
    }
    v
}

fn build(t: &Tr) -> Result<Triple, String> {
    let s: RdfSubject = match &t.0 {
        T::Iri(i) => NamedNode::new(i).map_err(|e| e.to_string())?.into(),
        T::Blank(b) => BlankNode::from_str(b).map_err(|e| e.to_string())?.into(),
        _ => return Err("literal subject".into()),
    };
    let p = RdfPredicate::new(&t.1).map_err(|e| e.to_string())?;
    let o: RdfObject = match &t.2 {
        T::Iri(i) => NamedNode::new(i).map_err(|e| e.to_string())?.into(),
        T::Blank(b) => BlankNode::from_str(b).map_err(|e| e.to_string())?.into(),
        T::Lit(v, lang, dt) => {
            if !lang.is_empty() {
                Literal::new_language_tagged_literal(v.clone(), if lang == "en-gb" { "en-GB".to_string() } else { lang.clone() }).map_err(|e| e.to_string())?.into()
            } else if dt == "http://www.w3.org/2001/XMLSchema#string" {
                Literal::new_simple_literal(v.clone()).into()
            } else {
                Literal::new_typed_literal(v.clone(), NamedNode::new(dt).map_err(|e| e.to_string())?).into()
            }
        }
    };
    Ok(Triple::new(s, p, o))
}

/// What a `Triple` says, as plain data (through the public accessors).
fn observe(t: &Triple) -> Tr {
    let s = match &t.subject {
        RdfSubject::NamedNode(n) => T::Iri(n.as_str().to_string()),
        RdfSubject::BlankNode(b) => T::Blank(b.as_str().to_string()),
    };
    let o = match &t.object {
        RdfObject::NamedNode(n) => T::Iri(n.as_str().to_string()),
        RdfObject::BlankNode(b) => T::Blank(b.as_str().to_string()),
        RdfObject::Literal(l) => match l.language() {
            Some(lang) => T::Lit(l.value().to_string(), lang.to_ascii_lowercase(), "".into()),
            None => T::Lit(l.value().to_string(), "".into(), l.datatype().as_str().to_string()),
        },
    };
    (s, t.predicate.as_named_node().as_str().to_string(), o)
}

fn blanks(ts: &BTreeSet<Tr>) -> Vec<String> {
    let mut b = BTreeSet::new();
    for t in ts {
        if let T::Blank(x) = &t.0 {
            b.insert(x.clone());
        }
        if let T::Blank(x) = &t.2 {
            b.insert(x.clone());
        }
    }
    b.into_iter().collect()
}

fn rename(ts: &BTreeSet<Tr>, m: &BTreeMap<String, String>) -> BTreeSet<Tr> {
    let f = |t: &T| match t {
        T::Blank(x) => T::Blank(m[x].clone()),
        o => o.clone(),
    };
    ts.iter().map(|t| (f(&t.0), t.1.clone(), f(&t.2))).collect()
}

/// equal as sets up to a bijection of blank node labels
fn iso(a: &BTreeSet<Tr>, b: &BTreeSet<Tr>) -> bool {
    let (ba, bb) = (blanks(a), blanks(b));
    if ba.len() != bb.len() || a.len() != b.len() {
        return false;
    }
    for perm in svmc::engine::odometer::permutations(ba.len()) {
        let m: BTreeMap<String, String> = ba.iter().enumerate().map(|(i, x)| (x.clone(), bb[perm[i]].clone())).collect();
        if &rename(a, &m) == b {
            return true;
        }
    }
    false
}

fn xml_ws_only(v: &str) -> bool {
    !v.is_empty() && v.chars().all(|c| matches!(c, ' ' | '\t' | '\n' | '\r'))
}

/// the set with every literal that consists solely of XML whitespace replaced by the empty literal
fn blank_ws(ts: &BTreeSet<Tr>) -> BTreeSet<Tr> {
    ts.iter()
        .map(|t| match &t.2 {
            T::Lit(v, l, d) if xml_ws_only(v) => (t.0.clone(), t.1.clone(), T::Lit(String::new(), l.clone(), d.clone())),
            _ => t.clone(),
        })
        .collect()
}

fn fmt_name(f: RdfFormat) -> &'static str {
    match f {
        RdfFormat::NTriples => "ntriples",
        RdfFormat::Turtle => "turtle",
        RdfFormat::RdfXml => "rdfxml",
        RdfFormat::JsonLd => "jsonld",
    }
}

fn tj(t: &T) -> J {
    match t {
        T::Iri(i) => json!({"iri": i}),
        T::Blank(b) => json!({"blank": b}),
        T::Lit(v, l, d) => json!({"literal": v, "lang": l, "datatype": d}),
    }
}
fn witness(list: &[Tr], f: RdfFormat) -> J {
    json!({"format": fmt_name(f), "triples": list.iter().map(|t| json!({"s": tj(&t.0), "p": t.1, "o": tj(&t.2)})).collect::<Vec<_>>()})
}

/// What about the input makes a failure likely to belong together (region part of the signature).
fn region(list: &[Tr]) -> String {
    let mut r = BTreeSet::new();
    for t in list {
        if t.1 == "http://e.org/ns/1" {
            r.insert("predicate-local-name-not-NCName".to_string());
        }
        for term in [&t.0, &t.2] {
            match term {
                T::Iri(i) if !i.is_ascii() => {
                    r.insert("iri-non-ascii".to_string());
                }
                T::Lit(v, _, _) if !v.is_empty() && v.chars().all(|c| matches!(c, ' ' | '\t' | '\n' | '\r')) => {
                    r.insert("literal-xml-whitespace-only".to_string());
                }
                T::Lit(v, _, _) => {
                    for (tok, name) in [("\u{1}", "literal-U+0001"), ("\r", "literal-CR"), ("\n", "literal-LF"), ("\t", "literal-TAB"), ("]]>", "literal-]]>"), ("\"", "literal-quote"), ("\\", "literal-backslash"), ("😀", "literal-astral"), ("<", "literal-lt"), ("&", "literal-amp")] {
                        if v.contains(tok) {
                            r.insert(name.to_string());
                        }
                    }
                    if v.starts_with(' ') || v.ends_with(' ') {
                        r.insert("literal-edge-space".to_string());
                    }
                    if v.is_empty() {
                        r.insert("literal-empty".to_string());
                    }
                }
                _ => {}
            }
        }
    }
    if r.is_empty() {
        "plain".into()
    } else {
        r.into_iter().collect::<Vec<_>>().join("+")
    }
}

struct Cnt {
    evals: AtomicU64,
    refused: [AtomicU64; 3],
    nontrivial: AtomicU64,
}

#[derive(Debug)]
enum Verdict {
    Refused(String),
    Same,
    Bad(String, String),
}

fn roundtrip(list: &[Tr], f: RdfFormat, verbose: bool) -> Verdict {
    let built: Vec<Triple> = match list.iter().map(build).collect::<Result<Vec<_>, _>>() {
        Ok(b) => b,
        Err(e) => return Verdict::Bad("construct".into(), format!("the RDF types refuse a generated term: {e}")),
    };
    // what the subject itself says the input is (through its accessors) must be what was generated
    let want: BTreeSet<Tr> = built.iter().map(observe).collect();
    let gen: BTreeSet<Tr> = list.iter().cloned().collect();
    if want != gen {
        return Verdict::Bad("construct".into(), format!("constructed triples read back as {:?}, generated {:?}", want, gen));
    }
    let text = match guarded(|| RdfSerializer::serialize(&built, f)) {
        Err(p) => return Verdict::Bad("serialize-panic".into(), format!("serialize panicked: {p}")),
        Ok(Err(e)) => return Verdict::Refused(e.to_string()),
        Ok(Ok(t)) => t,
    };
    if verbose {
        println!("  serialized text: {:?}", text);
    }
    let parsed = match guarded(|| RdfParser::parse(&text, f)) {
        Err(p) => return Verdict::Bad("parse-panic".into(), format!("parse of the serializer's own output panicked: {p}; text {:?}", text)),
        Ok(Err(e)) => return Verdict::Bad("parse-failed".into(), format!("parse of the serializer's own output failed: {e}; text {:?}", text)),
        Ok(Ok(p)) => p,
    };
    let got: BTreeSet<Tr> = parsed.iter().map(observe).collect();
    if verbose {
        println!("  expected set: {:?}\n  observed set: {:?}", want, got);
    }
    if iso(&want, &got) {
        Verdict::Same
    } else if iso(&blank_ws(&want), &got) {
        // precise symptom: the only difference is that literals made solely of XML whitespace came back empty
        Verdict::Bad("whitespace-only-literal-read-back-empty".into(), format!("parsed {:?} but serialized {:?}; text {:?}", got, want, text))
    } else {
        Verdict::Bad("triples-differ".into(), format!("parsed {:?} but serialized {:?}; text {:?}", got, want, text))
    }
}

fn sig_of(f: RdfFormat, sym: &str, list: &[Tr]) -> String {
    match sym {
        "construct" => "machinery:construct".to_string(),
        // region is implied by the symptom (some literal is non-empty and XML-whitespace-only)
        "whitespace-only-literal-read-back-empty" => format!("{}:{}", fmt_name(f), sym),
        _ => format!("{}:{}:{}", fmt_name(f), sym, region(list)),
    }
}

const FORMATS: [RdfFormat; 3] = [RdfFormat::NTriples, RdfFormat::Turtle, RdfFormat::RdfXml];

type Found = Vec<(String, String, J)>;

/// violations of one case, returned (not recorded) so that they can be reported in generator order
fn run_case(list: &[Tr], cnt: &Cnt) -> Found {
    let mut found = vec![];
    for (fi, &f) in FORMATS.iter().enumerate() {
        cnt.evals.fetch_add(1, Ordering::Relaxed);
        match roundtrip(list, f, false) {
            Verdict::Refused(_) => {
                cnt.refused[fi].fetch_add(1, Ordering::Relaxed);
            }
            Verdict::Same => {
                if region(list) != "plain" || list.iter().any(|t| matches!(t.0, T::Blank(_)) || matches!(t.2, T::Blank(_)) || matches!(&t.2, T::Lit(_, l, d) if !l.is_empty() || d != "http://www.w3.org/2001/XMLSchema#string")) {
                    cnt.nontrivial.fetch_add(1, Ordering::Relaxed);
                }
            }
            Verdict::Bad(sym, msg) => {
                let sig = sig_of(f, &sym, list);
                found.push((sig, msg, witness(list, f)));
            }
        }
    }
    found
}

fn main() {
    run_check("C36", Level::Exploration, |ctx| {
        if let Some(p) = ctx.replay.clone() {
            replay(ctx, &p);
            return;
        }
        let quick = ctx.quick();
        let singles = triples_of(if quick { 2 } else { 3 });
        let firsts = structure_triples();
        let seconds = if quick { triples_of(1) } else { triples_of(2) };
        let cnt = Cnt { evals: AtomicU64::new(0), refused: [AtomicU64::new(0), AtomicU64::new(0), AtomicU64::new(0)], nontrivial: AtomicU64::new(0) };
        // empty list
        let mut found: Found = run_case(&[], &cnt);
        let f1: Vec<Found> = singles.par_iter().map(|t| run_case(std::slice::from_ref(t), &cnt)).collect();
        let f2: Vec<Found> = firsts
            .par_iter()
            .map(|a| {
                let mut v = vec![];
                for b in &seconds {
                    v.extend(run_case(&[a.clone(), b.clone()], &cnt));
                }
                v
            })
            .collect();
        found.extend(f1.into_iter().flatten());
        found.extend(f2.into_iter().flatten());
        // generator order = simplest first: the first witness kept per signature is the smallest
        for (sig, msg, w) in found {
            ctx.violation(&sig, msg, w);
        }
        if ctx.has_sig("machinery:construct") {
            ctx.machinery("a generated term is refused or altered by the RDF types themselves (generator bug)");
        }
        let card = 3 * (1 + singles.len() as u64 + firsts.len() as u64 * seconds.len() as u64);
        let evals = cnt.evals.load(Ordering::SeqCst);
        if evals != card {
            ctx.machinery(&format!("ran {evals}, cardinality {card}"));
        }
        ctx.cov("evaluations", evals);
        ctx.cov("generator_cardinality", card);
        ctx.cov("exhaustive", true);
        ctx.cov("distinct_nontrivial", cnt.nontrivial.load(Ordering::SeqCst));
        ctx.cov("rule", "a case is (ordered triple list of length 0..2, format); lists are distinct by construction; a case is non-trivial if the serializer returned text (did not refuse), the round trip was compared, and the list contains a blank node, a language tag, a non-xsd:string datatype, a non-ASCII IRI or a literal with a character outside plain 'a'");
        ctx.cov("refused", json!({"ntriples": cnt.refused[0].load(Ordering::SeqCst), "turtle": cnt.refused[1].load(Ordering::SeqCst), "rdfxml": cnt.refused[2].load(Ordering::SeqCst)}));
        ctx.cov("single_triples", singles.len() as u64);
        ctx.cov("pairs", firsts.len() as u64 * seconds.len() as u64);
        ctx.cov("bounds", format!("subjects {:?}; predicates {:?}; objects: IRI, blank b0, literals plain|@en|@en-GB|^^xsd:integer|^^<{CUSTOM_DT}> over every string of <={} tokens of {:?} (+ empty), plus language tags {LANG_TAGS:?} on the lexical forms of <= 1 token; all single triples; all ordered pairs (structure triple [subject x predicate x {{IRI, blank, \"a\"}}], any triple with lexical forms of <= {} tokens)", SUBJECTS, PREDICATES, if quick { 2 } else { 3 }, TOKENS, if quick { 1 } else { 2 }));
        ctx.sample(witness(&[singles[singles.len() / 3].clone()], RdfFormat::Turtle));
        ctx.sample(witness(&[firsts[40].clone(), seconds[seconds.len() - 7].clone()], RdfFormat::RdfXml));
        ctx.assume("oracle: serialize may return Err (refusal); if it returns text, parse(text) with the same format must be Ok and equal the input as a set of triples up to a bijective renaming of blank nodes; language tags compared case-insensitively; literal = (lexical form, language) or (lexical form, datatype IRI), compared exactly, no value-space normalisation");
        ctx.assume("triple lists of length <= 2; pairs are restricted to a structure triple (no exotic literal) followed by any triple; JSON-LD is not in the property");
        ctx.assume("the property's 'random triple sets' are replaced by this bounded-exhaustive boundary generator; no sampling tail");
    });
}

fn parse_t(j: &J) -> T {
    if let Some(i) = j["iri"].as_str() {
        T::Iri(i.into())
    } else if let Some(b) = j["blank"].as_str() {
        T::Blank(b.into())
    } else {
        T::Lit(j["literal"].as_str().unwrap().into(), j["lang"].as_str().unwrap().into(), j["datatype"].as_str().unwrap().into())
    }
}

fn replay(ctx: &Ctx, p: &std::path::Path) {
    let doc: J = serde_json::from_str(&std::fs::read_to_string(p).expect("read replay")).expect("json");
    let w = &doc["witness"];
    let f = match w["format"].as_str().unwrap() {
        "ntriples" => RdfFormat::NTriples,
        "turtle" => RdfFormat::Turtle,
        _ => RdfFormat::RdfXml,
    };
    let list: Vec<Tr> = w["triples"].as_array().unwrap().iter().map(|t| (parse_t(&t["s"]), t["p"].as_str().unwrap().to_string(), parse_t(&t["o"]))).collect();
    println!("replay {}: format {} triples {:?}", p.display(), fmt_name(f), list);
    match roundtrip(&list, f, true) {
        Verdict::Refused(e) => println!("  serializer refused: {e} (admissible)"),
        Verdict::Same => println!("  round trip equal (no mismatch)"),
        Verdict::Bad(sym, msg) => {
            println!("  MISMATCH [{sym}] {msg}");
            ctx.violation(&sig_of(f, &sym, &list), msg, w.clone());
        }
    }
}
