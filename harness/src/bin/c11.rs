//! C11 — unique constraints reject exactly the duplicates.
//! hx through `MutQueryExecutor` (Cypher statements) over <= 3 nodes and the value domain
//! {1, 2, 'a'} on the constrained pair :U(k); reference = the set of live nodes with their
//! label membership and value (DESIGN §C11).
use samyama::graph::{GraphStore, Label, NodeId, PropertyValue};
use samyama::query::{parse_query, MutQueryExecutor, Query};
use serde_json::json;
use std::collections::{BTreeMap, HashMap};
use svmc::engine::ctx::guarded;
use svmc::engine::hx::{self, Model, Step};
use svmc::{run_check, Level};

const VALS: [&str; 3] = ["1", "2", "'a'"];
fn pv(i: u8) -> PropertyValue {
    match i {
        0 => PropertyValue::Integer(1),
        1 => PropertyValue::Integer(2),
        _ => PropertyValue::String("a".into()),
    }
}
fn val_index(v: &PropertyValue) -> Option<u8> {
    match v {
        PropertyValue::Integer(1) => Some(0),
        PropertyValue::Integer(2) => Some(1),
        PropertyValue::String(s) if s == "a" => Some(2),
        _ => None,
    }
}

#[derive(Clone, Debug, PartialEq, Eq, Hash, PartialOrd, Ord)]
enum Op {
    /// CREATE CONSTRAINT ON (n:U) ASSERT n.k IS UNIQUE
    CreateConstraint,
    /// CREATE (:U {k: v})
    CreateU(u8),
    /// CREATE (:U)
    CreateUNoK,
    /// MATCH (n) WHERE id(n) = i SET n.k = v
    SetK(u64, u8),
    /// MATCH (n) WHERE id(n) = i REMOVE n.k
    RemoveK(u64),
    /// MATCH (n) WHERE id(n) = i SET n.k = null
    SetKNull(u64),
    /// MATCH (n) WHERE id(n) = i REMOVE n:U
    RemoveLabel(u64),
    /// MATCH (n) WHERE id(n) = i SET n:U
    AddLabel(u64),
    /// MATCH (n) WHERE id(n) = i DELETE n
    Delete(u64),
    /// MERGE (:U {k: v})
    MergeU(u8),
}

fn op_name(op: &Op) -> &'static str {
    match op {
        Op::CreateConstraint => "CreateConstraint",
        Op::CreateU(_) => "CreateU",
        Op::CreateUNoK => "CreateUNoK",
        Op::SetK(..) => "SetK",
        Op::RemoveK(_) => "RemoveK",
        Op::SetKNull(_) => "SetKNull",
        Op::RemoveLabel(_) => "RemoveLabel",
        Op::AddLabel(_) => "AddLabel",
        Op::Delete(_) => "Delete",
        Op::MergeU(_) => "MergeU",
    }
}

fn stmt(op: &Op) -> String {
    match op {
        Op::CreateConstraint => "CREATE CONSTRAINT ON (n:U) ASSERT n.k IS UNIQUE".into(),
        Op::CreateU(v) => format!("CREATE (:U {{k: {}}})", VALS[*v as usize]),
        Op::CreateUNoK => "CREATE (:U)".into(),
        Op::SetK(i, v) => format!("MATCH (n) WHERE id(n) = {i} SET n.k = {}", VALS[*v as usize]),
        Op::RemoveK(i) => format!("MATCH (n) WHERE id(n) = {i} REMOVE n.k"),
        Op::SetKNull(i) => format!("MATCH (n) WHERE id(n) = {i} SET n.k = null"),
        Op::RemoveLabel(i) => format!("MATCH (n) WHERE id(n) = {i} REMOVE n:U"),
        Op::AddLabel(i) => format!("MATCH (n) WHERE id(n) = {i} SET n:U"),
        Op::Delete(i) => format!("MATCH (n) WHERE id(n) = {i} DELETE n"),
        Op::MergeU(v) => format!("MERGE (:U {{k: {}}})", VALS[*v as usize]),
    }
}

#[derive(Clone, Debug, PartialEq, Eq, Hash, PartialOrd, Ord)]
struct RNode {
    u: bool,
    k: Option<u8>,
}

#[derive(Clone, Debug, Default)]
struct Ref {
    constraint: bool,
    nodes: BTreeMap<u64, RNode>,
    free: Vec<u64>,
    next: u64,
    alloc_diverged: bool,
    hist: Vec<Op>,
    /// per value: the kind of step by which a :U node most recently stopped holding it
    /// (used only to classify a wrongly refused write by its trigger)
    released_by: [Option<&'static str>; 3],
}
impl Ref {
    /// would the state contain two live :U nodes with the same value?
    fn has_duplicate(nodes: &BTreeMap<u64, RNode>) -> Option<u8> {
        for v in 0..3u8 {
            if nodes.values().filter(|n| n.u && n.k == Some(v)).count() > 1 {
                return Some(v);
            }
        }
        None
    }
    fn alloc(&mut self) -> u64 {
        if let Some(id) = self.free.pop() {
            id
        } else {
            let id = self.next;
            self.next += 1;
            id
        }
    }
}

struct St {
    g: GraphStore,
    r: Ref,
    /// server-style store: the runtime whose only task is the real background indexer
    rt: Option<tokio::runtime::Runtime>,
}
impl St {
    /// Let the background indexer consume every event queued so far (current-thread runtime: the
    /// indexer task runs only here, so the exploration stays deterministic).
    fn drain_indexer(&self) {
        if let Some(rt) = &self.rt {
            rt.block_on(async {
                for _ in 0..8 {
                    tokio::task::yield_now().await;
                }
            });
        }
    }
}

struct M {
    max_nodes: usize,
    parsed: HashMap<String, Query>,
    /// build the store the way the server does: `GraphStore::with_async_indexing()` with the real
    /// `start_background_indexer` consuming its events (index upkeep then runs in the indexer's own
    /// event handler, a second copy of the inline one)
    server_store: bool,
}

impl M {
    fn new(max_nodes: usize) -> Self {
        // the alphabet is finite: pre-parse every statement (node ids stay <= max_nodes + 1)
        let mut parsed = HashMap::new();
        let mut all = vec![Op::CreateConstraint, Op::CreateUNoK];
        for v in 0..3 {
            all.push(Op::CreateU(v));
            all.push(Op::MergeU(v));
        }
        for i in 1..=(max_nodes as u64 + 2) {
            for v in 0..3 {
                all.push(Op::SetK(i, v));
            }
            all.extend([Op::RemoveK(i), Op::SetKNull(i), Op::RemoveLabel(i), Op::AddLabel(i), Op::Delete(i)]);
        }
        for op in all {
            let s = stmt(&op);
            let q = parse_query(&s).unwrap_or_else(|e| panic!("statement does not parse: {s}: {e:?}"));
            parsed.insert(s, q);
        }
        M { max_nodes, parsed, server_store: false }
    }
    fn run(&self, g: &mut GraphStore, op: &Op) -> Result<Result<(), String>, String> {
        let s = stmt(op);
        let q = match self.parsed.get(&s) {
            Some(q) => q.clone(),
            None => parse_query(&s).map_err(|e| format!("parse: {e:?}"))?,
        };
        guarded(|| MutQueryExecutor::new(g, "default".to_string()).execute(&q).map(|_| ()).map_err(|e| format!("{e}")))
    }
}

/// The store's live nodes as the reference sees them: id -> (has :U, k)
fn dump(g: &GraphStore, upto: u64) -> BTreeMap<u64, (bool, String)> {
    let mut out = BTreeMap::new();
    for id in 1..=upto + 1 {
        if let Some(n) = g.get_node(NodeId::new(id)) {
            let u = n.labels.iter().any(|l| l.as_str() == "U");
            let mut k = n.properties.get("k").cloned();
            if k.is_none() {
                // column-store-only values
                let full = g.node_properties_full(NodeId::new(id));
                k = full.get("k").cloned();
            }
            let ks = match k {
                None | Some(PropertyValue::Null) => "-".to_string(),
                Some(v) => match val_index(&v) {
                    Some(i) => VALS[i as usize].to_string(),
                    None => format!("?{v:?}"),
                },
            };
            out.insert(id, (u, ks));
        }
    }
    out
}
fn ref_dump(r: &Ref) -> BTreeMap<u64, (bool, String)> {
    r.nodes.iter().map(|(id, n)| (*id, (n.u, n.k.map(|v| VALS[v as usize].to_string()).unwrap_or_else(|| "-".into())))).collect()
}

impl Model for M {
    type Op = Op;
    type State = St;
    type Key = String;
    fn init(&self) -> St {
        if !self.server_store {
            return St { g: GraphStore::new(), r: Ref { next: 1, ..Default::default() }, rt: None };
        }
        let (g, rx) = GraphStore::with_async_indexing();
        let rt = tokio::runtime::Builder::new_current_thread().build().expect("runtime");
        rt.spawn(GraphStore::start_background_indexer(rx, g.vector_index.clone(), g.property_index.clone(), std::sync::Arc::new(samyama::persistence::TenantManager::new())));
        St { g, r: Ref { next: 1, ..Default::default() }, rt: Some(rt) }
    }
    fn ops(&self, st: &St) -> Vec<Op> {
        let r = &st.r;
        let mut v = vec![];
        if !r.constraint {
            v.push(Op::CreateConstraint);
        }
        let room = r.nodes.len() < self.max_nodes;
        if room {
            for x in 0..3 {
                v.push(Op::CreateU(x));
            }
            v.push(Op::CreateUNoK);
        }
        for (&id, n) in &r.nodes {
            for x in 0..3 {
                v.push(Op::SetK(id, x));
            }
            v.push(Op::RemoveK(id));
            v.push(Op::SetKNull(id));
            if n.u {
                v.push(Op::RemoveLabel(id));
            } else {
                v.push(Op::AddLabel(id));
            }
            v.push(Op::Delete(id));
        }
        for x in 0..3 {
            // MERGE either matches an existing :U node with that value or creates one
            let matches = r.nodes.values().any(|n| n.u && n.k == Some(x));
            if matches || room {
                v.push(Op::MergeU(x));
            }
        }
        v
    }
    fn apply(&self, st: &mut St, op: &Op, check: bool) -> Step {
        let mut vio: Vec<(String, String)> = vec![];
        let g = &mut st.g;
        let r = &mut st.r;
        r.hist.push(op.clone());
        let name = op_name(op);
        // ---- what the statement would do (reference)
        let mut after = r.nodes.clone();
        let mut creates = false;
        match op {
            Op::CreateConstraint => {}
            Op::CreateU(v) => {
                creates = true;
                after.insert(u64::MAX, RNode { u: true, k: Some(*v) });
            }
            Op::CreateUNoK => {
                creates = true;
                after.insert(u64::MAX, RNode { u: true, k: None });
            }
            Op::SetK(i, v) => after.get_mut(i).unwrap().k = Some(*v),
            Op::RemoveK(i) | Op::SetKNull(i) => after.get_mut(i).unwrap().k = None,
            Op::RemoveLabel(i) => after.get_mut(i).unwrap().u = false,
            Op::AddLabel(i) => after.get_mut(i).unwrap().u = true,
            Op::Delete(i) => {
                after.remove(i);
            }
            Op::MergeU(v) => {
                if !after.values().any(|n| n.u && n.k == Some(*v)) {
                    creates = true;
                    after.insert(u64::MAX, RNode { u: true, k: Some(*v) });
                }
            }
        }
        let dup_after = Ref::has_duplicate(&after);
        let dup_before = Ref::has_duplicate(&r.nodes);
        // a write is refused iff it would create a duplicate pair under the constraint;
        // CREATE CONSTRAINT is refused iff the data already holds a duplicate pair
        let expect_refusal = match op {
            Op::CreateConstraint => dup_before.is_some(),
            _ => r.constraint && dup_after.is_some() && dup_before.is_none(),
        };
        // (with the constraint in force and no duplicate before, "dup_after" = this write creates one)
        let res = self.run(g, op);
        // server-style store: let the real background indexer consume the statement's events
        if let Some(rt) = &st.rt {
            rt.block_on(async {
                for _ in 0..8 {
                    tokio::task::yield_now().await;
                }
            });
        }
        let outcome;
        match res {
            Err(p) => {
                vio.push((format!("panic:{name}"), format!("`{}` panicked: {p}", stmt(op))));
                return Step { violations: vio, outcome: "panic".into() };
            }
            Ok(Ok(())) => {
                outcome = "ok".to_string();
                if expect_refusal {
                    let v = dup_after.or(dup_before).unwrap();
                    vio.push((format!("accepted_duplicate:{name}"), format!("`{}` was accepted although it leaves two live :U nodes with k = {} (reference before: {:?})", stmt(op), VALS[v as usize], ref_dump(r))));
                }
                // apply to the reference
                match op {
                    Op::CreateConstraint => r.constraint = true,
                    _ => {
                        if creates {
                            let want = r.alloc();
                            let node = after.remove(&u64::MAX).unwrap();
                            // which id did the store use?
                            let now = dump(g, r.next + 1);
                            let new_ids: Vec<u64> = now.keys().copied().filter(|id| !r.nodes.contains_key(id)).collect();
                            let id = if new_ids.len() == 1 { new_ids[0] } else { want };
                            if id != want {
                                r.alloc_diverged = true;
                                r.free.retain(|x| *x != id);
                                if id >= r.next {
                                    r.next = id + 1;
                                }
                            }
                            after.insert(id, node);
                        }
                        if let Op::Delete(i) = op {
                            r.free.push(*i);
                        }
                        // which values did a :U node stop holding in this step?
                        for (id, before) in &r.nodes {
                            if let (true, Some(v)) = (before.u, before.k) {
                                let still = after.get(id).map(|a| a.u && a.k == Some(v)).unwrap_or(false);
                                if !still {
                                    r.released_by[v as usize] = Some(match op {
                                        Op::SetK(..) => "overwrite",
                                        Op::RemoveK(_) => "remove_property",
                                        Op::SetKNull(_) => "set_null",
                                        Op::RemoveLabel(_) => "remove_label",
                                        Op::Delete(_) => "delete",
                                        _ => "other",
                                    });
                                }
                            }
                        }
                        r.nodes = after;
                    }
                }
            }
            Ok(Err(e)) => {
                outcome = "refused".to_string();
                if !expect_refusal {
                    // classify the trigger: which stale holder could explain it?
                    let why = if r.constraint { "constraint in force" } else { "no constraint" };
                    // the value this write asks for, and how it was last released
                    let asked = match op {
                        Op::CreateU(v) | Op::MergeU(v) | Op::SetK(_, v) => Some(*v),
                        Op::AddLabel(i) => r.nodes.get(i).and_then(|n| n.k),
                        _ => None,
                    };
                    let cause = asked.and_then(|v| r.released_by[v as usize]).unwrap_or("none");
                    vio.push((
                        format!("refused_legitimate:{name}:value_released_by_{cause}"),
                        format!("`{}` was refused ({e}) although no two live :U nodes would share a value afterwards ({why}; reference before: {:?})", stmt(op), ref_dump(r)),
                    ));
                }
                // a refused CREATE allocates an id and gives it back (rollback): mirror the free list
                if creates {
                    let id = r.alloc();
                    r.free.push(id);
                }

            }
        }
        if check {
            // the store's state must be the reference's (otherwise later predictions are meaningless)
            let got = dump(g, r.next + 1);
            let want = ref_dump(r);
            if got != want {
                vio.push((format!("state:{name}:{}", outcome), format!("after `{}` ({outcome}) the store holds {got:?}, reference {want:?}", stmt(op))));
            }
            // the invariant itself, on the store's own state
            if r.constraint {
                for v in 0..3u8 {
                    let holders: Vec<u64> = got.iter().filter(|(_, (u, k))| *u && k == VALS[v as usize]).map(|(id, _)| *id).collect();
                    if holders.len() > 1 {
                        vio.push((format!("duplicate_live:{name}"), format!("after `{}`: live :U nodes {holders:?} all hold k = {}", stmt(op), VALS[v as usize])));
                    }
                }
            }
        }
        Step { violations: vio, outcome }
    }
    fn key(&self, st: &St) -> String {
        let r = &st.r;
        if r.alloc_diverged {
            return format!("H{:?}", r.hist);
        }
        // implementation-only: who the constraint index believes holds each value
        let mut holders = String::new();
        for v in 0..3u8 {
            holders.push_str(&format!("{:?};", st.g.property_index.unique_constraint_holder(&Label::new("U"), "k", &pv(v)).map(|n| n.as_u64())));
        }
        format!("{}|{:?}|{:?}|{}|{}", r.constraint, r.nodes, r.free, r.next, holders)
    }
}

fn silence_stderr() {
    unsafe {
        let fd = libc::open(b"/dev/null\0".as_ptr() as *const libc::c_char, libc::O_WRONLY);
        if fd >= 0 {
            libc::dup2(fd, 2);
        }
    }
}

fn main() {
    run_check("C11", Level::ModelChecking, |ctx| {
        silence_stderr();
        let max_nodes: usize = std::env::var("VERIF_NODES").ok().and_then(|s| s.parse().ok()).unwrap_or(ctx.tier.pick(3, 4));
        let m = M::new(max_nodes);
        if let Some(p) = &ctx.replay {
            replay(ctx, &m, p);
            return;
        }
        let depth = std::env::var("VERIF_DEPTH").ok().and_then(|s| s.parse().ok()).unwrap_or(ctx.tier.pick(8, 11));
        let cap: u64 = ctx.tier.pick(100_000, 300_000);
        let mut stats = hx::explore(&m, depth, cap, |v| {
            ctx.violation(&v.sig, v.msg, json!({"history": v.history.iter().map(|o| format!("{:?}", o)).collect::<Vec<_>>(), "statements": v.history.iter().map(stmt).collect::<Vec<_>>()}));
        });
        // second pass: the same exploration on a server-style store (GraphStore::with_async_indexing +
        // the real start_background_indexer on a current-thread runtime that runs only between
        // statements): there index upkeep goes through the indexer's own copy of the event handler
        let mut m2 = M::new(max_nodes);
        m2.server_store = true;
        let stats2 = hx::explore(&m2, depth, cap, |v| {
            ctx.violation(&format!("{}@server-store", v.sig), v.msg, json!({"store": "with_async_indexing", "history": v.history.iter().map(|o| format!("{:?}", o)).collect::<Vec<_>>(), "statements": v.history.iter().map(stmt).collect::<Vec<_>>()}));
        });
        ctx.cov("second_pass_server_store", json!({"states": stats2.states, "transitions": stats2.transitions, "fixpoint_reached": !stats2.cap_hit && stats2.per_depth_states.last().copied() == Some(0)}));
        stats.states += stats2.states;
        stats.transitions += stats2.transitions;
        stats.cap_hit |= stats2.cap_hit;
        hx::report(
            ctx,
            &stats,
            "Cypher through MutQueryExecutor: CREATE CONSTRAINT ON (n:U) ASSERT n.k IS UNIQUE (at any point: backfill) | CREATE (:U {k:v}) | CREATE (:U) | MATCH (n) WHERE id(n)=i SET n.k=v | REMOVE n.k | SET n.k=null | REMOVE n:U | SET n:U | DELETE n | MERGE (:U {k:v}); v in {1, 2, 'a'}; <= 3 (quick) / 4 (thorough) live nodes",
        );
        ctx.cov("max_live_nodes", max_nodes as u64);
        ctx.cov("fixpoint_reached", !stats.cap_hit && stats.per_depth_states.last().copied() == Some(0));
        ctx.assume("oracle: with the constraint in force a write is refused iff afterwards two live :U nodes would hold the same non-null k; CREATE CONSTRAINT is refused iff the data already holds such a pair; without a constraint every write is accepted. null / missing k never conflicts");
        ctx.assume("nodes are addressed by id(n) so the check does not depend on the property index that backs MATCH (n:U {k:v}) lookups (that index is C02's subject); the store's state is read through get_node / node_properties_full");
        ctx.assume("after every step the store's live nodes (label membership, k) must equal the reference's — a refused statement that leaves a partial effect is reported as state:<op>:refused (it is a C05-class defect, but the reference cannot predict past it)");
        ctx.assume("values are one per type (1, 2 integers; 'a' string), so equality is unambiguous; 1 vs 1.0 is not generated");
    });
}

fn replay(ctx: &svmc::Ctx, m: &M, p: &std::path::Path) {
    let doc: serde_json::Value = serde_json::from_str(&std::fs::read_to_string(p).expect("read replay")).expect("json");
    let hist: Vec<String> = doc["witness"]["history"].as_array().unwrap().iter().map(|s| s.as_str().unwrap().to_string()).collect();
    let m2;
    let m = if doc["witness"]["store"] == "with_async_indexing" {
        let mut x = M::new(m.max_nodes);
        x.server_store = true;
        m2 = x;
        &m2
    } else {
        m
    };
    let mut st = m.init();
    for (i, want) in hist.iter().enumerate() {
        let ops = m.ops(&st);
        let op = ops.iter().find(|o| &format!("{:?}", o) == want).unwrap_or_else(|| ctx.machinery(&format!("replay: op {want} not enabled at step {i}")));
        let step = m.apply(&mut st, op, true);
        println!("step {i}: {} -> {}   store={:?} reference={:?} constraint={}", stmt(op), step.outcome, dump(&st.g, st.r.next + 1), ref_dump(&st.r), st.r.constraint);
        for (sig, msg) in step.violations {
            println!("  MISMATCH [{sig}] {msg}");
            ctx.violation(&sig, msg, json!({"history": hist[..=i]}));
        }
    }
    if ctx.violation_count() == 0 {
        println!("replay: every statement was accepted / refused as the reference prescribes");
    }
}
