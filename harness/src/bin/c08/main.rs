//! C08 — version garbage collection never changes a read it must preserve (DESIGN §C08).
//! Same explorer as C07 plus gc_versions(w) for every w, gc_auto and transactions left active;
//! only GC steps are judged, differentially (reads before vs after the collection).
#[path = "../c07/mvcc.rs"]
mod mvcc;
use mvcc::{hist_json, Mode, M};
use serde_json::json;
use std::sync::atomic::Ordering;
use svmc::engine::hx;
use svmc::{run_check, Level};

fn main() {
    run_check("C08", Level::ModelChecking, |ctx| {
        let m = M::new(Mode::C08, ctx);
        if let Some(p) = &ctx.replay {
            mvcc::replay(ctx, &m, p);
            return;
        }
        let depth = std::env::var("VERIF_DEPTH").ok().and_then(|s| s.parse().ok()).unwrap_or(ctx.tier.pick(7, 8));
        let stats = hx::explore(&m, depth, 30_000_000, |v| {
            ctx.violation(&v.sig, v.msg, json!({"history": hist_json(&v.history)}));
        });
        hx::report(ctx, &stats, &m.alphabet());
        ctx.cov("gc_steps_that_pruned_something", m.gc_steps_with_pruning.load(Ordering::Relaxed));
        ctx.cov("reads_compared_before_vs_after_gc", m.gc_reads_compared.load(Ordering::Relaxed));
        ctx.assume("differential oracle: for gc_versions(w) every get_node_at_version / get_edge_at_version answer at every version in max(w,1)..=current+1, and (if w <= current) every scan/count at the current version, must be identical before and after the call; for gc_auto additionally every get_node_for_txn / get_edge_for_txn answer of every active transaction (RC and SI), and the watermark is gc_watermark()");
        ctx.assume("non-GC steps are not judged here (that is C07); the reference model only decides which operations are enabled and predicts id reuse, so defects of C07 cannot be re-reported by C08");
        ctx.assume("transactions carry no write sets (FCW is C09); they matter here only as holders of a begin version that gc_auto must respect");
    });
}
