//! C23 — RESP `GRAPH.QUERY` and HTTP `/api/query` run every supported statement like the
//! engine does (DESIGN §C23).
//!
//! Bounded-exhaustive enumeration of a surface grammar (leading clause × write clause ×
//! position × keyword case × separators) on two fixed graphs; every statement runs through
//! (i) the engine directly (the oracle), (ii) `CommandHandler::handle_command`, (iii) the
//! shipped axum router via `oneshot`. Outcome class, rows and the resulting full-graph dump
//! must agree with (i); a read must leave the dump unchanged. A fixed subset is replayed
//! against the real server binary over TCP / HTTP.
use axum::body::Body;
use axum::http::Request;
use bytes::BytesMut;
use http_body_util::BodyExt;
use rayon::prelude::*;
use samyama::graph::{GraphStore, Label, NodeId, PropertyMap, PropertyValue};
use samyama::http::server::HttpServer;
use samyama::protocol::command::CommandHandler;
use samyama::protocol::resp::RespValue;
use samyama::query::{parse_query, MutQueryExecutor, QueryExecutor, RecordBatch, Value};
use serde_json::{json, Value as J};
use std::collections::{BTreeMap, BTreeSet};
use std::io::{Read, Write};
use std::sync::Arc;
use svmc::engine::ctx::guarded;
use svmc::{run_check, Ctx, Level};
use tokio::sync::RwLock;
use tower::ServiceExt;

// ---------------------------------------------------------------- surface grammar

const LEADS: [&str; 7] = ["MATCH", "OPTIONAL MATCH", "UNWIND", "WITH", "CALL", "CREATE", "MERGE"];
const WRITES: [&str; 9] = ["CREATE", "MERGE", "SET", "SET LABEL", "SET MAP", "REMOVE", "REMOVE LABEL", "DELETE", "DETACH DELETE"];
const POSITIONS: [&str; 3] = ["first", "middle", "last"];
const CASES: [&str; 3] = ["upper", "lower", "mixed"];
/// quick uses the first three separators; thorough all five, plus leading white space
const SEPS: [(&str, &str); 5] = [("space", " "), ("tab", "\t"), ("newline", "\n"), ("two_spaces", "  "), ("crlf", "\r\n")];
const PREFIXES: [(&str, &str); 3] = [("none", ""), ("space", " "), ("newline", "\n")];

/// One clause: keyword words + body; inner keywords of the body are written `§KW§`.
#[derive(Clone, Debug)]
struct Clause {
    kw: &'static str,
    body: String,
}
fn cl(kw: &'static str, body: &str) -> Clause {
    Clause { kw, body: body.to_string() }
}

#[derive(Clone, Debug)]
struct Skeleton {
    lead: &'static str,
    write: &'static str, // or "none"
    pos: &'static str,   // or "read"
    clauses: Vec<Clause>,
}

fn lead_clause(lead: &str, write: &str) -> Clause {
    // plain DELETE needs a node without relationships: the :Q node
    let lbl = if write == "DELETE" { "Q" } else { "P" };
    match lead {
        "MATCH" => cl("MATCH", &format!("(n:{lbl})")),
        "OPTIONAL MATCH" => cl("OPTIONAL MATCH", &format!("(n:{lbl})")),
        "UNWIND" => cl("UNWIND", "[1, 2] §AS§ x"),
        "WITH" => cl("WITH", "1 §AS§ x"),
        "CALL" => cl("CALL", "db.labels() §YIELD§ label"),
        "CREATE" => cl("CREATE", "(n:N {k: 7})"),
        _ => cl("MERGE", &format!("(n:{lbl} {{k: {}}})", if lbl == "Q" { 3 } else { 1 })),
    }
}
fn lead_binds_node(lead: &str) -> bool {
    matches!(lead, "MATCH" | "OPTIONAL MATCH" | "CREATE" | "MERGE")
}
fn write_clause(write: &str) -> Clause {
    match write {
        "CREATE" => cl("CREATE", "(m:N {k: 8})"),
        "MERGE" => cl("MERGE", "(m:N {k: 8})"),
        "SET" => cl("SET", "n.v = 5"),
        // a SET / REMOVE whose only effect is on labels, and a map merge: statements whose one
        // mutation is not a property assignment must be routed as writes too
        "SET LABEL" => cl("SET", "n:Extra"),
        "SET MAP" => cl("SET", "n += {v: 5}"),
        "REMOVE" => cl("REMOVE", "n.name"),
        "REMOVE LABEL" => cl("REMOVE", "n:P"),
        "DELETE" => cl("DELETE", "n"),
        _ => cl("DETACH DELETE", "n"),
    }
}
fn write_needs_node(write: &str) -> bool {
    !matches!(write, "CREATE" | "MERGE")
}
fn return_for(write: &str) -> &'static str {
    match write {
        "CREATE" | "MERGE" => "m.k",
        "SET" | "SET MAP" => "n.v",
        "SET LABEL" | "REMOVE LABEL" => "n.k",
        "REMOVE" => "n.k",
        _ => "count(*)",
    }
}
fn lead_return(lead: &str) -> &'static str {
    match lead {
        "UNWIND" | "WITH" => "x",
        "CALL" => "label",
        _ => "n.k",
    }
}

fn skeletons(thorough: bool) -> Vec<Skeleton> {
    let mut v = vec![];
    // pure reads / bare leading clauses
    for lead in LEADS {
        let mut c = vec![lead_clause(lead, "none")];
        c.push(cl("RETURN", lead_return(lead)));
        v.push(Skeleton { lead, write: "none", pos: "read", clauses: c });
    }
    // reads that merely mention write keywords, and reads returning entities
    v.push(Skeleton { lead: "MATCH", write: "none", pos: "read", clauses: vec![cl("MATCH", "(n:P)"), cl("WHERE", "n.name <> ' CREATE '"), cl("RETURN", "n.k")] });
    v.push(Skeleton { lead: "MATCH", write: "none", pos: "read", clauses: vec![cl("MATCH", "(n:P)"), cl("WHERE", "n.name = ' SET '"), cl("RETURN", "n.k")] });
    v.push(Skeleton { lead: "MATCH", write: "none", pos: "read", clauses: vec![cl("MATCH", "(n:P)"), cl("RETURN", "n")] });
    v.push(Skeleton { lead: "MATCH", write: "none", pos: "read", clauses: vec![cl("MATCH", "(a:P)-[r:R]->(b:P)"), cl("RETURN", "a.k, b.name")] });
    v.push(Skeleton { lead: "MATCH", write: "none", pos: "read", clauses: vec![cl("MATCH", "(n)"), cl("RETURN", "count(n)")] });
    for lead in LEADS {
        for write in WRITES {
            for pos in POSITIONS {
                let mut c: Vec<Clause> = vec![];
                let need_match = write_needs_node(write) && !lead_binds_node(lead);
                let lbl = if write == "DELETE" { "Q" } else { "P" };
                match pos {
                    "last" | "middle" => {
                        c.push(lead_clause(lead, write));
                        if need_match {
                            c.push(cl("MATCH", &format!("(n:{lbl})")));
                        }
                        c.push(write_clause(write));
                        if pos == "middle" {
                            c.push(cl("RETURN", return_for(write)));
                        }
                    }
                    _ => {
                        // the write clause opens the statement, the "leading" clause follows it
                        c.push(write_clause(write));
                        match lead {
                            "MATCH" | "OPTIONAL MATCH" | "UNWIND" | "CALL" => {
                                if !write_needs_node(write) {
                                    c.push(cl("WITH", "m"));
                                }
                                let mut l = lead_clause(lead, write);
                                if lead_binds_node(lead) && !write_needs_node(write) {
                                    l.body = l.body.replace("(n:", "(p:");
                                }
                                c.push(l);
                            }
                            "WITH" => c.push(cl("WITH", "1 §AS§ x")),
                            "CREATE" => c.push(cl("CREATE", "(q:N {k: 7})")),
                            _ => c.push(cl("MERGE", "(q:P {k: 1})")),
                        }
                        let r = if write_needs_node(write) {
                            "n.k".to_string()
                        } else {
                            match lead {
                                "MATCH" | "OPTIONAL MATCH" => "m.k, p.k".to_string(),
                                "UNWIND" => "m.k, x".to_string(),
                                "CALL" => "m.k, label".to_string(),
                                "WITH" => "x".to_string(),
                                _ => "m.k, q.k".to_string(),
                            }
                        };
                        c.push(cl("RETURN", &r));
                    }
                }
                v.push(Skeleton { lead, write, pos, clauses: c.clone() });
                // thorough: the same statement with a WHERE between the matching clause and what follows
                if thorough {
                    if let Some(i) = c.iter().position(|x| x.kw == "MATCH" || x.kw == "OPTIONAL MATCH") {
                        let var = if c[i].body.starts_with("(p:") { "p" } else { "n" };
                        let mut w = c.clone();
                        w.insert(i + 1, cl("WHERE", &format!("{var}.k > 0")));
                        v.push(Skeleton { lead, write, pos, clauses: w });
                    }
                }
            }
        }
    }
    v
}

fn case_kw(kw: &str, case: usize) -> String {
    match case {
        0 => kw.to_uppercase(),
        1 => kw.to_lowercase(),
        _ => kw.chars().enumerate().map(|(i, c)| if i % 2 == 0 { c.to_ascii_uppercase() } else { c.to_ascii_lowercase() }).collect(),
    }
}

/// Print a skeleton: `sep_clause` between clauses, `sep_kw` between a keyword and its body,
/// between the words of a two-word keyword and around inner keywords.
fn render(s: &Skeleton, case: usize, sep_clause: &str, sep_kw: &str) -> String {
    let mut out = String::new();
    for (i, c) in s.clauses.iter().enumerate() {
        if i > 0 {
            out.push_str(sep_clause);
        }
        let words: Vec<String> = c.kw.split(' ').map(|w| case_kw(w, case)).collect();
        out.push_str(&words.join(sep_kw));
        out.push_str(sep_kw);
        // inner keywords
        let mut body = String::new();
        let mut rest = c.body.as_str();
        while let Some(a) = rest.find('§') {
            let b = rest[a + 2..].find('§').map(|x| x + a + 2).unwrap();
            body.push_str(rest[..a].trim_end_matches(' '));
            body.push_str(sep_kw);
            body.push_str(&case_kw(&rest[a + 2..b], case));
            body.push_str(sep_kw);
            rest = rest[b + 2..].trim_start_matches(' ');
        }
        body.push_str(rest);
        out.push_str(&body);
    }
    out
}

#[derive(Clone, Debug)]
struct Case {
    skel: usize,
    case: usize,
    sep_clause: usize,
    sep_kw: usize,
    prefix: usize,
    graph: usize,
    text: String,
}

// ---------------------------------------------------------------- graphs and dumps

const GRAPHS: [&str; 3] = ["empty", "small", "chain"];

fn fixture(graph: usize) -> GraphStore {
    let mut g = GraphStore::new();
    if graph == 1 {
        let mk = |g: &mut GraphStore, l: &str, k: i64, name: &str| -> NodeId {
            let mut pm = PropertyMap::new();
            pm.insert("k".into(), PropertyValue::Integer(k));
            pm.insert("name".into(), PropertyValue::String(name.into()));
            g.create_node_with_properties("default", vec![Label::new(l)], pm)
        };
        let a = mk(&mut g, "P", 1, "a");
        let b = mk(&mut g, "P", 2, "b");
        let _c = mk(&mut g, "Q", 3, "c");
        g.create_edge(a, b, "R").expect("fixture edge");
    }
    if graph == 2 {
        // thorough only: three :P in a chain, two :Q, one :N that MERGE (m:N {k: 8}) finds
        let mk = |g: &mut GraphStore, l: &str, k: i64, name: &str| -> NodeId {
            let mut pm = PropertyMap::new();
            pm.insert("k".into(), PropertyValue::Integer(k));
            pm.insert("name".into(), PropertyValue::String(name.into()));
            g.create_node_with_properties("default", vec![Label::new(l)], pm)
        };
        let a = mk(&mut g, "P", 1, "a");
        let b = mk(&mut g, "P", 2, "b");
        let c = mk(&mut g, "P", 0, "z");
        let _q1 = mk(&mut g, "Q", 3, "c");
        let _q2 = mk(&mut g, "Q", 4, "d");
        let _n = mk(&mut g, "N", 8, "n");
        g.create_edge(a, b, "R").expect("fixture edge");
        g.create_edge(b, c, "R").expect("fixture edge");
    }
    g
}
/// The same fixture as Cypher statements (for the real server).
const FIXTURE_CYPHER: [&str; 2] = ["CREATE (a:P {k: 1, name: 'a'})-[:R]->(b:P {k: 2, name: 'b'})", "CREATE (c:Q {k: 3, name: 'c'})"];

fn pv_text(v: &PropertyValue) -> String {
    match v {
        PropertyValue::Float(f) => format!("f{:016x}", f.to_bits()),
        other => format!("{:?}", other),
    }
}

/// Full-graph dump through the public read API (ids included).
fn dump(g: &GraphStore) -> String {
    let mut nodes: Vec<String> = g
        .all_nodes()
        .iter()
        .map(|n| {
            let labels: BTreeSet<String> = n.labels.iter().map(|l| l.as_str().to_string()).collect();
            let props: BTreeMap<String, String> = g.node_properties_full(n.id).iter().filter(|(_, v)| !v.is_null()).map(|(k, v)| (k.clone(), pv_text(v))).collect();
            format!("({} {:?} {:?})", n.id.as_u64(), labels, props)
        })
        .collect();
    nodes.sort();
    let mut edges: Vec<String> = g
        .all_edges()
        .iter()
        .map(|e| {
            let props: BTreeMap<String, String> = e.properties.iter().map(|(k, v)| (k.clone(), pv_text(v))).collect();
            format!("[{} {}-{}->{} {:?}]", e.id.as_u64(), e.source.as_u64(), e.edge_type.as_str(), e.target.as_u64(), props)
        })
        .collect();
    edges.sort();
    format!("{} | {}", nodes.join(" "), edges.join(" "))
}

// ---------------------------------------------------------------- outcomes

#[derive(Clone, Debug, PartialEq, Eq, PartialOrd, Ord)]
enum Cell {
    Null,
    Int(i64),
    Text(String),
    Node(u64),
    Other(String),
}
#[derive(Clone, Debug, PartialEq, Eq)]
enum Out {
    Rows { columns: Vec<String>, bag: Vec<Vec<Cell>> },
    Refused(String),
}
impl Out {
    fn class(&self) -> &'static str {
        match self {
            Out::Rows { .. } => "rows",
            Out::Refused(_) => "refused",
        }
    }
    fn show(&self) -> String {
        match self {
            Out::Rows { columns, bag } => format!("{} row(s) {:?} {:?}", bag.len(), columns, bag),
            Out::Refused(e) => format!("refused: {}", e.chars().take(160).collect::<String>()),
        }
    }
}
struct RouteResult {
    out: Out,
    dump_after: String,
}

fn cell_of_value(v: &Value) -> Cell {
    match v {
        Value::Null => Cell::Null,
        Value::Property(PropertyValue::Null) => Cell::Null,
        Value::Property(PropertyValue::Integer(i)) => Cell::Int(*i),
        Value::Property(PropertyValue::String(s)) => Cell::Text(s.clone()),
        Value::Node(id, _) | Value::NodeRef(id) => Cell::Node(id.as_u64()),
        other => Cell::Other(format!("{:?}", other).chars().take(60).collect()),
    }
}
fn out_of_batch(b: &RecordBatch) -> Out {
    let mut bag: Vec<Vec<Cell>> = b.records.iter().map(|r| b.columns.iter().map(|c| r.get(c).map(cell_of_value).unwrap_or(Cell::Null)).collect()).collect();
    bag.sort();
    Out::Rows { columns: b.columns.clone(), bag }
}

const WRITE_PLAN_MSG: &str = "Cannot execute write query with read-only executor";

/// (i) the engine itself: the read executor, and the write executor when the engine's own
/// planner says the statement is a write. Returns also whether the engine ran it as a write.
fn run_engine(text: &str, mut g: GraphStore) -> (RouteResult, bool) {
    let r = guarded(|| {
        let q = match parse_query(text) {
            Ok(q) => q,
            Err(e) => return (Out::Refused(format!("parse: {e}")), false),
        };
        let first = QueryExecutor::new(&g).execute(&q);
        match first {
            Ok(b) => (out_of_batch(&b), false),
            Err(e) if e.to_string().contains(WRITE_PLAN_MSG) => {
                let mut ex = MutQueryExecutor::new(&mut g, "default".to_string());
                match ex.execute(&q) {
                    Ok(b) => (out_of_batch(&b), true),
                    Err(e) => (Out::Refused(e.to_string()), true),
                }
            }
            Err(e) => (Out::Refused(e.to_string()), false),
        }
    });
    let (out, is_write) = match r {
        Ok(x) => x,
        Err(p) => (Out::Refused(format!("PANIC {p}")), false),
    };
    (RouteResult { out, dump_after: dump(&g) }, is_write)
}

thread_local! {
    static RT: tokio::runtime::Runtime = tokio::runtime::Builder::new_current_thread().enable_all().build().expect("runtime");
}

fn resp_cmd(parts: &[&str]) -> RespValue {
    RespValue::Array(parts.iter().map(|p| RespValue::BulkString(Some(p.as_bytes().to_vec()))).collect())
}

fn cell_of_resp(v: &RespValue) -> Cell {
    match v {
        RespValue::Null | RespValue::BulkString(None) => Cell::Null,
        RespValue::Integer(i) => Cell::Int(*i),
        RespValue::BulkString(Some(b)) => {
            let s = String::from_utf8_lossy(b).to_string();
            if let Some(rest) = s.strip_prefix("Node(NodeId(") {
                if let Ok(id) = rest.trim_end_matches(')').parse::<u64>() {
                    return Cell::Node(id);
                }
            }
            Cell::Text(s)
        }
        other => Cell::Other(format!("{:?}", other).chars().take(60).collect()),
    }
}
fn out_of_resp(v: &RespValue) -> Out {
    match v {
        RespValue::Error(e) => Out::Refused(e.clone()),
        RespValue::Array(rows) if !rows.is_empty() => {
            let columns: Vec<String> = match &rows[0] {
                RespValue::Array(h) => h.iter().map(|c| c.as_string().ok().flatten().unwrap_or_default()).collect(),
                _ => vec![],
            };
            let mut bag: Vec<Vec<Cell>> = rows[1..]
                .iter()
                .map(|r| match r {
                    RespValue::Array(cells) => cells.iter().map(cell_of_resp).collect(),
                    other => vec![Cell::Other(format!("{:?}", other))],
                })
                .collect();
            bag.sort();
            Out::Rows { columns, bag }
        }
        other => Out::Rows { columns: vec![format!("<unexpected reply {:?}>", other)], bag: vec![] },
    }
}

/// (ii) RESP GRAPH.QUERY through the command handler (fresh handler: no parse cache carried over).
fn run_resp(text: &str, g: GraphStore) -> RouteResult {
    let store = Arc::new(RwLock::new(g));
    let r = guarded(|| {
        RT.with(|rt| {
            rt.block_on(async {
                let h = CommandHandler::new(None);
                h.handle_command(&resp_cmd(&["GRAPH.QUERY", "default", text]), &store).await
            })
        })
    });
    let out = match r {
        Ok(v) => out_of_resp(&v),
        Err(p) => Out::Refused(format!("PANIC {p}")),
    };
    let d = RT.with(|rt| rt.block_on(async { dump(&*store.read().await) }));
    RouteResult { out, dump_after: d }
}

fn cell_of_json(v: &J) -> Cell {
    match v {
        J::Null => Cell::Null,
        J::Number(n) if n.is_i64() => Cell::Int(n.as_i64().unwrap()),
        J::String(s) => Cell::Text(s.clone()),
        J::Object(o) if o.contains_key("id") && o.contains_key("labels") => o["id"].as_str().and_then(|s| s.parse::<u64>().ok()).map(Cell::Node).unwrap_or(Cell::Other(v.to_string())),
        other => Cell::Other(other.to_string().chars().take(60).collect()),
    }
}
fn out_of_http(status: u16, body: &J) -> Out {
    if status != 200 {
        return Out::Refused(format!("HTTP {status}: {}", body["error"].as_str().unwrap_or(&body.to_string())));
    }
    let columns: Vec<String> = body["columns"].as_array().map(|a| a.iter().map(|c| c.as_str().unwrap_or("").to_string()).collect()).unwrap_or_default();
    let mut bag: Vec<Vec<Cell>> = body["records"].as_array().map(|rows| rows.iter().map(|r| r.as_array().map(|cs| cs.iter().map(cell_of_json).collect()).unwrap_or_default()).collect()).unwrap_or_default();
    bag.sort();
    Out::Rows { columns, bag }
}

/// (iii) HTTP POST /api/query through the shipped router (fresh router: fresh QueryEngine).
fn run_http(text: &str, g: GraphStore) -> RouteResult {
    let store = Arc::new(RwLock::new(g));
    let st2 = Arc::clone(&store);
    let payload = json!({ "query": text }).to_string();
    let r = guarded(|| {
        RT.with(|rt| {
            rt.block_on(async {
                let app = HttpServer::new(st2, 0).router();
                let req = Request::builder().method("POST").uri("/api/query").header("content-type", "application/json").body(Body::from(payload)).unwrap();
                let resp = app.oneshot(req).await.expect("infallible");
                let status = resp.status().as_u16();
                let bytes = resp.into_body().collect().await.map(|b| b.to_bytes()).unwrap_or_default();
                let body: J = serde_json::from_slice(&bytes).unwrap_or(json!({"error": String::from_utf8_lossy(&bytes).to_string()}));
                (status, body)
            })
        })
    });
    let out = match r {
        Ok((s, b)) => out_of_http(s, &b),
        Err(p) => Out::Refused(format!("PANIC {p}")),
    };
    let d = RT.with(|rt| rt.block_on(async { dump(&*store.read().await) }));
    RouteResult { out, dump_after: d }
}

// ---------------------------------------------------------------- comparison

struct Verdict {
    vios: Vec<(String, String)>,
    engine_ok: bool,
    engine_write: bool,
    nontrivial: bool,
}

/// Region of a case as far as routing can depend on it: which clause opens the statement,
/// which write clause it contains, and whether that write keyword stands between plain spaces.
fn region_of(sk: &Skeleton, delim: &str) -> String {
    let opens = sk.clauses[0].kw.replace(' ', "_");
    format!("opens_with={}:write={}:write_kw_delim={}", opens, sk.write.replace(' ', "_"), delim)
}

fn kw_delim(skel: &Skeleton, sep_clause: usize, sep_kw: usize) -> &'static str {
    // is the first write keyword of the statement delimited by plain spaces on both sides?
    let idx = skel.clauses.iter().position(|c| WRITES.contains(&c.kw));
    match idx {
        None => "no_write_kw",
        Some(0) => {
            if sep_kw == 0 {
                "space"
            } else {
                "nonspace"
            }
        }
        Some(_) => {
            if sep_clause == 0 && sep_kw == 0 {
                "space"
            } else {
                "nonspace"
            }
        }
    }
}

fn compare(fe: &str, eng: &RouteResult, engine_write: bool, pre: &str, got: &RouteResult, region: &str, text: &str) -> Vec<(String, String)> {
    let mut v = vec![];
    let shown = text.replace('\n', "\\n").replace('\t', "\\t");
    match (&eng.out, &got.out) {
        (Out::Rows { .. }, Out::Refused(e)) => v.push((format!("{fe}:refused_but_engine_runs:{region}"), format!("`{shown}`: engine {} BUT {fe} {}", eng.out.show(), Out::Refused(e.clone()).show()))),
        (Out::Refused(e), Out::Rows { .. }) => v.push((format!("{fe}:runs_but_engine_refuses:{region}"), format!("`{shown}`: engine refused ({}) BUT {fe} {}", e.chars().take(120).collect::<String>(), got.out.show()))),
        (Out::Rows { columns: c1, bag: b1 }, Out::Rows { columns: c2, bag: b2 }) => {
            if c1 != c2 {
                v.push((format!("{fe}:columns_differ:{region}"), format!("`{shown}`: engine columns {:?} BUT {fe} {:?}", c1, c2)));
            } else if b1 != b2 {
                v.push((format!("{fe}:rows_differ:{region}"), format!("`{shown}`: engine {} BUT {fe} {}", eng.out.show(), got.out.show())));
            }
        }
        _ => {}
    }
    if got.dump_after != eng.dump_after {
        // attribute: routed as a read and yet changed / effect differs
        let sym = if !engine_write && got.dump_after != pre { "read_modified_graph" } else { "effect_differs" };
        if !(matches!(got.out, Out::Refused(_)) && matches!(eng.out, Out::Rows { .. }) && got.dump_after == pre) {
            // (a refusal that left the graph untouched is already reported as refused_but_engine_runs)
            v.push((format!("{fe}:{sym}:{region}"), format!("`{shown}`: graph after engine = {} BUT after {fe} = {}", eng.dump_after, got.dump_after)));
        }
    }
    if let Out::Refused(e) = &got.out {
        if e.contains(WRITE_PLAN_MSG) && got.dump_after != pre {
            v.push((format!("{fe}:read_route_modified_graph:{region}"), format!("`{shown}`: routed as a read ({e}) yet the graph changed: {} -> {}", pre, got.dump_after)));
        }
    }
    v
}

fn judge(c: &Case, skels: &[Skeleton]) -> Verdict {
    let sk = &skels[c.skel];
    let pre = dump(&fixture(c.graph));
    let (eng, engine_write) = run_engine(&c.text, fixture(c.graph));
    let resp = run_resp(&c.text, fixture(c.graph));
    let http = run_http(&c.text, fixture(c.graph));
    let region = region_of(sk, kw_delim(sk, c.sep_clause, c.sep_kw));
    let mut vios = compare("resp", &eng, engine_write, &pre, &resp, &region, &c.text);
    vios.extend(compare("http", &eng, engine_write, &pre, &http, &region, &c.text));
    if !engine_write && eng.dump_after != pre {
        vios.push((format!("engine:read_modified_graph:{region}"), format!("`{}`: the engine's read executor changed the graph", c.text)));
    }
    let engine_ok = matches!(eng.out, Out::Rows { .. });
    let nontrivial = engine_ok && (matches!(&eng.out, Out::Rows { bag, .. } if !bag.is_empty()) || eng.dump_after != pre);
    Verdict { vios, engine_ok, engine_write, nontrivial }
}

fn all_cases(skels: &[Skeleton], nseps: usize, nprefix: usize, ngraphs: usize) -> Vec<Case> {
    let mut v = vec![];
    for (si, s) in skels.iter().enumerate() {
        for case in 0..CASES.len() {
            for sc in 0..nseps {
                for sk in 0..nseps {
                    for pf in 0..nprefix {
                        let text = format!("{}{}", PREFIXES[pf].1, render(s, case, SEPS[sc].1, SEPS[sk].1));
                        for graph in 0..ngraphs {
                            v.push(Case { skel: si, case, sep_clause: sc, sep_kw: sk, prefix: pf, graph, text: text.clone() });
                        }
                    }
                }
            }
        }
    }
    v
}

fn case_json(c: &Case, skels: &[Skeleton]) -> J {
    let s = &skels[c.skel];
    json!({"statement": c.text, "graph": GRAPHS[c.graph], "lead": s.lead, "write": s.write, "position": s.pos, "case": CASES[c.case], "sep_clause": SEPS[c.sep_clause].0, "sep_kw": SEPS[c.sep_kw].0, "leading_white_space": PREFIXES[c.prefix].0})
}

// ---------------------------------------------------------------- the real server (conformance subset)

struct Server {
    child: std::process::Child,
    resp_port: u16,
    http_port: u16,
    dir: std::path::PathBuf,
}
impl Drop for Server {
    fn drop(&mut self) {
        let _ = self.child.kill();
        let _ = self.child.wait();
        let _ = std::fs::remove_dir_all(&self.dir);
    }
}
fn free_port() -> u16 {
    std::net::TcpListener::bind("127.0.0.1:0").map(|l| l.local_addr().unwrap().port()).unwrap_or(0)
}
fn start_server() -> Result<Server, String> {
    let exe = std::env::current_exe().map_err(|e| e.to_string())?;
    let shim = exe.parent().unwrap().join("samyama_server_shim");
    if !shim.exists() {
        return Err(format!("{} not built", shim.display()));
    }
    let dir = std::path::PathBuf::from(format!("/verif/target/tmp/c23-{}-{}", std::process::id(), free_port()));
    std::fs::create_dir_all(&dir).map_err(|e| e.to_string())?;
    let (rp, hp) = (free_port(), free_port());
    let child = std::process::Command::new(&shim)
        .args(["--data-path", dir.join("data").to_str().unwrap(), "--port", &rp.to_string(), "--http-port", &hp.to_string()])
        .current_dir(&dir)
        .stdin(std::process::Stdio::null())
        .stdout(std::process::Stdio::null())
        .stderr(std::process::Stdio::null())
        .spawn()
        .map_err(|e| e.to_string())?;
    let srv = Server { child, resp_port: rp, http_port: hp, dir };
    let deadline = std::time::Instant::now() + std::time::Duration::from_secs(40);
    loop {
        let a = std::net::TcpStream::connect(("127.0.0.1", rp)).is_ok();
        let b = std::net::TcpStream::connect(("127.0.0.1", hp)).is_ok();
        if a && b {
            return Ok(srv);
        }
        if std::time::Instant::now() > deadline {
            return Err(format!("server did not open its ports (resp {a}, http {b})"));
        }
        std::thread::sleep(std::time::Duration::from_millis(100));
    }
}
fn tcp_resp(port: u16, parts: &[&str]) -> Result<RespValue, String> {
    let mut s = std::net::TcpStream::connect(("127.0.0.1", port)).map_err(|e| e.to_string())?;
    s.set_read_timeout(Some(std::time::Duration::from_secs(20))).ok();
    let mut buf = vec![];
    resp_cmd(parts).encode(&mut buf).map_err(|e| e.to_string())?;
    s.write_all(&buf).map_err(|e| e.to_string())?;
    let mut acc = BytesMut::new();
    let mut chunk = [0u8; 4096];
    loop {
        let mut probe = acc.clone();
        match RespValue::decode(&mut probe) {
            Ok(Some(v)) => return Ok(v),
            Ok(None) => {}
            Err(e) => return Err(format!("decode: {e}")),
        }
        let n = s.read(&mut chunk).map_err(|e| e.to_string())?;
        if n == 0 {
            return Err("connection closed before a full reply".into());
        }
        acc.extend_from_slice(&chunk[..n]);
    }
}
fn tcp_http(port: u16, text: &str) -> Result<(u16, J), String> {
    let mut s = std::net::TcpStream::connect(("127.0.0.1", port)).map_err(|e| e.to_string())?;
    s.set_read_timeout(Some(std::time::Duration::from_secs(20))).ok();
    let body = json!({ "query": text }).to_string();
    let req = format!("POST /api/query HTTP/1.1\r\nHost: 127.0.0.1\r\nContent-Type: application/json\r\nContent-Length: {}\r\nConnection: close\r\n\r\n{}", body.len(), body);
    s.write_all(req.as_bytes()).map_err(|e| e.to_string())?;
    let mut all = vec![];
    s.read_to_end(&mut all).map_err(|e| e.to_string())?;
    let txt = String::from_utf8_lossy(&all).to_string();
    let status: u16 = txt.split_whitespace().nth(1).and_then(|x| x.parse().ok()).ok_or("no status line")?;
    let (head, payload) = txt.split_once("\r\n\r\n").ok_or("no header end")?;
    let payload = if head.to_ascii_lowercase().contains("transfer-encoding: chunked") {
        // de-chunk
        let mut out = String::new();
        let mut rest = payload;
        while let Some((len, tail)) = rest.split_once("\r\n") {
            let n = usize::from_str_radix(len.trim(), 16).unwrap_or(0);
            if n == 0 || tail.len() < n {
                break;
            }
            out.push_str(&tail[..n]);
            rest = tail[n..].trim_start_matches("\r\n");
        }
        out
    } else {
        payload.to_string()
    };
    let j: J = serde_json::from_str(&payload).unwrap_or(json!({ "error": payload }));
    Ok((status, j))
}
const DUMP_QUERIES: [&str; 2] = ["MATCH (n) RETURN labels(n), n.k, n.name, n.v", "MATCH (a)-[r]->(b) RETURN a.k, type(r), b.k"];

fn logical_dump_engine(g: &GraphStore) -> String {
    let mut parts = vec![];
    for q in DUMP_QUERIES {
        let ast = parse_query(q).expect("dump query");
        let b = QueryExecutor::new(g).execute(&ast).expect("dump query runs");
        let mut rows: Vec<String> = b.records.iter().map(|r| b.columns.iter().map(|c| logical_cell_engine(r.get(c))).collect::<Vec<_>>().join(",")).collect();
        rows.sort();
        parts.push(rows.join(";"));
    }
    parts.join(" | ")
}
fn logical_cell_engine(v: Option<&Value>) -> String {
    match v {
        None | Some(Value::Null) | Some(Value::Property(PropertyValue::Null)) => "null".into(),
        Some(Value::Property(PropertyValue::Integer(i))) => i.to_string(),
        Some(Value::Property(PropertyValue::String(s))) => s.clone(),
        Some(Value::Property(PropertyValue::Array(a))) => {
            let mut x: Vec<String> = a.iter().map(|p| match p {
                PropertyValue::String(s) => s.clone(),
                o => format!("{:?}", o),
            }).collect();
            x.sort();
            format!("[{}]", x.join("+"))
        }
        Some(Value::List(a)) => {
            let mut x: Vec<String> = a.iter().map(|p| logical_cell_engine(Some(p))).collect();
            x.sort();
            format!("[{}]", x.join("+"))
        }
        Some(o) => format!("{:?}", o),
    }
}
fn logical_cell_resp(v: &RespValue) -> String {
    match v {
        RespValue::Null | RespValue::BulkString(None) => "null".into(),
        RespValue::Integer(i) => i.to_string(),
        RespValue::BulkString(Some(b)) => {
            let s = String::from_utf8_lossy(b).to_string();
            // the dump is the measuring instrument: a null property may arrive as the text "Null"
            // (reported on its own as resp:rows_differ); no fixture value is that string
            if s == "Null" {
                return "null".into();
            }
            // labels(n) is rendered through Debug of an Array of strings
            if s.starts_with("Array([") {
                let mut x: Vec<String> = s.split("String(\"").skip(1).filter_map(|p| p.split('"').next().map(|z| z.to_string())).collect();
                x.sort();
                return format!("[{}]", x.join("+"));
            }
            s
        }
        RespValue::Array(a) => {
            let mut x: Vec<String> = a.iter().map(logical_cell_resp).collect();
            x.sort();
            format!("[{}]", x.join("+"))
        }
        o => format!("{:?}", o),
    }
}
fn logical_dump_server(port: u16) -> Result<String, String> {
    let mut parts = vec![];
    for q in DUMP_QUERIES {
        let v = tcp_resp(port, &["GRAPH.QUERY", "default", q])?;
        let rows = match &v {
            RespValue::Array(rows) if !rows.is_empty() => rows[1..].to_vec(),
            // a reply without even the header row: no rows (the shape itself is judged on the statements)
            RespValue::Array(_) => vec![],
            RespValue::Error(e) => return Err(format!("dump query refused: {e}")),
            o => return Err(format!("dump query reply {:?}", o)),
        };
        let mut out: Vec<String> = rows
            .iter()
            .map(|r| match r {
                RespValue::Array(cells) => cells.iter().map(logical_cell_resp).collect::<Vec<_>>().join(","),
                o => format!("{:?}", o),
            })
            .collect();
        out.sort();
        parts.push(out.join(";"));
    }
    Ok(parts.join(" | "))
}

/// Replay a fixed subset over the real server; compare class, row count / scalar cells and the
/// logical dump (labels, k, name, v per node; (k, type, k) per relationship) with the engine.
fn server_conformance(ctx: &Ctx, skels: &[Skeleton]) {
    let srv = match start_server() {
        Ok(s) => s,
        Err(e) => ctx.machinery(&format!("cannot start samyama_server_shim: {e}")),
    };
    // subset: every (lead, write) at position last and middle, mixed case, newline between clauses,
    // space after keywords; plus the bare reads
    let subset: Vec<(usize, String)> = skels
        .iter()
        .enumerate()
        .filter(|(_, s)| ctx.tier == svmc::Tier::Thorough || s.pos == "last" || s.pos == "read" || (s.pos == "middle" && s.lead == "UNWIND"))
        .map(|(i, s)| (i, render(s, 2, "\n", " ")))
        .collect();
    let mut ran = 0u64;
    let mut agree = 0u64;
    for fe in ["resp", "http"] {
        for (si, text) in &subset {
            let sk = &skels[*si];
            // reset + fixture through the wire
            let reset = tcp_resp(srv.resp_port, &["GRAPH.DELETE", "default"]);
            if reset.is_err() {
                ctx.machinery(&format!("GRAPH.DELETE failed: {:?}", reset));
            }
            for f in FIXTURE_CYPHER {
                match tcp_resp(srv.resp_port, &["GRAPH.QUERY", "default", f]) {
                    Ok(RespValue::Error(e)) => ctx.machinery(&format!("fixture statement refused by the server: {e}")),
                    Err(e) => ctx.machinery(&format!("fixture statement failed: {e}")),
                    _ => {}
                }
            }
            // the same on the engine
            let mut g = GraphStore::new();
            for f in FIXTURE_CYPHER {
                let q = parse_query(f).expect("fixture parses");
                MutQueryExecutor::new(&mut g, "default".to_string()).execute(&q).expect("fixture runs");
            }
            let pre = logical_dump_engine(&g);
            let (eng, _w) = run_engine(text, g);
            // run_engine consumed the store: rebuild to obtain the logical post dump
            let mut g2 = GraphStore::new();
            for f in FIXTURE_CYPHER {
                let q = parse_query(f).expect("fixture parses");
                MutQueryExecutor::new(&mut g2, "default".to_string()).execute(&q).expect("fixture runs");
            }
            if let Ok(q) = parse_query(text) {
                if matches!(eng.out, Out::Rows { .. }) || _w {
                    let _ = guarded(|| MutQueryExecutor::new(&mut g2, "default".to_string()).execute(&q).map(|_| ()));
                }
            }
            let eng_post = logical_dump_engine(&g2);
            let got: Out = if fe == "resp" {
                match tcp_resp(srv.resp_port, &["GRAPH.QUERY", "default", text]) {
                    Ok(v) => out_of_resp(&v),
                    Err(e) => ctx.machinery(&format!("RESP transport: {e}")),
                }
            } else {
                match tcp_http(srv.http_port, text) {
                    Ok((s, b)) => out_of_http(s, &b),
                    Err(e) => ctx.machinery(&format!("HTTP transport: {e}")),
                }
            };
            let post = match logical_dump_server(srv.resp_port) {
                Ok(d) => d,
                Err(e) => ctx.machinery(&format!("server dump: {e}")),
            };
            ran += 1;
            let region = region_of(sk, kw_delim(sk, 2, 0));
            let shown = text.replace('\n', "\\n");
            let mut ok = true;
            if eng.out.class() != got.class() {
                ok = false;
                let sym = if got.class() == "refused" { "refused_but_engine_runs" } else { "runs_but_engine_refuses" };
                ctx.violation(&format!("server_{fe}:{sym}:{region}"), format!("real server, `{shown}`: engine {} BUT {fe} {}", eng.out.show(), got.show()), json!({"statement": text, "graph": "small", "route": format!("server_{fe}")}));
            } else if let (Out::Rows { bag: b1, columns: c1 }, Out::Rows { bag: b2, columns: c2 }) = (&eng.out, &got) {
                if b1 != b2 || c1 != c2 {
                    ok = false;
                    ctx.violation(&format!("server_{fe}:rows_differ:{region}"), format!("real server, `{shown}`: engine {} BUT {fe} {}", eng.out.show(), got.show()), json!({"statement": text, "graph": "small", "route": format!("server_{fe}")}));
                }
            }
            if post != eng_post && !(got.class() == "refused" && eng.out.class() == "rows" && post == pre) {
                ok = false;
                ctx.violation(&format!("server_{fe}:effect_differs:{region}"), format!("real server, `{shown}`: graph after engine = {eng_post} BUT after {fe} = {post}"), json!({"statement": text, "graph": "small", "route": format!("server_{fe}")}));
            }
            if ok {
                agree += 1;
            }
        }
    }
    ctx.cov("real_server_cases", ran);
    ctx.cov("real_server_cases_agreeing", agree);
    drop(srv);
}

// ---------------------------------------------------------------- main

fn main() {
    run_check("C23", Level::Exploration, |ctx| {
        let skels = skeletons(ctx.tier == svmc::Tier::Thorough || ctx.replay.is_some());
        if let Some(p) = ctx.replay.clone() {
            replay(ctx, &skels, &p);
            return;
        }
        let (nseps, nprefix, ngraphs) = ctx.tier.pick((3, 1, 2), (5, 3, 3));
        let cases = all_cases(&skels, nseps, nprefix, ngraphs);
        let verdicts: Vec<Verdict> = cases.par_iter().map(|c| judge(c, &skels)).collect();
        let mut engine_ok = 0u64;
        let mut engine_write = 0u64;
        let mut nontrivial: BTreeSet<(usize, usize)> = BTreeSet::new();
        let mut distinct_texts: BTreeSet<&str> = BTreeSet::new();
        let mut cases_with_violation = 0u64;
        for (c, v) in cases.iter().zip(&verdicts) {
            distinct_texts.insert(c.text.as_str());
            if v.engine_ok {
                engine_ok += 1;
            }
            if v.engine_write {
                engine_write += 1;
            }
            if v.nontrivial {
                nontrivial.insert((c.skel, c.graph));
            }
            if !v.vios.is_empty() {
                cases_with_violation += 1;
            }
            for (sig, msg) in &v.vios {
                let mut w = case_json(c, &skels);
                w["route"] = json!(sig.split(':').next().unwrap_or(""));
                ctx.violation(sig, msg.clone(), w);
            }
        }
        // samples
        for i in [0usize, cases.len() / 3, cases.len() / 2, cases.len() - 1] {
            ctx.sample(case_json(&cases[i], &skels));
        }
        let card = skels.len() * CASES.len() * nseps * nseps * nprefix * ngraphs;
        ctx.cov("generator_cardinality", card as u64);
        ctx.cov("evaluations", cases.len() as u64);
        ctx.cov("route_executions", 3 * cases.len() as u64);
        ctx.cov("exhaustive", card == cases.len());
        ctx.cov("skeletons", skels.len() as u64);
        ctx.cov("distinct_statement_texts", distinct_texts.len() as u64);
        ctx.cov("engine_executes", engine_ok);
        ctx.cov("engine_refuses", cases.len() as u64 - engine_ok);
        ctx.cov("engine_runs_as_write", engine_write);
        ctx.cov("distinct_nontrivial", nontrivial.len() as u64);
        ctx.cov("rule", "a (statement skeleton, graph) pair is non-trivial if the engine executes it and it returns >= 1 row or changes the graph; counted over distinct pairs");
        ctx.cov("cases_with_a_difference", cases_with_violation);
        ctx.cov("grammar", json!({"leading": LEADS, "write": WRITES, "position": POSITIONS, "case": CASES, "separator_between_clauses": SEPS[..nseps].iter().map(|x| x.0).collect::<Vec<_>>(), "separator_after_keywords": SEPS[..nseps].iter().map(|x| x.0).collect::<Vec<_>>(), "leading_white_space": PREFIXES[..nprefix].iter().map(|x| x.0).collect::<Vec<_>>(), "graphs": GRAPHS[..ngraphs].to_vec()}));
        ctx.assume("the engine is the oracle: read executor first, the write executor when the engine's own planner reports a write plan");
        ctx.assume("cells compared: integers, strings, nulls and node identities (RESP renders a node as Node(NodeId(k)), HTTP as an object with id); the generated statements return nothing else, so every cell is compared; RESP cannot distinguish a string from a rendered float/boolean, none is generated");
        ctx.assume("each statement runs on a fresh store, a fresh CommandHandler and a fresh router, so the parsed-query cache (C03) cannot influence the outcome");
        ctx.assume("statements the engine refuses must be refused by both front ends as well; refusal messages are not compared");
        if std::env::var("C23_NO_SERVER").is_err() {
            server_conformance(ctx, &skels);
        }
    });
}

fn replay(ctx: &Ctx, skels: &[Skeleton], p: &std::path::Path) {
    let doc: J = serde_json::from_str(&std::fs::read_to_string(p).expect("read replay")).expect("json");
    let w = &doc["witness"];
    let text = w["statement"].as_str().unwrap_or_else(|| ctx.machinery("replay: no statement")).to_string();
    let graph = GRAPHS.iter().position(|g| Some(*g) == w["graph"].as_str()).unwrap_or(1);
    println!("statement: {:?}\ngraph: {}", text, GRAPHS[graph]);
    let pre = dump(&fixture(graph));
    let (eng, ew) = run_engine(&text, fixture(graph));
    let resp = run_resp(&text, fixture(graph));
    let http = run_http(&text, fixture(graph));
    println!("graph before         : {pre}");
    println!("expected (engine)    : {}   [engine ran it as a {}]", eng.out.show(), if ew { "write" } else { "read" });
    println!("expected graph after : {}", eng.dump_after);
    println!("observed RESP        : {}", resp.out.show());
    println!("observed RESP graph  : {}", resp.dump_after);
    println!("observed HTTP        : {}", http.out.show());
    println!("observed HTTP graph  : {}", http.dump_after);
    // find the skeleton for the region
    let region = skels
        .iter()
        .enumerate()
        .find_map(|(si, s)| {
            for case in 0..3 {
                for sc in 0..SEPS.len() {
                    for sk in 0..SEPS.len() {
                        if render(s, case, SEPS[sc].1, SEPS[sk].1) == text.trim_start() {
                            let _ = si;
                            return Some(region_of(s, kw_delim(s, sc, sk)));
                        }
                    }
                }
            }
            None
        })
        .unwrap_or_else(|| "adhoc".to_string());
    for (sig, msg) in compare("resp", &eng, ew, &pre, &resp, &region, &text).into_iter().chain(compare("http", &eng, ew, &pre, &http, &region, &text)) {
        println!("  MISMATCH [{sig}] {msg}");
        ctx.violation(&sig, msg, w.clone());
    }
}
