//! C35 — parameterized queries never answer differently from inlined literals.
//! Differential, exhaustive over (query, literal position, value, graph): the query with the
//! literal written in the text vs the same query with `$p` in that position and the value passed
//! through `with_params`. No reference evaluator is involved: the engine's literal run is the oracle.
#[path = "../cy/ast.rs"]
mod ast;
#[path = "../cy/classify.rs"]
mod classify;
#[path = "../cy/eval.rs"]
mod eval;
#[path = "../cy/gen.rs"]
mod gen;
#[path = "../cy/gen_write.rs"]
mod gen_write;
#[path = "../cy/judge.rs"]
mod judge;

use ast::*;
use judge::EngineOut;
use rayon::prelude::*;
use serde_json::json;
use std::collections::BTreeMap;
use svmc::model::graph::{build, dump, RefGraph};
use svmc::model::values::LV;
use svmc::{run_check, Level, Tier};

// ---- literal positions -------------------------------------------------------------------
/// Visit every literal expression of the query in a fixed order; `f(kind, expr)` may replace it.
fn visit_lits(q: &mut Query, f: &mut dyn FnMut(&'static str, &mut Expr)) {
    fn ex(e: &mut Expr, kind: &'static str, f: &mut dyn FnMut(&'static str, &mut Expr)) {
        match e {
            Expr::Lit(_) => f(kind, e),
            Expr::Cmp(_, a, b) | Expr::And(a, b) | Expr::Or(a, b) | Expr::Xor(a, b) | Expr::StrOp(_, a, b) | Expr::Arith(_, a, b) => {
                ex(a, kind, f);
                ex(b, kind, f);
            }
            Expr::In(a, b) => {
                ex(a, kind, f);
                ex(b, if kind == "where" { "where_in_list" } else { kind }, f);
            }
            Expr::Not(a) | Expr::IsNull(a, _) => ex(a, kind, f),
            Expr::List(_) => {
                // the whole collection is a position too (`UNWIND $p`, `x IN $p`)
                f(if kind == "unwind" { "unwind_whole_list" } else if kind == "where_in_list" { "where_in_whole_list" } else { "whole_list" }, e);
                if let Expr::List(l) = e {
                    let k = if kind == "unwind" { "unwind_list_elem" } else if kind == "where_in_list" { "where_in_list_elem" } else { "list_elem" };
                    for x in l {
                        ex(x, k, f);
                    }
                }
            }
            Expr::Map(_) => {
                // `SET n += $p`, `SET n = $p`, `RETURN $p`
                f(if kind == "set_value" || kind == "merge_set_value" { "set_whole_map" } else { "whole_map" }, e);
                if let Expr::Map(m) = e {
                    for (_, x) in m {
                        ex(x, "map_value", f);
                    }
                }
            }
            Expr::Func(_, args) => {
                for x in args {
                    ex(x, "function_arg", f);
                }
            }
            Expr::Agg(_, _, Some(a)) => ex(a, kind, f),
            Expr::Case(a, b, c) => {
                ex(a, "case", f);
                ex(b, "case", f);
                ex(c, "case", f);
            }
            _ => {}
        }
    }
    fn pat(p: &mut PathPat, kind: &'static str, f: &mut dyn FnMut(&'static str, &mut Expr)) {
        for (_, e) in &mut p.start.props {
            ex(e, kind, f);
        }
        for (r, n) in &mut p.steps {
            for (_, e) in &mut r.props {
                ex(e, kind, f);
            }
            for (_, e) in &mut n.props {
                ex(e, kind, f);
            }
        }
    }
    fn proj(p: &mut Proj, kind: &'static str, f: &mut dyn FnMut(&'static str, &mut Expr)) {
        for i in &mut p.items {
            ex(&mut i.expr, kind, f);
        }
        for (e, _) in &mut p.order {
            ex(e, if kind == "with_item" { "with_order_by" } else { "return_order_by" }, f);
        }
        if let Some(s) = &mut p.skip {
            ex(s, "skip", f);
        }
        if let Some(l) = &mut p.limit {
            ex(l, "limit", f);
        }
        if let Some(w) = &mut p.where_ {
            ex(w, "with_where", f);
        }
    }
    for c in &mut q.clauses {
        match c {
            Clause::Match { pats, where_, .. } => {
                for p in pats {
                    pat(p, "match_pattern_property", f);
                }
                if let Some(w) = where_ {
                    ex(w, "where", f);
                }
            }
            Clause::Unwind { list, .. } => ex(list, "unwind", f),
            Clause::With(p) => proj(p, "with_item", f),
            Clause::Return(p) => proj(p, "return_item", f),
            Clause::Create(pats) => {
                for p in pats {
                    pat(p, "create_pattern_property", f);
                }
            }
            Clause::Merge { pat: p, on_create, on_match } => {
                pat(p, "merge_pattern_property", f);
                for it in on_create.iter_mut().chain(on_match.iter_mut()) {
                    if let SetItem::Prop(_, _, e) | SetItem::Replace(_, e) | SetItem::MergeMap(_, e) = it {
                        ex(e, "merge_set_value", f);
                    }
                }
            }
            Clause::Set(items) => {
                for it in items {
                    if let SetItem::Prop(_, _, e) | SetItem::Replace(_, e) | SetItem::MergeMap(_, e) = it {
                        ex(e, "set_value", f);
                    }
                }
            }
            _ => {}
        }
    }
    if let Some((_, rhs)) = &mut q.union {
        visit_lits(rhs, f);
    }
}
/// Names the query binds (pattern variables, UNWIND variables, WITH / RETURN aliases), in order of
/// appearance. A parameter may be called like any of them: `$n` and the variable `n` live in
/// different namespaces, and an evaluator that confuses them answers from the row instead of
/// refusing or using the value (seeded change C35b).
fn bound_names(q: &Query) -> Vec<String> {
    let mut out: Vec<String> = vec![];
    let mut add = |v: &Option<String>| {
        if let Some(v) = v {
            if !out.contains(v) {
                out.push(v.clone());
            }
        }
    };
    for c in &q.clauses {
        match c {
            Clause::Match { pats, .. } | Clause::Create(pats) => {
                for p in pats {
                    add(&p.start.var);
                    for (r, n) in &p.steps {
                        add(&r.var);
                        add(&n.var);
                    }
                }
            }
            Clause::Merge { pat, .. } => {
                add(&pat.start.var);
                for (r, n) in &pat.steps {
                    add(&r.var);
                    add(&n.var);
                }
            }
            Clause::Unwind { var, .. } => add(&Some(var.clone())),
            Clause::With(p) | Clause::Return(p) => {
                for i in &p.items {
                    add(&i.alias);
                }
            }
            _ => {}
        }
    }
    out
}
fn lit_positions(q: &Query) -> Vec<(&'static str, LV)> {
    let mut q = q.clone();
    let mut out = vec![];
    visit_lits(&mut q, &mut |k, e| match e {
        Expr::Lit(v) => out.push((k, v.clone())),
        // a whole list / map literal: the original value is not needed
        _ => out.push((k, LV::Null)),
    });
    out
}
fn replace_lit(q: &Query, idx: usize, new: Expr) -> Query {
    let mut q = q.clone();
    let mut i = 0;
    visit_lits(&mut q, &mut |_, e| {
        if i == idx {
            *e = new.clone();
        }
        i += 1;
    });
    q
}

/// Sort keys that contain a literal (the C01 grammar only sorts by plain properties). The LIMIT 1
/// after the sort makes the effect of the key visible in the row set, so no assumption about the
/// order of ties is needed.
fn order_by_queries() -> Vec<(&'static str, Query)> {
    let mul = |a: Expr, b: Expr| Expr::Arith(ArOp::Mul, Box::new(a), Box::new(b));
    let m = |l: &str| Clause::Match { optional: false, pats: vec![PathPat::node(NodePat::v("n").l(l))], where_: None };
    let mut out = vec![];
    for (desc, dn) in [(false, "asc"), (true, "desc")] {
        let mut w = Proj::of(vec![(var("n"), None)]);
        w.order = vec![(mul(prop("n", "p"), lit_i(1)), desc)];
        w.limit = Some(lit_i(1));
        out.push((if desc { "with_order_by_expr_desc" } else { "with_order_by_expr_asc" }, Query::new(vec![m("A"), Clause::With(w), Clause::Return(Proj::of(vec![(prop("n", "p"), Some("v"))]))])));
        let mut w = Proj::of(vec![(prop("n", "p"), Some("v"))]);
        w.order = vec![(mul(var("v"), lit_i(1)), desc)];
        w.limit = Some(lit_i(1));
        out.push((if desc { "with_order_by_alias_expr_desc" } else { "with_order_by_alias_expr_asc" }, Query::new(vec![m("A"), Clause::With(w), Clause::Return(Proj::of(vec![(var("v"), None)]))])));
        let mut r = Proj::of(vec![(prop("n", "p"), Some("v"))]);
        r.order = vec![(mul(prop("n", "p"), lit_i(1)), desc)];
        r.limit = Some(lit_i(1));
        out.push((if desc { "return_order_by_expr_desc" } else { "return_order_by_expr_asc" }, Query::new(vec![m("A"), Clause::Return(r)])));
        let _ = dn;
    }
    out
}

fn values() -> Vec<LV> {
    let mut m = BTreeMap::new();
    m.insert("a".to_string(), LV::Int(1));
    vec![LV::Int(0), LV::Int(1), LV::Int(-1), LV::f(1.5), LV::s("x"), LV::s(""), LV::Bool(true), LV::Null, LV::List(vec![LV::Int(1), LV::Int(2)]), LV::Map(m)]
}
fn vtype(v: &LV) -> &'static str {
    match v {
        LV::Null => "null",
        LV::Bool(_) => "bool",
        LV::Int(_) => "int",
        LV::Float(_) => "float",
        LV::Str(_) => "string",
        LV::List(_) => "list",
        LV::Map(_) => "map",
        _ => "other",
    }
}

fn graphs() -> Vec<(&'static str, RefGraph)> {
    let mut out = gen_write::start_graphs();
    let mut g = RefGraph::new();
    let a = g.add_node(&["A"], &[("p", LV::Int(1))]);
    let b = g.add_node(&["B"], &[("p", LV::s("x"))]);
    let c = g.add_node(&["A", "B"], &[("p", LV::Int(2))]);
    g.add_rel(a, b, "R", &[("w", LV::Int(1))]);
    g.add_rel(b, c, "R", &[]);
    g.add_rel(a, c, "S", &[]);
    g.add_rel(c, c, "R", &[]);
    out.push(("mixed3", g));
    out
}

fn sorted(mut v: Vec<Vec<LV>>) -> Vec<Vec<LV>> {
    v.sort();
    v
}

#[derive(Default)]
struct Tally {
    evaluations: u64,
    compared: u64,
    param_refused: u64,
    both_err: u64,
    groups: BTreeMap<String, (u64, String, serde_json::Value)>,
    by_kind: BTreeMap<String, u64>,
}

fn silence_stderr() {
    unsafe {
        let fd = libc::open(b"/dev/null\0".as_ptr() as *const libc::c_char, libc::O_WRONLY);
        if fd >= 0 {
            libc::dup2(fd, 2);
        }
    }
}

fn add_indexes(store: &mut samyama::graph::GraphStore) {
    for ddl in ["CREATE INDEX ON :A(p)", "CREATE INDEX ON :B(p)"] {
        let pq = judge::parse(ddl).expect("index DDL parses");
        match judge::run_write(store, &pq, &BTreeMap::new()) {
            EngineOut::Rows(_) => {}
            o => panic!("index DDL refused: {o:?}"),
        }
    }
}
fn run_one(is_write: bool, indexed: bool, g: &RefGraph, text: &str, params: &BTreeMap<String, LV>) -> (EngineOut, Option<RefGraph>) {
    let pq = match judge::parse(text) {
        Ok(p) => p,
        Err(e) => return (EngineOut::Err(e), None),
    };
    if is_write {
        let (mut store, _) = build(g, None);
        if indexed {
            add_indexes(&mut store);
        }
        let out = judge::run_write(&mut store, &pq, params);
        let d = dump(&store);
        (out, Some(d))
    } else {
        let (mut store, _) = build(g, Some(1));
        if indexed {
            add_indexes(&mut store);
        }
        (if params.is_empty() { judge::run_read(&store, &pq) } else { judge::run_read_params(&store, &pq, params) }, None)
    }
}

fn main() {
    run_check("C35", Level::Exploration, |ctx| {
        silence_stderr();
        let thorough = ctx.tier == Tier::Thorough;
        // queries: every k-th read query of the C01 grammar (all in thorough) + all write statements
        let reads = gen::queries(false);
        let stride = if thorough { 1 } else { 8 };
        let mut qs: Vec<(String, Query, bool)> = reads.into_iter().step_by(stride).map(|g| (g.name, g.q, false)).collect();
        for (name, q) in order_by_queries() {
            qs.push((name.to_string(), q, false));
        }
        for s in gen_write::statements() {
            qs.push((s.name.to_string(), s.q, true));
        }
        let gs = graphs();
        let gs: Vec<_> = if thorough { gs } else { gs.into_iter().filter(|(n, _)| ["A1-R->B2", "mixed3", "A1_A2_n1"].contains(n)).collect() };
        let vals = values();
        if let Some(p) = &ctx.replay {
            let doc: serde_json::Value = serde_json::from_str(&std::fs::read_to_string(p).expect("read")).expect("json");
            let w = &doc["witness"];
            let g = &graphs().into_iter().find(|(n, _)| *n == w["graph"].as_str().unwrap()).unwrap().1;
            let is_write = w["write"].as_bool().unwrap();
            let vi = w["value_index"].as_u64().unwrap() as usize;
            let indexed = w["indexed"].as_bool().unwrap_or(false);
            let mut params = BTreeMap::new();
            params.insert(w["param_name"].as_str().unwrap_or("p").to_string(), values()[vi].clone());
            println!("graph   : {}", g.describe());
            println!("literal : {}\n  -> {:?}", w["literal_query"].as_str().unwrap(), run_one(is_write, indexed, g, w["literal_query"].as_str().unwrap(), &BTreeMap::new()));
            println!("param   : {} with $p = {}\n  -> {:?}", w["param_query"].as_str().unwrap(), values()[vi].lit(), run_one(is_write, indexed, g, w["param_query"].as_str().unwrap(), &params));
            return;
        }
        let tally = qs
            .par_iter()
            .map(|(name, q, is_write)| {
                let mut t = Tally::default();
                let pos = lit_positions(q);
                // parameter names: a neutral one, and the first two names the query itself binds
                let mut pnames: Vec<String> = vec!["p".to_string()];
                pnames.extend(bound_names(q).into_iter().filter(|n| n != "p").take(2));
                for (idx, (kind, _orig)) in pos.iter().enumerate() {
                    for (vi, v, pname) in vals.iter().enumerate().flat_map(|(vi, v)| pnames.iter().map(move |n| (vi, v, n))) {
                        let lit_q = replace_lit(q, idx, Expr::Lit(v.clone())).print();
                        let par_q = replace_lit(q, idx, Expr::Param(pname.clone())).print();
                        let mut params = BTreeMap::new();
                        params.insert(pname.clone(), v.clone());
                        for (gname, g, indexed) in gs.iter().flat_map(|(n, g)| [(n, g, false), (n, g, true)]) {
                            let indexed: bool = indexed;
                            t.evaluations += 1;
                            *t.by_kind.entry(kind.to_string()).or_default() += 1;
                            let (lo, lg) = run_one(*is_write, indexed, g, &lit_q, &BTreeMap::new());
                            let (po, pg) = run_one(*is_write, indexed, g, &par_q, &params);
                            let witness = || json!({"query": name, "literal_query": lit_q, "param_query": par_q, "value": v.lit(), "value_index": vi, "param_name": pname, "graph": gname, "indexed": indexed, "write": is_write, "position": kind});
                            let mut flag = |sym: &str, msg: String| {
                                let sig = format!("{kind}:{}|{sym}{}{}", vtype(v), if indexed { "|indexed" } else { "" }, if pname != "p" { "|param-named-like-a-variable" } else { "" });
                                let e = t.groups.entry(sig).or_insert((0, msg, witness()));
                                e.0 += 1;
                            };
                            match (&lo, &po) {
                                (_, EngineOut::Panic(p)) => flag("param_panic", format!("{par_q} with $p = {} panicked: {p}", v.lit())),
                                (_, EngineOut::Err(_)) => {
                                    if matches!(lo, EngineOut::Err(_)) {
                                        t.both_err += 1;
                                    } else {
                                        t.param_refused += 1;
                                    }
                                }
                                (EngineOut::Rows(lr), EngineOut::Rows(pr)) => {
                                    t.compared += 1;
                                    if sorted(lr.clone()) != sorted(pr.clone()) {
                                        flag("rows_differ", format!("on [{}]: `{lit_q}` -> {:?} but `{par_q}` with $p = {} -> {:?}", g.describe(), lr.iter().take(6).collect::<Vec<_>>(), v.lit(), pr.iter().take(6).collect::<Vec<_>>()));
                                    } else if lg != pg {
                                        flag("effect_differs", format!("on [{}]: `{lit_q}` leaves [{}] but `{par_q}` with $p = {} leaves [{}]", g.describe(), lg.as_ref().map(|x| x.describe()).unwrap_or_default(), v.lit(), pg.as_ref().map(|x| x.describe()).unwrap_or_default()));
                                    }
                                }
                                (EngineOut::Err(le), EngineOut::Rows(pr)) => {
                                    t.compared += 1;
                                    flag("literal_err_param_ok", format!("on [{}]: `{lit_q}` is refused ({}) but `{par_q}` with $p = {} answers {} rows", g.describe(), le.chars().take(80).collect::<String>(), v.lit(), pr.len()));
                                }
                                (EngineOut::Panic(_), EngineOut::Rows(_)) => {}
                            }
                        }
                    }
                }
                t
            })
            .reduce(Tally::default, |mut a, b| {
                a.evaluations += b.evaluations;
                a.compared += b.compared;
                a.param_refused += b.param_refused;
                a.both_err += b.both_err;
                for (k, v) in b.groups {
                    match a.groups.get_mut(&k) {
                        Some(e) => e.0 += v.0,
                        None => {
                            a.groups.insert(k, v);
                        }
                    }
                }
                for (k, v) in b.by_kind {
                    *a.by_kind.entry(k).or_default() += v;
                }
                a
            });
        for (sig, (count, msg, w)) in &tally.groups {
            ctx.violation_n(sig, msg.clone(), w.clone(), *count);
        }
        ctx.cov("evaluations", tally.evaluations);
        ctx.cov("generator_cardinality", json!({"queries": qs.len(), "graphs": gs.len(), "values": vals.len(), "evaluations": tally.evaluations}));
        ctx.cov("distinct_nontrivial", tally.compared);
        ctx.cov("rule", "a case = (query, literal position, value, parameter name [p, or a name the query binds as a variable], graph, with / without property indexes on :A(p) and :B(p)), all distinct; non-trivial when the parameterised run returned rows so that rows (and, for writes, the resulting graph) were compared with the literal run");
        ctx.cov("param_refused", tally.param_refused);
        ctx.cov("both_refused", tally.both_err);
        ctx.cov("cases_per_position_kind", json!(tally.by_kind));
        ctx.cov("exhaustive", true);
        ctx.sample(json!({"literal": "MATCH (a {p: 1}) RETURN a", "param": "MATCH (a {p: $p}) RETURN a", "value": "1"}));
        for (_, q, _) in qs.iter().step_by((qs.len() / 3).max(1)).take(3) {
            if !lit_positions(q).is_empty() {
                ctx.sample(json!({"literal": q.print(), "param": replace_lit(q, 0, Expr::Param("p".into())).print()}));
            }
        }
        ctx.assume("oracle = the engine's own run of the query with the value written as a literal (differential); a parameterised run that is refused is accepted by the property");
    });
}
