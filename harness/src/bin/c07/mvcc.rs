//! Shared explorer of C07 (versioned reads) and C08 (version GC): hx over `GraphStore` with
//! 2 node slots + 1 relationship slot against a reference *versioned map*
//! (per id: list of (version, state-at-the-end-of-that-version | absent)).
//!
//! C07 mode: after every step every (entity, version <= current) read is compared with the
//!   reference (this subsumes "record every read ever taken and re-assert it": the reference value of
//!   a read at an old version never changes), plus the scans / counts at the current version.
//! C08 mode: same alphabet + transactions left active + gc_versions(w) for every w + gc_auto.
//!   Only GC steps are judged, and *differentially* (reads before vs after the collection), so
//!   defects of C07 are not re-reported.
use samyama::graph::{EdgeId, EdgeType, GraphStore, IsolationLevel, Label, NodeId, PropertyMap, PropertyValue};
use samyama::query::{parse_query, Query, QueryExecutor, Value as QV};
use serde_json::{json, Value};
use std::collections::BTreeMap;
use std::sync::atomic::{AtomicU64, Ordering};
use std::sync::Mutex;
use svmc::engine::ctx::guarded;
use svmc::engine::hx::{Model, Step};

#[derive(Clone, Copy, PartialEq, Eq, Debug)]
pub enum Mode {
    C07,
    C08,
}

#[derive(Clone, Debug, PartialEq, Eq, Hash, PartialOrd, Ord)]
pub enum Op {
    CreateNode,
    /// create_edge(src, dst, R)
    CreateEdge(u64, u64),
    /// create_edge_with_properties(src, dst, R, {w: 1})
    CreateEdgeW(u64, u64),
    SetNodeP(u64, i64),
    RemoveNodeP(u64),
    SetEdgeW(u64, i64),
    RemoveEdgeW(u64),
    /// begin + commit a transaction: the only thing that advances current_version
    Bump,
    DeleteEdge(u64),
    DeleteNode(u64),
    // ---- C08 only
    /// begin a transaction and leave it active (true = SnapshotIsolation)
    Begin(bool),
    /// commit the active transaction in this slot
    Commit(u8),
    GcVersions(u64),
    GcAuto,
}

pub fn op_name(op: &Op) -> &'static str {
    match op {
        Op::CreateNode => "CreateNode",
        Op::CreateEdge(..) => "CreateEdge",
        Op::CreateEdgeW(..) => "CreateEdgeW",
        Op::SetNodeP(..) => "SetNodeP",
        Op::RemoveNodeP(..) => "RemoveNodeP",
        Op::SetEdgeW(..) => "SetEdgeW",
        Op::RemoveEdgeW(..) => "RemoveEdgeW",
        Op::Bump => "Bump",
        Op::DeleteEdge(..) => "DeleteEdge",
        Op::DeleteNode(..) => "DeleteNode",
        Op::Begin(..) => "Begin",
        Op::Commit(..) => "Commit",
        Op::GcVersions(..) => "GcVersions",
        Op::GcAuto => "GcAuto",
    }
}

/// What a read of a node returns that the property speaks about: its `p` (the only property of the alphabet).
pub type NObs = Option<i64>;
/// (source, target, w)
pub type EObs = (u64, u64, Option<i64>);

/// One id's history: (version, state at the end of that version; None = does not exist).
#[derive(Clone, Debug, Default, PartialEq, Eq, Hash)]
pub struct Chain<T: Clone> {
    pub entries: Vec<(u64, Option<T>)>,
}
impl<T: Clone> Chain<T> {
    pub fn at(&self, v: u64) -> Option<&T> {
        self.entries.iter().rev().find(|(ver, _)| *ver <= v).and_then(|(_, s)| s.as_ref())
    }
    pub fn set_now(&mut self, cv: u64, s: Option<T>) {
        match self.entries.last_mut() {
            Some((ver, st)) if *ver == cv => *st = s,
            _ => self.entries.push((cv, s)),
        }
    }
}

#[derive(Clone, Debug)]
pub struct RTxn {
    pub tid: u64,
    pub si: bool,
    pub begin: u64,
}

#[derive(Clone, Debug, Default)]
pub struct Ref {
    pub cv: u64,
    pub nodes: BTreeMap<u64, Chain<NObs>>,
    pub edges: BTreeMap<u64, Chain<EObs>>,
    /// version in which the currently live incarnation of a relationship id was created
    pub edge_created: BTreeMap<u64, u64>,
    pub free_nodes: Vec<u64>,
    pub free_edges: Vec<u64>,
    pub next_node: u64,
    pub next_edge: u64,
    pub alloc_diverged: bool,
    pub txns: Vec<Option<RTxn>>,
    /// reads at old versions that already differ from the reference by a *listed known finding*:
    /// the observed value replaces the expectation so exploration can continue behind the finding
    pub overrides: BTreeMap<(char, u64, u64), String>,
    pub hist: Vec<Op>,
}
impl Ref {
    pub fn live_nodes(&self) -> Vec<u64> {
        self.nodes.iter().filter(|(_, c)| c.at(self.cv).is_some()).map(|(k, _)| *k).collect()
    }
    pub fn live_edges(&self) -> Vec<u64> {
        self.edges.iter().filter(|(_, c)| c.at(self.cv).is_some()).map(|(k, _)| *k).collect()
    }
    fn del_edge(&mut self, e: u64) {
        let cv = self.cv;
        if let Some(c) = self.edges.get_mut(&e) {
            if c.at(cv).is_some() {
                c.set_now(cv, None);
                self.free_edges.push(e);
                self.edge_created.remove(&e);
            }
        }
    }
}

pub struct St {
    pub g: GraphStore,
    pub r: Ref,
}

pub struct Side {
    pub count: u64,
    pub hist: Vec<Op>,
    pub msg: String,
}

pub struct M<'a> {
    pub mode: Mode,
    pub ctx: &'a svmc::Ctx,
    pub max_nodes: usize,
    pub max_txns: usize,
    q_count: Query,
    q_ids: Query,
    q_count_a: Query,
    q_count_r: Query,
    /// violations attributed to listed known findings (exploration continues behind them)
    pub side: Mutex<BTreeMap<String, Side>>,
    pub reads_judged: AtomicU64,
    pub reads_unjudged_edge_lifetime: AtomicU64,
    pub gc_steps_with_pruning: AtomicU64,
    pub gc_reads_compared: AtomicU64,
}

impl<'a> M<'a> {
    pub fn new(mode: Mode, ctx: &'a svmc::Ctx) -> Self {
        M {
            mode,
            ctx,
            max_nodes: 2,
            max_txns: 2,
            q_count: parse_query("MATCH (n) RETURN count(n)").expect("parse"),
            q_ids: parse_query("MATCH (n) RETURN id(n)").expect("parse"),
            q_count_a: parse_query("MATCH (n:A) RETURN count(n)").expect("parse"),
            q_count_r: parse_query("MATCH ()-[r]->() RETURN count(r)").expect("parse"),
            side: Mutex::new(BTreeMap::new()),
            reads_judged: AtomicU64::new(0),
            reads_unjudged_edge_lifetime: AtomicU64::new(0),
            gc_steps_with_pruning: AtomicU64::new(0),
            gc_reads_compared: AtomicU64::new(0),
        }
    }
    pub fn alphabet(&self) -> String {
        let base = "create_node(A) create_edge(s,d,R) create_edge_with_properties(s,d,R,{w:1}) set_node_property(n,p,1|2) remove_node_property(n,p) set_edge_property(e,w,1|2) remove_edge_property(e,w) bump(begin+commit) delete_edge delete_node; <=2 live nodes, <=1 live relationship";
        match self.mode {
            Mode::C07 => base.to_string(),
            Mode::C08 => format!("{base}; begin(RC|SI) left active (<=2), commit(slot), gc_versions(w) for w in 0..=current+1, gc_auto"),
        }
    }
    fn side_record(&self, sig: &str, hist: &[Op], msg: String) {
        let mut s = self.side.lock().unwrap();
        match s.get_mut(sig) {
            Some(e) => {
                e.count += 1;
                let better = hist.len() < e.hist.len() || (hist.len() == e.hist.len() && format!("{:?}", hist) < format!("{:?}", e.hist));
                if better {
                    e.hist = hist.to_vec();
                    e.msg = msg;
                }
            }
            None => {
                s.insert(sig.to_string(), Side { count: 1, hist: hist.to_vec(), msg });
            }
        }
    }
    fn cypher_i64(&self, g: &GraphStore, q: &Query) -> Result<i64, String> {
        let b = QueryExecutor::new(g).execute(q).map_err(|e| format!("{e}"))?;
        let rec = b.records.first().ok_or("no row")?;
        let col = b.columns.first().ok_or("no column")?;
        match rec.get(col) {
            Some(QV::Property(PropertyValue::Integer(i))) => Ok(*i),
            other => Err(format!("unexpected value {other:?}")),
        }
    }
    fn cypher_ids(&self, g: &GraphStore, q: &Query) -> Result<Vec<i64>, String> {
        let b = QueryExecutor::new(g).execute(q).map_err(|e| format!("{e}"))?;
        let col = b.columns.first().ok_or("no column")?.clone();
        let mut out = vec![];
        for r in &b.records {
            match r.get(&col) {
                Some(QV::Property(PropertyValue::Integer(i))) => out.push(*i),
                other => return Err(format!("unexpected value {other:?}")),
            }
        }
        out.sort();
        Ok(out)
    }
}

pub fn nobs(g: &GraphStore, id: u64, v: u64) -> Option<NObs> {
    g.get_node_at_version(NodeId::new(id), v).map(|n| match n.properties.get("p") {
        Some(PropertyValue::Integer(i)) => Some(*i),
        _ => None,
    })
}
pub fn eobs(g: &GraphStore, id: u64, v: u64) -> Option<EObs> {
    g.get_edge_at_version(EdgeId::new(id), v).map(|e| {
        (
            e.source.as_u64(),
            e.target.as_u64(),
            match e.properties.get("w") {
                Some(PropertyValue::Integer(i)) => Some(*i),
                _ => None,
            },
        )
    })
}

/// Every read the store offers on versions 1..=upto for all id slots, as text (dedup key / GC diff).
fn all_reads(g: &GraphStore, r: &Ref, from: u64, upto: u64) -> Vec<(char, u64, u64, String)> {
    let mut out = vec![];
    for id in 1..=r.next_node {
        for v in from..=upto {
            let n = g.get_node_at_version(NodeId::new(id), v);
            out.push(('n', id, v, format!("{:?}", n.map(|n| (n.version, nobs(g, id, v).unwrap())))));
        }
    }
    for id in 1..=r.next_edge {
        for v in from..=upto {
            out.push(('e', id, v, format!("{:?}", eobs(g, id, v))));
        }
    }
    out
}

#[derive(Default, Clone)]
struct RawScans {
    nc: usize,
    all: Vec<u64>,
    lab: Vec<u64>,
    ec: usize,
    alle: Vec<u64>,
}
fn raw_scans(g: &GraphStore) -> RawScans {
    let mut all: Vec<u64> = g.all_nodes().iter().map(|n| n.id.as_u64()).collect();
    all.sort();
    let mut alle: Vec<u64> = g.all_edges().iter().map(|e| e.id.as_u64()).collect();
    alle.sort();
    let mut lab: Vec<u64> = g.get_nodes_by_label(&Label::new("A")).iter().map(|n| n.id.as_u64()).collect();
    lab.sort();
    RawScans { nc: g.node_count(), all, lab, ec: g.edge_count(), alle }
}
/// every node listed once and counted once
fn scans_consistent(s: &RawScans) -> bool {
    let mut d = s.all.clone();
    d.dedup();
    d.len() == s.all.len() && s.nc == s.all.len()
}
fn current_scan_sets(s: &RawScans) -> String {
    let mut d = s.all.clone();
    d.dedup();
    let mut l = s.lab.clone();
    l.dedup();
    format!("ids={d:?} lab={l:?} ec={} alle={:?}", s.ec, s.alle)
}

fn current_scans(g: &GraphStore) -> String {
    let mut ids: Vec<u64> = g.all_nodes().iter().map(|n| n.id.as_u64()).collect();
    ids.sort();
    let mut eids: Vec<u64> = g.all_edges().iter().map(|e| e.id.as_u64()).collect();
    eids.sort();
    let mut lab: Vec<u64> = g.get_nodes_by_label(&Label::new("A")).iter().map(|n| n.id.as_u64()).collect();
    lab.sort();
    format!("nc={} all={ids:?} lab={lab:?} ec={} alle={eids:?}", g.node_count(), g.edge_count())
}

impl<'a> Model for M<'a> {
    type Op = Op;
    type State = St;
    type Key = (u64, u64);
    fn init(&self) -> St {
        let g = GraphStore::new();
        let cv = g.current_version;
        St { g, r: Ref { cv, next_node: 1, next_edge: 1, txns: vec![None; self.max_txns], ..Default::default() } }
    }
    fn ops(&self, st: &St) -> Vec<Op> {
        let r = &st.r;
        let mut v = vec![];
        let ln = r.live_nodes();
        let le = r.live_edges();
        if ln.len() < self.max_nodes {
            v.push(Op::CreateNode);
        }
        if le.is_empty() {
            for (i, &s) in ln.iter().enumerate() {
                for &d in &ln[i..] {
                    v.push(Op::CreateEdge(s, d));
                    v.push(Op::CreateEdgeW(s, d));
                }
            }
        }
        for &n in &ln {
            v.push(Op::SetNodeP(n, 1));
            v.push(Op::SetNodeP(n, 2));
            v.push(Op::RemoveNodeP(n));
        }
        for &e in &le {
            v.push(Op::SetEdgeW(e, 1));
            v.push(Op::SetEdgeW(e, 2));
            v.push(Op::RemoveEdgeW(e));
        }
        v.push(Op::Bump);
        for &e in &le {
            v.push(Op::DeleteEdge(e));
        }
        for &n in &ln {
            v.push(Op::DeleteNode(n));
        }
        if self.mode == Mode::C08 {
            if r.txns.iter().any(|t| t.is_none()) {
                v.push(Op::Begin(false));
                v.push(Op::Begin(true));
            }
            for (i, t) in r.txns.iter().enumerate() {
                if t.is_some() {
                    v.push(Op::Commit(i as u8));
                }
            }
            for w in 0..=r.cv + 1 {
                v.push(Op::GcVersions(w));
            }
            v.push(Op::GcAuto);
        }
        v
    }

    fn apply(&self, st: &mut St, op: &Op, check: bool) -> Step {
        let mut vio: Vec<(String, String)> = vec![];
        let g = &mut st.g;
        let r = &mut st.r;
        r.hist.push(op.clone());
        let cv = r.cv;
        let mut outcome = String::from("ok");
        macro_rules! refused {
            ($what:expr, $e:expr) => {{
                vio.push((format!("refused:{}", op_name(op)), format!("{} refused: {}", $what, $e)));
                outcome = "err".into();
            }};
        }
        let res: Result<(), String> = guarded(|| {
            match op {
                Op::CreateNode => {
                    let want = if let Some(id) = r.free_nodes.pop() {
                        id
                    } else {
                        let id = r.next_node;
                        r.next_node += 1;
                        id
                    };
                    let id = g.create_node(Label::new("A")).as_u64();
                    if id != want {
                        r.alloc_diverged = true;
                        r.free_nodes.retain(|x| *x != id);
                        if id >= r.next_node {
                            r.next_node = id + 1;
                        }
                    }
                    if r.nodes.get(&id).map(|c| c.at(cv).is_some()).unwrap_or(false) {
                        vio.push(("create_node:id_in_use".into(), format!("create_node returned id {id} which is live")));
                    }
                    r.nodes.entry(id).or_default().set_now(cv, Some(None));
                }
                Op::CreateEdge(s, d) | Op::CreateEdgeW(s, d) => {
                    let want = if let Some(id) = r.free_edges.pop() {
                        id
                    } else {
                        let id = r.next_edge;
                        r.next_edge += 1;
                        id
                    };
                    let with = matches!(op, Op::CreateEdgeW(..));
                    let res = if with {
                        let mut pm = PropertyMap::new();
                        pm.insert("w".into(), PropertyValue::Integer(1));
                        g.create_edge_with_properties(NodeId::new(*s), NodeId::new(*d), EdgeType::new("R"), pm)
                    } else {
                        g.create_edge(NodeId::new(*s), NodeId::new(*d), EdgeType::new("R"))
                    };
                    match res {
                        Ok(eid) => {
                            let id = eid.as_u64();
                            if id != want {
                                r.alloc_diverged = true;
                                r.free_edges.retain(|x| *x != id);
                                if id >= r.next_edge {
                                    r.next_edge = id + 1;
                                }
                            }
                            r.edges.entry(id).or_default().set_now(cv, Some((*s, *d, if with { Some(1) } else { None })));
                            r.edge_created.insert(id, cv);
                        }
                        Err(e) => refused!("create_edge between live nodes", e),
                    }
                }
                Op::SetNodeP(n, x) => {
                    if let Err(e) = g.set_node_property("default", NodeId::new(*n), "p", PropertyValue::Integer(*x)) {
                        refused!("set_node_property on a live node", e);
                    }
                    r.nodes.get_mut(n).unwrap().set_now(cv, Some(Some(*x)));
                }
                Op::RemoveNodeP(n) => {
                    g.remove_node_property(NodeId::new(*n), "p");
                    r.nodes.get_mut(n).unwrap().set_now(cv, Some(None));
                }
                Op::SetEdgeW(e, x) => {
                    if let Err(er) = g.set_edge_property(EdgeId::new(*e), "w", PropertyValue::Integer(*x)) {
                        refused!("set_edge_property on a live relationship", er);
                    }
                    let c = r.edges.get_mut(e).unwrap();
                    let (s, d, _) = c.at(cv).cloned().unwrap();
                    c.set_now(cv, Some((s, d, Some(*x))));
                }
                Op::RemoveEdgeW(e) => {
                    g.remove_edge_property(EdgeId::new(*e), "w");
                    let c = r.edges.get_mut(e).unwrap();
                    let (s, d, _) = c.at(cv).cloned().unwrap();
                    c.set_now(cv, Some((s, d, None)));
                }
                Op::Bump => {
                    let t = g.begin_transaction(IsolationLevel::ReadCommitted);
                    match g.commit_transaction(t) {
                        Ok(v) => {
                            if v != cv + 1 || g.current_version != v {
                                vio.push(("bump:version".into(), format!("commit returned {v}, current_version {} after version {cv}", g.current_version)));
                            }
                            r.cv = g.current_version;
                        }
                        Err(e) => refused!("commit of an empty transaction", e),
                    }
                }
                Op::DeleteEdge(e) => {
                    if let Err(er) = g.delete_edge(EdgeId::new(*e)) {
                        refused!("delete_edge of a live relationship", er);
                    }
                    r.del_edge(*e);
                }
                Op::DeleteNode(n) => {
                    let nid = NodeId::new(*n);
                    // order in which incident relationship ids reach the free list (as C06)
                    let mut order: Vec<u64> = vec![];
                    order.extend(g.frozen_outgoing_neighbors(*n as usize).iter().map(|x| x.1.as_u64()));
                    order.extend(g.get_outgoing_neighbor_slice(nid).iter().map(|x| x.1.as_u64()));
                    order.extend(g.frozen_incoming_neighbors(*n as usize).iter().map(|x| x.1.as_u64()));
                    order.extend(g.get_incoming_neighbor_slice(nid).iter().map(|x| x.1.as_u64()));
                    if let Err(er) = g.delete_node("default", nid) {
                        refused!("delete_node of a live node", er);
                    }
                    r.nodes.get_mut(n).unwrap().set_now(cv, None);
                    r.free_nodes.push(*n);
                    for e in order {
                        let incident = r.edges.get(&e).and_then(|c| c.at(cv)).map(|x| x.0 == *n || x.1 == *n).unwrap_or(false);
                        if incident {
                            r.del_edge(e);
                        }
                    }
                    let rest: Vec<u64> = r.edges.iter().filter(|(_, c)| c.at(cv).map(|x| x.0 == *n || x.1 == *n).unwrap_or(false)).map(|(k, _)| *k).collect();
                    for e in rest {
                        r.del_edge(e);
                        r.alloc_diverged = true;
                    }
                }
                Op::Begin(si) => {
                    let tid = g.begin_transaction(if *si { IsolationLevel::SnapshotIsolation } else { IsolationLevel::ReadCommitted });
                    let slot = r.txns.iter().position(|t| t.is_none()).unwrap();
                    r.txns[slot] = Some(RTxn { tid, si: *si, begin: cv });
                }
                Op::Commit(i) => {
                    let t = r.txns[*i as usize].take().unwrap();
                    match g.commit_transaction(t.tid) {
                        Ok(_) => r.cv = g.current_version,
                        Err(e) => refused!("commit of an active transaction without writes", e),
                    }
                }
                Op::GcVersions(_) | Op::GcAuto => {}
            }
        });
        if let Err(p) = res {
            vio.push((format!("panic:{}", op_name(op)), format!("{op:?} panicked: {p}")));
            return Step { violations: vio, outcome: "panic".into() };
        }

        // ---- garbage collection steps (C08): differential
        if let Op::GcVersions(_) | Op::GcAuto = op {
            let w = match op {
                Op::GcVersions(w) => *w,
                _ => g.gc_watermark(),
            };
            let upto = r.cv + 1;
            let before = if check { all_reads(g, r, w.max(1), upto) } else { vec![] };
            let scans_before = if check && w <= r.cv { Some(current_scans(g)) } else { None };
            let sb_raw = if check { raw_scans(g) } else { RawScans::default() };
            let txn_before: Vec<(u64, bool, Vec<String>)> = if check { txn_reads(g, r) } else { vec![] };
            let pr = guarded(|| match op {
                Op::GcVersions(w) => g.gc_versions(*w),
                _ => g.gc_auto(),
            });
            match pr {
                Err(p) => {
                    vio.push((format!("panic:{}", op_name(op)), format!("{op:?} panicked: {p}")));
                    return Step { violations: vio, outcome: "panic".into() };
                }
                Ok((n, e)) => {
                    outcome = if n + e > 0 { "pruned".into() } else { "nothing".into() };
                    if check && n + e > 0 {
                        self.gc_steps_with_pruning.fetch_add(1, Ordering::Relaxed);
                    }
                }
            }
            if check {
                let after = all_reads(g, r, w.max(1), upto);
                self.gc_reads_compared.fetch_add(after.len() as u64, Ordering::Relaxed);
                for (b, a) in before.iter().zip(after.iter()) {
                    if b.3 != a.3 {
                        let kind = if b.0 == 'n' { "node" } else { "edge" };
                        let sym = if a.3 == "None" {
                            "lost"
                        } else if b.3 == "None" {
                            "phantom"
                        } else {
                            "changed"
                        };
                        vio.push((
                            format!("{}:{kind}:{sym}", op_name(op)),
                            format!("{op:?} (watermark {w}, current version {}): read of {kind} {} at version {} (>= watermark) was {} before the collection and is {} after", r.cv, b.1, b.2, b.3, a.3),
                        ));
                    }
                }
                if let Some(sb) = scans_before {
                    let sa = current_scans(g);
                    // Differential without re-reporting C07: if the scans before the collection already
                    // list a node once per version (C07's defect), only the *sets* of ids are compared.
                    let (sb_cmp, sa_cmp) = if scans_consistent(&sb_raw) { (sb.clone(), sa.clone()) } else { (current_scan_sets(&sb_raw), current_scan_sets(&raw_scans(g))) };
                    if sa_cmp != sb_cmp {
                        vio.push((format!("{}:scan:changed", op_name(op)), format!("{op:?} (watermark {w} <= current version {}): scans/counts at the current version were [{sb}] and are [{sa}]", r.cv)));
                    }
                }
                if matches!(op, Op::GcAuto) {
                    let txn_after = txn_reads(g, r);
                    for (b, a) in txn_before.iter().zip(txn_after.iter()) {
                        if b.2 != a.2 {
                            vio.push((
                                format!("GcAuto:txn_read:{}", if b.1 { "SI" } else { "RC" }),
                                format!("gc_auto changed what active transaction {} ({}) reads: before {:?}, after {:?}", b.0, if b.1 { "SnapshotIsolation" } else { "ReadCommitted" }, b.2, a.2),
                            ));
                        }
                    }
                }
            }
        }

        if self.mode == Mode::C07 {
            // when rebuilding a state (check == false) only the expectations that listed known
            // findings replace are recomputed; nothing is reported
            let quiet = !check;
            let r2 = guarded(|| self.compare_c07(g, r, op, &mut vio, quiet));
            if let Err(p) = r2 {
                vio.push(("panic:read".into(), format!("a read panicked after {op:?}: {p}")));
            }
        }
        Step { violations: vio, outcome }
    }

    fn key(&self, st: &St) -> (u64, u64) {
        digest(&self.key_text(st))
    }
}

/// 128-bit digest (two independent SipHash-64) of the canonical key text; keeps the visited set small.
pub fn digest(s: &str) -> (u64, u64) {
    use std::hash::{Hash, Hasher};
    let mut h1 = std::collections::hash_map::DefaultHasher::new();
    s.hash(&mut h1);
    let mut h2 = std::collections::hash_map::DefaultHasher::new();
    (0x9E3779B97F4A7C15u64, s, s.len()).hash(&mut h2);
    (h1.finish(), h2.finish())
}

impl<'a> M<'a> {
    pub fn key_text(&self, st: &St) -> String {
        let r = &st.r;
        let g = &st.g;
        if r.alloc_diverged {
            return format!("H{:?}", r.hist);
        }
        let mut s = format!("cv{}|{:?}|{:?}|{:?}|{:?}|{}|{}|{:?}|", r.cv, r.nodes, r.edges, r.free_nodes, r.free_edges, r.next_node, r.next_edge, r.overrides);
        for t in &r.txns {
            match t {
                None => s.push_str("-|"),
                Some(t) => s.push_str(&format!("{}{}|", if t.si { "S" } else { "R" }, t.begin)),
            }
        }
        // implementation side: everything the read API shows (version chains / relationship logs
        // are visible exactly through these reads) + scans at the current version
        for (k, id, v, o) in all_reads(g, r, 1, r.cv + 1) {
            s.push_str(&format!("{k}{id}@{v}={o};"));
        }
        s.push_str(&current_scans(g));
        s
    }
}

fn txn_reads(g: &GraphStore, r: &Ref) -> Vec<(u64, bool, Vec<String>)> {
    let mut out = vec![];
    for t in r.txns.iter().flatten() {
        let mut reads = vec![];
        for id in 1..=r.next_node {
            reads.push(format!("n{id}={:?}", g.get_node_for_txn(t.tid, NodeId::new(id)).map(|n| match n.properties.get("p") {
                Some(PropertyValue::Integer(i)) => Some(*i),
                _ => None,
            })));
        }
        for id in 1..=r.next_edge {
            reads.push(format!("e{id}={:?}", g.get_edge_for_txn(t.tid, EdgeId::new(id)).map(|e| {
                (e.source.as_u64(), e.target.as_u64(), match e.properties.get("w") {
                    Some(PropertyValue::Integer(i)) => Some(*i),
                    _ => None,
                })
            })));
        }
        out.push((t.tid, t.si, reads));
    }
    out
}

impl<'a> M<'a> {
    /// Push a mismatch: to the violations of this transition, or — if its signature is a listed
    /// known finding — to the side channel (exploration continues). Returns true if known.
    fn mismatch(&self, r: &Ref, vio: &mut Vec<(String, String)>, sig: String, msg: String, quiet: bool) -> bool {
        if self.ctx.is_known(&sig) {
            if !quiet {
                self.side_record(&sig, &r.hist, msg);
            }
            true
        } else {
            if !quiet {
                vio.push((sig, msg));
            }
            false
        }
    }

    fn compare_c07(&self, g: &GraphStore, r: &mut Ref, op: &Op, vio: &mut Vec<(String, String)>, quiet: bool) {
        let cv = r.cv;
        let opn = op_name(op);
        let mut judged = 0u64;
        let mut unjudged = 0u64;
        // ---- nodes, every version
        for id in 1..=r.next_node {
            for v in 1..=cv {
                let got: Option<NObs> = nobs(g, id, v);
                let want: Option<NObs> = r.nodes.get(&id).and_then(|c| c.at(v)).cloned();
                let got_s = format!("{got:?}");
                let want_s = match r.overrides.get(&('n', id, v)) {
                    Some(o) if v < cv => o.clone(),
                    _ => format!("{want:?}"),
                };
                judged += 1;
                if got_s == want_s {
                    continue;
                }
                let sym = if got.is_none() {
                    "lost"
                } else if want_s == "None" {
                    "phantom"
                } else {
                    "wrong_value"
                };
                if v < cv {
                    // a delete may only ever touch the deleted node's own history
                    let other = matches!(op, Op::DeleteNode(n) if *n != id);
                    let sig = format!("hist:node:{opn}:{sym}{}", if other { "_other_node" } else { "" });
                    let msg = format!("after {op:?} at current version {cv}: get_node_at_version(node {id}, {v}) gives p={got_s}; the versioned map (state as of version {v}) says {want_s}");
                    if self.mismatch(r, vio, sig, msg, quiet) {
                        r.overrides.insert(('n', id, v), got_s);
                    }
                } else {
                    let sig = format!("cur:get_node:{opn}:{sym}");
                    let msg = format!("after {op:?}: get_node(node {id}) at the current version {cv} gives p={got_s}; reference says {want_s}");
                    self.mismatch(r, vio, sig, msg, quiet);
                }
            }
            let live = r.nodes.get(&id).and_then(|c| c.at(cv)).is_some();
            if g.has_node(NodeId::new(id)) != live {
                self.mismatch(r, vio, format!("cur:has_node:{opn}"), format!("after {op:?}: has_node({id}) = {}, reference: live = {live}", !live), quiet);
            }
        }
        // ---- relationships
        for id in 1..=r.next_edge {
            let live_now = r.edges.get(&id).and_then(|c| c.at(cv)).is_some();
            let created = r.edge_created.get(&id).copied();
            for v in 1..=cv {
                let got: Option<EObs> = eobs(g, id, v);
                let want: Option<EObs> = r.edges.get(&id).and_then(|c| c.at(v)).cloned();
                if v < cv {
                    // ADR-020: topology (existence of relationships) is not versioned. A historical read is
                    // judged only inside the lifetime of the incarnation that is live now, and only on content.
                    let in_lifetime = live_now && created.map(|c| v >= c).unwrap_or(false);
                    if !in_lifetime {
                        unjudged += 1;
                        continue;
                    }
                    judged += 1;
                    let got_s = format!("{got:?}");
                    let want_s = match r.overrides.get(&('e', id, v)) {
                        Some(o) => o.clone(),
                        None => format!("{want:?}"),
                    };
                    if got_s != want_s {
                        let sym = if got.is_none() { "lost" } else { "wrong_value" };
                        let sig = format!("hist:edge:{opn}:{sym}");
                        let msg = format!("after {op:?} at current version {cv}: get_edge_at_version(relationship {id}, {v}) gives (src,dst,w)={got_s}; the versioned map (state as of version {v}) says {want_s}");
                        if self.mismatch(r, vio, sig, msg, quiet) {
                            r.overrides.insert(('e', id, v), got_s);
                        }
                    }
                } else {
                    judged += 1;
                    if got != want {
                        let sym = if got.is_none() {
                            "lost"
                        } else if want.is_none() {
                            "phantom"
                        } else {
                            "wrong_value"
                        };
                        self.mismatch(r, vio, format!("cur:get_edge:{opn}:{sym}"), format!("after {op:?}: get_edge(relationship {id}) at the current version {cv} gives {got:?}; reference says {want:?}"), quiet);
                    }
                }
            }
        }
        if quiet {
            return;
        }
        self.reads_judged.fetch_add(judged, Ordering::Relaxed);
        self.reads_unjudged_edge_lifetime.fetch_add(unjudged, Ordering::Relaxed);
        // ---- scans and counts at the current version: each live entity exactly once
        let live = r.live_nodes();
        let live_e = r.live_edges();
        let mut all: Vec<u64> = g.all_nodes().iter().map(|n| n.id.as_u64()).collect();
        all.sort();
        // ...and what a scan returns for a live node is its current state
        let pget = |n: &samyama::graph::Node| match n.properties.get("p") {
            Some(PropertyValue::Integer(i)) => Some(*i),
            _ => None,
        };
        let mut all_p: Vec<(u64, NObs)> = g.all_nodes().iter().map(|n| (n.id.as_u64(), pget(n))).collect();
        all_p.sort();
        all_p.dedup();
        let mut lab_p: Vec<(u64, NObs)> = g.get_nodes_by_label(&Label::new("A")).iter().map(|n| (n.id.as_u64(), pget(n))).collect();
        lab_p.sort();
        let want_p: Vec<(u64, NObs)> = live.iter().map(|id| (*id, r.nodes[id].at(cv).cloned().unwrap())).collect();
        if all == live && all_p != want_p {
            self.mismatch(r, vio, format!("cur:all_nodes_state:{opn}"), format!("after {op:?}: all_nodes() returns (id,p) = {all_p:?}, current state {want_p:?}"), quiet);
        }
        if lab_p.iter().map(|x| x.0).collect::<Vec<_>>() == live && lab_p != want_p {
            self.mismatch(r, vio, format!("cur:label_scan_state:{opn}"), format!("after {op:?}: get_nodes_by_label(A) returns (id,p) = {lab_p:?}, current state {want_p:?}"), quiet);
        }
        if g.node_count() != live.len() {
            self.mismatch(r, vio, format!("cur:node_count:{opn}"), format!("after {op:?}: node_count() = {}, live nodes {live:?}", g.node_count()), quiet);
        }
        if all != live {
            self.mismatch(r, vio, format!("cur:all_nodes:{opn}"), format!("after {op:?}: all_nodes() ids = {all:?}, live nodes {live:?}"), quiet);
        }
        let mut lab: Vec<u64> = g.get_nodes_by_label(&Label::new("A")).iter().map(|n| n.id.as_u64()).collect();
        lab.sort();
        if lab != live {
            self.mismatch(r, vio, format!("cur:label_scan:{opn}"), format!("after {op:?}: get_nodes_by_label(A) ids = {lab:?}, live nodes {live:?}"), quiet);
        }
        match self.cypher_i64(g, &self.q_count) {
            Ok(n) if n == live.len() as i64 => {}
            other => {
                self.mismatch(r, vio, format!("cur:match_count:{opn}"), format!("after {op:?}: MATCH (n) RETURN count(n) = {other:?}, live nodes {live:?}"), quiet);
            }
        }
        match self.cypher_ids(g, &self.q_ids) {
            Ok(ids) if ids == live.iter().map(|x| *x as i64).collect::<Vec<_>>() => {}
            other => {
                self.mismatch(r, vio, format!("cur:match_scan:{opn}"), format!("after {op:?}: MATCH (n) RETURN id(n) = {other:?}, live nodes {live:?}"), quiet);
            }
        }
        match self.cypher_i64(g, &self.q_count_a) {
            Ok(n) if n == live.len() as i64 => {}
            other => {
                self.mismatch(r, vio, format!("cur:match_label_count:{opn}"), format!("after {op:?}: MATCH (n:A) RETURN count(n) = {other:?}, live nodes {live:?}"), quiet);
            }
        }
        let mut alle: Vec<u64> = g.all_edges().iter().map(|e| e.id.as_u64()).collect();
        alle.sort();
        if alle != live_e || g.edge_count() != live_e.len() {
            self.mismatch(r, vio, format!("cur:edge_scan:{opn}"), format!("after {op:?}: all_edges() ids = {alle:?}, edge_count() = {}, live relationships {live_e:?}", g.edge_count()), quiet);
        }
        match self.cypher_i64(g, &self.q_count_r) {
            Ok(n) if n == live_e.len() as i64 => {}
            other => {
                self.mismatch(r, vio, format!("cur:match_rel_count:{opn}"), format!("after {op:?}: MATCH ()-[r]->() RETURN count(r) = {other:?}, live relationships {live_e:?}"), quiet);
            }
        }
    }
}

pub fn hist_json(h: &[Op]) -> Value {
    json!(h.iter().map(|o| format!("{:?}", o)).collect::<Vec<_>>())
}

/// Report what was attributed to listed known findings (through ctx so they print as KNOWN-FINDING).
pub fn flush_side(m: &M, ctx: &svmc::Ctx) {
    let side = m.side.lock().unwrap();
    for (sig, s) in side.iter() {
        for _ in 0..s.count {
            ctx.violation(sig, s.msg.clone(), json!({"history": hist_json(&s.hist)}));
        }
    }
}

pub fn replay(ctx: &svmc::Ctx, m: &M, p: &std::path::Path) {
    let doc: Value = serde_json::from_str(&std::fs::read_to_string(p).expect("read replay")).expect("json");
    let hist: Vec<String> = doc["witness"]["history"].as_array().unwrap().iter().map(|s| s.as_str().unwrap().to_string()).collect();
    let mut st = m.init();
    for (i, want) in hist.iter().enumerate() {
        let ops = m.ops(&st);
        let op = ops.iter().find(|o| &format!("{:?}", o) == want).unwrap_or_else(|| ctx.machinery(&format!("replay: op {want} not enabled at step {i}")));
        let step = m.apply(&mut st, op, true);
        println!("step {i}: {want} -> {}   [current version {}]", step.outcome, st.r.cv);
        for (k, id, v, o) in all_reads(&st.g, &st.r, 1, st.r.cv) {
            let want = if k == 'n' { format!("{:?}", st.r.nodes.get(&id).and_then(|c| c.at(v))) } else { format!("{:?}", st.r.edges.get(&id).and_then(|c| c.at(v))) };
            println!("      read {}{id}@v{v}: observed (version,state)={o}   reference state={want}", if k == 'n' { "node " } else { "rel " });
        }
        println!("      scans: {}", current_scans(&st.g));
        for (sig, msg) in step.violations {
            println!("  MISMATCH [{sig}] {msg}");
            ctx.violation(&sig, msg, json!({"history": hist[..=i]}));
        }
    }
    flush_side(m, ctx);
    if ctx.violation_count() == 0 {
        println!("replay: no disagreement");
    }
}
