//! C07 — versioned reads are stable, duplicate-free and respect deletion (DESIGN §C07).
mod mvcc;
use mvcc::{flush_side, hist_json, Mode, M};
use serde_json::json;
use std::sync::atomic::Ordering;
use svmc::engine::hx;
use svmc::{run_check, Level};

fn main() {
    run_check("C07", Level::ModelChecking, |ctx| {
        let m = M::new(Mode::C07, ctx);
        if let Some(p) = &ctx.replay {
            mvcc::replay(ctx, &m, p);
            return;
        }
        let depth = std::env::var("VERIF_DEPTH").ok().and_then(|s| s.parse().ok()).unwrap_or(ctx.tier.pick(7, 9));
        let stats = hx::explore(&m, depth, 30_000_000, |v| {
            ctx.violation(&v.sig, v.msg, json!({"history": hist_json(&v.history)}));
        });
        flush_side(&m, ctx);
        hx::report(ctx, &stats, &m.alphabet());
        ctx.cov("versioned_reads_judged", m.reads_judged.load(Ordering::Relaxed));
        ctx.cov("relationship_reads_outside_lifetime_unjudged", m.reads_unjudged_edge_lifetime.load(Ordering::Relaxed));
        ctx.cov("transitions_continued_behind_known_findings", m.side.lock().unwrap().values().map(|s| s.count).sum::<u64>());
        ctx.assume("reference: per id an ordered list of (version, state at the end of that version | absent); a read at version v must return the last entry <= v. Comparing every (entity, version <= current) read against it after every step subsumes re-asserting every read ever taken, because the reference value of a read at an old version never changes");
        ctx.assume("nodes are judged at every version by id (a deleted node must stay readable at the versions in which it existed; an id reused after deletion must not show the new node at old versions)");
        ctx.assume("relationships: ADR-020 documents that topology is not versioned, so whether a relationship *exists* at an old version is not judged; a historical relationship read is judged (on source, target and w) only for the incarnation that is live now and only at versions >= the version that created it. At the current version existence and content are judged exactly");
        ctx.assume("labels are not in the alphabet (ADR-020: label index is not versioned); the only node property is p, the only relationship property is w");
        ctx.assume("a violation whose signature is a listed known finding does not prune: the observed value replaces the expectation for that (entity, version) and exploration continues behind it (count in transitions_continued_behind_known_findings)");
    });
}
