//! C22 — every server reply is exactly one well-formed RESP frame.
//!
//! Bounded-exhaustive inputs through the real `CommandHandler::handle_command` + `RespValue::encode`:
//!   * `slots`   — command templates (unknown command, wrong arity, bad graph name, GRAPH.QUERY with parse
//!                 error / runtime error / success returning literals and stored data, ECHO, PING msg, GRAPH.LIST,
//!                 malformed command values) with a payload from {none, CR, LF, CRLF[, CR CR LF LF, LF CR]} in every
//!                 slot (command name, graph name, query text, string literal, identifier, label, property key,
//!                 stored value, column alias, tenant id): all |payloads|^slots combinations (<= 4 slots);
//!   * `offsets` — one payload inserted at every byte offset of every base text (names and queries).
//! Oracle: the encoded reply parses, with the repository's decoder and with a strict reference reader, as exactly
//! one frame with no bytes left. A bare CR or LF inside a simple-string/error line is still one CRLF-terminated
//! frame under both readers and is counted separately, not as a violation.
//!   * `binary`  — a few of the same commands, each followed by PING in the same write, against the real server
//!                 binary: the reply stream must be exactly two frames, the second `+PONG`.
use bytes::BytesMut;
use rayon::prelude::*;
use samyama::graph::GraphStore;
use samyama::protocol::resp::RespValue;
use samyama::protocol::CommandHandler;
use serde_json::{json, Value};
use std::collections::BTreeMap;
use std::io::{Read, Write};
use std::net::{Shutdown, TcpStream};
use std::sync::Arc;
use std::time::{Duration, Instant};
use svmc::engine::ctx::guarded;
use svmc::{run_check, Ctx, Level};

// ---------------------------------------------------------------------------------------------
// strict reference reader

#[derive(Debug, Clone, PartialEq)]
enum Parse {
    /// (frames, simple lines containing a bare CR or LF)
    Frames(usize, usize),
    Bad(String),
}

/// Reads `b` as a sequence of complete RESP frames.
fn strict_frames(b: &[u8]) -> Parse {
    fn line(b: &[u8], p: usize) -> Result<(usize, &[u8]), String> {
        let rest = b.get(p..).ok_or("offset beyond input")?;
        let e = rest.windows(2).position(|w| w == b"\r\n").ok_or_else(|| format!("no CRLF after offset {p}"))?;
        Ok((p + e + 2, &rest[..e]))
    }
    fn int(l: &[u8]) -> Result<i64, String> {
        let s = std::str::from_utf8(l).map_err(|_| "length is not ASCII".to_string())?;
        let digits = s.strip_prefix('-').unwrap_or(s);
        if digits.is_empty() || !digits.bytes().all(|c| c.is_ascii_digit()) {
            return Err(format!("not an integer: {s:?}"));
        }
        s.parse::<i64>().map_err(|e| e.to_string())
    }
    fn one(b: &[u8], p: usize, bare: &mut usize, depth: usize) -> Result<usize, String> {
        if depth > 64 {
            return Err("nesting deeper than 64".into());
        }
        let t = *b.get(p).ok_or("truncated")?;
        let (next, l) = line(b, p)?;
        if l.is_empty() {
            return Err(format!("empty line at offset {p}"));
        }
        let l = &l[1..];
        match t {
            b'+' | b'-' => {
                if l.iter().any(|&c| c == b'\r' || c == b'\n') {
                    *bare += 1;
                }
                Ok(next)
            }
            b':' => int(l).map(|_| next),
            b'_' => {
                if l.is_empty() {
                    Ok(next)
                } else {
                    Err("null with payload".into())
                }
            }
            b'$' => {
                let n = int(l)?;
                if n == -1 {
                    return Ok(next);
                }
                if n < 0 {
                    return Err(format!("bulk length {n}"));
                }
                let e = next + n as usize;
                match b.get(e..e + 2) {
                    Some(x) if x == b"\r\n" => Ok(e + 2),
                    _ => Err(format!("bulk string of {n} bytes is not followed by CRLF")),
                }
            }
            b'*' => {
                let n = int(l)?;
                if n == -1 {
                    return Ok(next);
                }
                if n < 0 {
                    return Err(format!("array length {n}"));
                }
                let mut q = next;
                for _ in 0..n {
                    q = one(b, q, bare, depth + 1)?;
                }
                Ok(q)
            }
            other => Err(format!("unknown type byte {:?} at offset {p}", other as char)),
        }
    }
    let (mut p, mut n, mut bare) = (0, 0, 0);
    while p < b.len() {
        match one(b, p, &mut bare, 0) {
            Ok(q) => {
                p = q;
                n += 1;
            }
            Err(e) => return Parse::Bad(format!("after {n} frames, at offset {p}: {e}")),
        }
    }
    Parse::Frames(n, bare)
}

/// The repository's own decoder used the way handle_connection uses it: how many values, anything left?
fn repo_frames(b: &[u8]) -> Result<(usize, usize), String> {
    let mut buf = BytesMut::from(b);
    let mut n = 0;
    loop {
        match guarded(|| RespValue::decode(&mut buf)) {
            Err(p) => return Err(format!("decoder panicked: {p}")),
            Ok(Ok(Some(_))) => n += 1,
            Ok(Ok(None)) => return Ok((n, buf.len())),
            Ok(Err(samyama::protocol::resp::RespError::Incomplete)) => return Ok((n, buf.len())),
            Ok(Err(e)) => return Err(format!("after {n} values: {e}")),
        }
        if n > 10_000 {
            return Err("more than 10000 values".into());
        }
    }
}

// ---------------------------------------------------------------------------------------------
// templates

fn bulk(b: &[u8]) -> RespValue {
    RespValue::BulkString(Some(b.to_vec()))
}
fn cmd(parts: &[&[u8]]) -> RespValue {
    RespValue::Array(parts.iter().map(|p| bulk(p)).collect())
}

struct Built {
    /// tenant ids to register before the commands (GRAPH.LIST)
    tenants: Vec<String>,
    /// commands run in order on one handler + store; every reply is checked
    cmds: Vec<RespValue>,
}

struct Template {
    name: &'static str,
    /// which kind of client text the slots are in (for the signature)
    class: &'static str,
    slots: usize,
    build: fn(&[&str]) -> Built,
}

fn q(query: String) -> RespValue {
    cmd(&[b"GRAPH.QUERY", b"default", query.as_bytes()])
}
fn one(c: RespValue) -> Built {
    Built { tenants: vec![], cmds: vec![c] }
}

fn templates() -> Vec<Template> {
    vec![
        Template { name: "unknown-command", class: "command-name", slots: 3, build: |s| one(cmd(&[format!("{}FOO{}BAR{}", s[0], s[1], s[2]).as_bytes(), b"arg"])) },
        Template { name: "unknown-command-adjacent-slots", class: "command-name", slots: 2, build: |s| one(cmd(&[format!("X{}{}Y", s[0], s[1]).as_bytes()])) },
        Template { name: "unknown-command-three-adjacent-slots", class: "command-name", slots: 3, build: |s| one(cmd(&[format!("X{}{}{}Y", s[0], s[1], s[2]).as_bytes()])) },
        Template { name: "bad-graph-name", class: "graph-name", slots: 3, build: |s| one(cmd(&[b"GRAPH.QUERY", format!("{}g{}h{}", s[0], s[1], s[2]).as_bytes(), b"RETURN 1"])) },
        Template { name: "bad-graph-name-ro", class: "graph-name", slots: 1, build: |s| one(cmd(&[b"GRAPH.RO_QUERY", format!("g{}h", s[0]).as_bytes(), b"RETURN 1"])) },
        Template { name: "wrong-arity-query", class: "graph-name", slots: 1, build: |s| one(cmd(&[b"GRAPH.QUERY", format!("g{}", s[0]).as_bytes()])) },
        Template { name: "wrong-arity-echo", class: "command-name", slots: 1, build: |s| one(cmd(&[format!("EC{}HO", s[0]).as_bytes()])) },
        Template { name: "graph-delete", class: "graph-name", slots: 1, build: |s| one(cmd(&[b"GRAPH.DELETE", format!("g{}", s[0]).as_bytes()])) },
        Template { name: "parse-error", class: "query-text", slots: 4, build: |s| one(q(format!("{}RETURN{} 1 +{} ){}", s[0], s[1], s[2], s[3]))) },
        Template { name: "parse-error-after-literal", class: "query-text", slots: 3, build: |s| one(q(format!("RETURN 'a{}b'{} ?? {}", s[0], s[1], s[2]))) },
        Template { name: "parse-error-unclosed-literal", class: "query-text", slots: 2, build: |s| one(q(format!("RETURN 'a{}b{}", s[0], s[1]))) },
        Template { name: "parse-error-keyword", class: "query-text", slots: 2, build: |s| one(q(format!("MATCH (n) RETRUN{} n{}", s[0], s[1]))) },
        Template { name: "unbound-variable", class: "query-text", slots: 2, build: |s| one(q(format!("RETURN {}xy{}", s[0], s[1]))) },
        Template { name: "unknown-function", class: "string-literal", slots: 2, build: |s| one(q(format!("RETURN nofunc('a{}b'){}", s[0], s[1]))) },
        Template { name: "unknown-procedure", class: "query-text", slots: 1, build: |s| one(q(format!("CALL db.nope{}()", s[0]))) },
        Template { name: "backtick-identifier", class: "identifier", slots: 2, build: |s| one(q(format!("RETURN `x{}y`{}", s[0], s[1]))) },
        Template { name: "type-error", class: "string-literal", slots: 2, build: |s| one(q(format!("RETURN 'a{}b' + 1, toInteger('z{}'), 1 / 0", s[0], s[1]))) },
        Template { name: "invalid-regex", class: "string-literal", slots: 3, build: |s| one(q(format!("RETURN 'a{}' =~ '({}b{}'", s[0], s[1], s[2]))) },
        Template { name: "invalid-duration", class: "string-literal", slots: 2, build: |s| one(q(format!("RETURN duration('P{}X{}')", s[0], s[1]))) },
        Template { name: "invalid-date", class: "string-literal", slots: 2, build: |s| one(q(format!("RETURN date('20{}24-13-45{}'), datetime('x{}')", s[0], s[1], s[0]))) },
        Template { name: "unsupported-similarity", class: "string-literal", slots: 2, build: |s| one(q(format!("CREATE VECTOR INDEX vi FOR (n:V) ON (n.e) OPTIONS {{dimensions: 2, similarity: '{}l{}2'}}", s[0], s[1]))) },
        Template { name: "vector-query-missing-index", class: "string-literal", slots: 2, build: |s| one(q(format!("CALL db.index.vector.queryNodes('V{}', 'e{}', [1.0, 2.0], 1) YIELD node, score RETURN node, score", s[0], s[1]))) },
        Template { name: "literal-alias-map-list", class: "string-literal", slots: 4, build: |s| one(q(format!("RETURN 'a{}b' AS c, {{k: 'v{}'}} AS m, ['x{}', 'y{}'] AS l, 1.5 AS f, true AS t, null AS z", s[0], s[1], s[2], s[3]))) },
        Template { name: "unaliased-column", class: "string-literal", slots: 2, build: |s| one(q(format!("RETURN 'a{}b', ['x{}', 1, null]", s[0], s[1]))) },
        Template {
            name: "stored-data",
            class: "stored-value",
            slots: 3,
            build: |s| Built {
                tenants: vec![],
                cmds: vec![
                    q(format!("CREATE (n:L {{p: 'v{}w', q: ['x{}'], i: 1}}) RETURN n", s[0], s[1])),
                    q("MATCH (n) RETURN n, labels(n), keys(n), n.p, n.q, n.i, properties(n)".to_string()),
                    q(format!("MATCH (n) WHERE n.p = 'v{}w' RETURN n.p + '{}', toUpper(n.p), split(n.p, 'v')", s[0], s[2])),
                    q("MATCH (n) RETURN n.nope".to_string()),
                ],
            },
        },
        Template {
            name: "stored-relationship",
            class: "stored-value",
            slots: 2,
            build: |s| Built { tenants: vec![], cmds: vec![q(format!("CREATE (a:A)-[r:T {{w: 'x{}'}}]->(b:B {{s: 'y{}'}}) RETURN r", s[0], s[1])), q("MATCH (a)-[r]->(b) RETURN type(r), r.w, r, a, b.s".to_string()), q("MATCH p = (a)-[r]->(b) RETURN p".to_string())] },
        },
        Template {
            name: "unique-constraint-duplicate",
            class: "stored-value",
            slots: 2,
            build: |s| Built { tenants: vec![], cmds: vec![q("CREATE CONSTRAINT ON (n:U) ASSERT n.k IS UNIQUE".to_string()), q(format!("CREATE (n:U {{k: 'a{}b{}'}})", s[0], s[1])), q(format!("CREATE (n:U {{k: 'a{}b{}'}})", s[0], s[1]))] },
        },
        Template { name: "set-on-missing", class: "string-literal", slots: 1, build: |s| one(q(format!("MATCH (n:Nope) SET n.p = 'a{}b' RETURN n", s[0]))) },
        Template { name: "echo", class: "payload", slots: 2, build: |s| one(cmd(&[b"ECHO", format!("{}a{}", s[0], s[1]).as_bytes()])) },
        Template { name: "ping-message", class: "payload", slots: 2, build: |s| one(cmd(&[b"PING", format!("{}a{}", s[0], s[1]).as_bytes()])) },
        Template { name: "graph-list", class: "tenant-id", slots: 1, build: |s| Built { tenants: vec![format!("t{}1", s[0])], cmds: vec![cmd(&[b"GRAPH.LIST"])] } },
        Template { name: "info", class: "payload", slots: 1, build: |s| one(cmd(&[b"INFO", s[0].as_bytes()])) },
        Template { name: "command-not-array", class: "command-name", slots: 1, build: |s| one(RespValue::SimpleString(format!("PI{}NG", s[0]))) },
        Template { name: "command-name-not-bulk", class: "command-name", slots: 1, build: |s| one(RespValue::Array(vec![RespValue::SimpleString(format!("PI{}NG", s[0]))])) },
        Template { name: "command-name-not-utf8", class: "command-name", slots: 1, build: |s| one(RespValue::Array(vec![bulk(&[&[0xffu8][..], s[0].as_bytes()].concat())])) },
        Template { name: "query-not-utf8", class: "query-text", slots: 1, build: |s| one(RespValue::Array(vec![bulk(b"GRAPH.QUERY"), bulk(b"default"), bulk(&[b"RETURN '", s[0].as_bytes(), &[0xffu8][..], b"'"].concat())])) },
        // texts longer than 1 KiB with the client's bytes near the end, in the middle and near the start:
        // length-dependent reply paths (truncation, elision, chunked copies) must sanitise every part
        Template { name: "long-unknown-command-tail", class: "command-name", slots: 2, build: |s| one(cmd(&[format!("{}{}Y{}", "X".repeat(1100), s[0], s[1]).as_bytes()])) },
        Template { name: "long-unknown-command-head", class: "command-name", slots: 1, build: |s| one(cmd(&[format!("X{}{}", s[0], "Y".repeat(1100)).as_bytes()])) },
        Template { name: "long-unknown-command-middle", class: "command-name", slots: 1, build: |s| one(cmd(&[format!("{}{}{}", "X".repeat(700), s[0], "Y".repeat(700)).as_bytes()])) },
        Template { name: "long-graph-name-tail", class: "graph-name", slots: 2, build: |s| one(cmd(&[b"GRAPH.QUERY", format!("{}{}h{}", "g".repeat(1100), s[0], s[1]).as_bytes(), b"RETURN 1"])) },
        Template { name: "long-invalid-date-tail", class: "string-literal", slots: 2, build: |s| one(q(format!("RETURN date('{}{}+OK{}')", "9".repeat(1100), s[0], s[1]))) },
        Template { name: "long-parse-error-tail", class: "query-text", slots: 2, build: |s| one(q(format!("RETURN {} +{} ){}", "1 + ".repeat(300), s[0], s[1]))) },
        Template { name: "long-echo-tail", class: "payload", slots: 2, build: |s| one(cmd(&[b"ECHO", format!("{}{}b{}", "a".repeat(1100), s[0], s[1]).as_bytes()])) },
        Template {
            name: "long-stored-value-in-error",
            class: "stored-value",
            slots: 2,
            build: |s| Built { tenants: vec![], cmds: vec![q(format!("CREATE (n:L {{d: '{}{}:42{}'}})", "9".repeat(1100), s[0], s[1])), q("MATCH (n:L) RETURN date(n.d)".to_string()), q("MATCH (n:L) RETURN n.d".to_string())] },
        },
        Template { name: "null-arguments", class: "command-name", slots: 1, build: |s| one(RespValue::Array(vec![bulk(b"GRAPH.QUERY"), RespValue::BulkString(None), bulk(s[0].as_bytes())])) },
    ]
}

/// base texts for the every-offset sweep: (name, class, builder from the edited text)
fn offset_bases() -> Vec<(&'static str, &'static str, &'static str, fn(&str) -> RespValue)> {
    vec![
        ("command-name", "command-name", "GRAPH.QUERYX", |t| cmd(&[t.as_bytes(), b"default", b"RETURN 1"])),
        ("graph-name", "graph-name", "default", |t| cmd(&[b"GRAPH.QUERY", t.as_bytes(), b"RETURN 1"])),
        ("query-ok", "query-text", "MATCH (n:L {p: 'v'}) WHERE n.i >= 1 RETURN n.p AS col, 'lit' ORDER BY n.i LIMIT 3", |t| q(t.to_string())),
        ("query-create", "query-text", "CREATE (a:A {s: 'x y'})-[:T {w: 1.5}]->(b:B) RETURN a.s, b", |t| q(t.to_string())),
        ("query-bad", "query-text", "MATCH (n) WHERE n.p = 'v' RETURN n.p +", |t| q(t.to_string())),
        ("query-unwind", "query-text", "UNWIND ['a', 'b'] AS x WITH x, {k: x} AS m RETURN x, m, toUpper(x)", |t| q(t.to_string())),
    ]
}

fn payloads(thorough: bool) -> Vec<&'static str> {
    if thorough {
        vec!["", "\r", "\n", "\r\n", "\r\r\n\n", "\n\r"]
    } else {
        vec!["", "\r", "\n", "\r\n"]
    }
}

// ---------------------------------------------------------------------------------------------
// running one case

thread_local! {
    static RT: tokio::runtime::Runtime = tokio::runtime::Builder::new_current_thread().enable_all().build().unwrap();
}

#[derive(Debug, Clone)]
struct Obs {
    /// per command: (reply kind, encoded reply)
    replies: Vec<(char, Vec<u8>)>,
}

fn kind(v: &RespValue) -> char {
    match v {
        RespValue::SimpleString(_) => '+',
        RespValue::Error(_) => '-',
        RespValue::Integer(_) => ':',
        RespValue::BulkString(_) => '$',
        RespValue::Array(_) => '*',
        RespValue::Null => '_',
    }
}

fn run_built(b: &Built) -> Result<Obs, String> {
    guarded(|| {
        RT.with(|rt| {
            let handler = CommandHandler::new(None);
            for t in &b.tenants {
                let _ = handler.tenant_manager().create_tenant(t.clone(), "t".to_string(), None);
            }
            let store = Arc::new(tokio::sync::RwLock::new(GraphStore::new()));
            let mut replies = vec![];
            for c in &b.cmds {
                let r = rt.block_on(handler.handle_command(c, &store));
                let mut enc = vec![];
                r.encode(&mut enc).expect("encode");
                replies.push((kind(&r), enc));
            }
            Obs { replies }
        })
    })
}

/// None = one well-formed frame. Some(symptom, text).
fn judge(kind: char, enc: &[u8]) -> (Option<(String, String)>, usize) {
    let strict = strict_frames(enc);
    let repo = repo_frames(enc);
    let mut bare = 0;
    let v = match (&strict, &repo) {
        (Parse::Frames(1, b), Ok((1, 0))) => {
            bare = *b;
            if enc.first().map(|&c| c as char) != Some(kind) {
                Some(("type-changed".to_string(), format!("a {kind:?} reply was encoded as {}", esc(enc))))
            } else {
                None
            }
        }
        (Parse::Frames(n, _), _) if *n != 1 => Some((format!("splits-into-{}-frames", if *n > 9 { "many".to_string() } else { n.to_string() }), format!("reads as {n} frames"))),
        (Parse::Bad(e), _) => Some(("not-a-frame-sequence".to_string(), format!("strict reader: {e}"))),
        (_, Ok((n, left))) => Some(("repo-decoder-disagrees".to_string(), format!("one frame for the strict reader, but the repository's decoder reads {n} values and leaves {left} bytes"))),
        (_, Err(e)) => Some(("repo-decoder-disagrees".to_string(), format!("one frame for the strict reader, but the repository's decoder fails: {e}"))),
    };
    (v, bare)
}

fn esc(b: &[u8]) -> String {
    let s: String = b
        .iter()
        .take(400)
        .map(|&c| match c {
            b'\r' => "\\r".to_string(),
            b'\n' => "\\n".to_string(),
            b'\\' => "\\\\".to_string(),
            0x20..=0x7e => (c as char).to_string(),
            _ => format!("\\x{c:02x}"),
        })
        .collect();
    if b.len() > 400 {
        format!("{s}… ({} bytes)", b.len())
    } else {
        s
    }
}

fn show_cmd(c: &RespValue) -> String {
    let mut e = vec![];
    let _ = c.encode(&mut e);
    // commands are built from bulk strings, whose encoding is length-prefixed: safe to show
    esc(&e)
}

#[derive(Default)]
struct CaseOut {
    replies: u64,
    nontrivial: bool,
    bare_lines: u64,
    kinds: BTreeMap<char, u64>,
    /// (sig, msg, witness)
    vios: Vec<(String, String, Value)>,
}

fn run_case(gen: &str, tname: &str, class: &str, b: &Built, has_crlf: bool, wit: Value) -> CaseOut {
    let mut out = CaseOut { nontrivial: has_crlf, ..Default::default() };
    match run_built(b) {
        Err(p) => out.vios.push((format!("{class}:panic"), format!("[{gen}/{tname}] handler panicked: {p}"), wit)),
        Ok(obs) => {
            for (i, (k, enc)) in obs.replies.iter().enumerate() {
                out.replies += 1;
                *out.kinds.entry(*k).or_default() += 1;
                let (v, bare) = judge(*k, enc);
                out.bare_lines += bare as u64;
                if let Some((sym, text)) = v {
                    let kn = match k {
                        '-' => "error-reply",
                        '+' => "simple-string-reply",
                        _ => "other-reply",
                    };
                    out.vios.push((format!("{kn}:{class}:{sym}"), format!("[{gen}/{tname}] command {} was answered {} which {text}", show_cmd(&b.cmds[i]), esc(enc)), wit.clone()));
                }
            }
        }
    }
    out
}

// ---------------------------------------------------------------------------------------------
// the real binary

fn free_port() -> u16 {
    std::net::TcpListener::bind("127.0.0.1:0").unwrap().local_addr().unwrap().port()
}

fn tcp_exchange(port: u16, bytes: &[u8]) -> Result<Vec<u8>, String> {
    let mut c = TcpStream::connect(("127.0.0.1", port)).map_err(|e| format!("connect: {e}"))?;
    c.set_nodelay(true).ok();
    c.set_read_timeout(Some(Duration::from_secs(20))).ok();
    c.write_all(bytes).map_err(|e| format!("write: {e}"))?;
    c.shutdown(Shutdown::Write).map_err(|e| format!("shutdown: {e}"))?;
    let mut out = vec![];
    match c.read_to_end(&mut out) {
        Ok(_) => Ok(out),
        Err(e) if e.kind() == std::io::ErrorKind::ConnectionReset => Ok(out),
        Err(e) => Err(format!("read: {e}")),
    }
}

fn binary_cases() -> Vec<(&'static str, &'static str, RespValue)> {
    vec![
        ("unknown-command", "command-name", cmd(&[b"FOO\r\nBAR"])),
        ("unknown-command-clean", "command-name", cmd(&[b"FOOBAR"])),
        ("bad-graph-name", "graph-name", cmd(&[b"GRAPH.QUERY", b"g\r\nh", b"RETURN 1"])),
        ("parse-error", "query-text", q("RETURN\r\n 1 + )".to_string())),
        ("literal", "string-literal", q("RETURN 'a\r\nb' AS `c\r\nd`".to_string())),
        ("echo", "payload", cmd(&[b"ECHO", b"a\r\nb"])),
    ]
}

fn run_binary(ctx: &Ctx, only: Option<usize>) -> (u64, Vec<(String, String, Value)>) {
    let exe = std::env::var("VERIF_SERVER_SHIM").unwrap_or_else(|_| std::env::current_exe().unwrap().parent().unwrap().join("samyama_server_shim").to_string_lossy().to_string());
    if !std::path::Path::new(&exe).exists() {
        ctx.machinery(&format!("server binary {exe} not built (./check builds it)"));
    }
    let dir = format!("/verif/target/tmp/c22-{}-bin", std::process::id());
    let _ = std::fs::remove_dir_all(&dir);
    std::fs::create_dir_all(&dir).unwrap_or_else(|e| ctx.machinery(&format!("tmp dir {dir}: {e}")));
    let mut child = None;
    let mut port = 0;
    for _ in 0..5 {
        port = free_port();
        let http = free_port();
        let mut c = std::process::Command::new(&exe)
            .args(["--data-path", &format!("{dir}/data"), "--port", &port.to_string(), "--http-port", &http.to_string()])
            .current_dir(&dir)
            .stdin(std::process::Stdio::null())
            .stdout(std::process::Stdio::null())
            .stderr(std::process::Stdio::null())
            .spawn()
            .unwrap_or_else(|e| ctx.machinery(&format!("spawn {exe}: {e}")));
        let t0 = Instant::now();
        let mut up = false;
        while t0.elapsed() < Duration::from_secs(60) {
            if let Ok(Some(_)) = c.try_wait() {
                break;
            }
            if tcp_exchange(port, b"PING\r\n").map(|r| r == b"+PONG\r\n").unwrap_or(false) {
                up = true;
                break;
            }
            std::thread::sleep(Duration::from_millis(50));
        }
        if up {
            child = Some(c);
            break;
        }
        let _ = c.kill();
        let _ = c.wait();
    }
    let mut child = child.unwrap_or_else(|| {
        let _ = std::fs::remove_dir_all(&dir);
        ctx.machinery("the server binary did not come up on a loopback port")
    });
    let mut vios = vec![];
    let mut n = 0;
    for (i, (name, class, c)) in binary_cases().iter().enumerate() {
        if only.map(|o| o != i).unwrap_or(false) {
            continue;
        }
        n += 1;
        let mut bytes = vec![];
        c.encode(&mut bytes).unwrap();
        bytes.extend_from_slice(b"*1\r\n$4\r\nPING\r\n");
        match tcp_exchange(port, &bytes) {
            Err(e) => {
                let _ = child.kill();
                let _ = child.wait();
                let _ = std::fs::remove_dir_all(&dir);
                ctx.machinery(&format!("server binary exchange: {e}"));
            }
            Ok(got) => {
                if ctx.replay.is_some() {
                    println!("binary: sent {} then PING; received {}", show_cmd(c), esc(&got));
                }
                let ok = matches!(strict_frames(&got), Parse::Frames(2, _)) && got.ends_with(b"+PONG\r\n");
                if !ok {
                    vios.push((format!("binary:{class}:reply-stream-not-two-frames"), format!("[binary/{name}] real server binary: {} followed by PING in one write was answered {} — {:?}, expected exactly two frames ending in +PONG", show_cmd(c), esc(&got), strict_frames(&got)), json!({"gen": "binary", "index": i})));
                }
            }
        }
    }
    // a well-formed command followed, on the same connection, by a frame the decoder rejects: the
    // answer must be that command's one reply and then one error frame -- nothing of the first reply
    // may be sent again with the protocol error (seeded change C22b: reply scratch buffer not cleared
    // on the protocol-error path)
    let firsts: Vec<(&str, Vec<u8>, &[u8])> = vec![
        ("ping", b"*1\r\n$4\r\nPING\r\n".to_vec(), b"+PONG\r\n"),
        ("echo", b"*2\r\n$4\r\nECHO\r\n$2\r\nhi\r\n".to_vec(), b"$2\r\nhi\r\n"),
        ("error-reply", b"*1\r\n$6\r\nFOOBAR\r\n".to_vec(), b"-"),
    ];
    let rejected: Vec<(&str, &[u8])> = vec![
        ("inline-unclosed-quote", b"GRAPH.QUERY g \"RETURN 1\r\n"),
        ("bulk-longer-than-announced", b"*1\r\n$3\r\nabcdef\r\n"),
        ("array-of-unknown-type", b"*1\r\n?x\r\n"),
    ];
    if only.is_none() {
        for (fname, fbytes, fexpect) in &firsts {
            for (rname, rbytes) in &rejected {
                n += 1;
                let mut bytes = fbytes.clone();
                bytes.extend_from_slice(rbytes);
                match tcp_exchange(port, &bytes) {
                    Err(e) => {
                        let _ = child.kill();
                        let _ = child.wait();
                        let _ = std::fs::remove_dir_all(&dir);
                        ctx.machinery(&format!("server binary exchange: {e}"));
                    }
                    Ok(got) => {
                        // one reply to the command; then either one error frame or nothing (the server
                        // may treat the rest as incomplete and wait)
                        let frames = strict_frames(&got);
                        let ok = got.starts_with(fexpect) && match &frames {
                            Parse::Frames(1, _) => true,
                            Parse::Frames(2, _) => {
                                // the second frame is an error
                                let first_len = if *fname == "error-reply" { got.iter().position(|b| *b == b'\n').map(|p| p + 1).unwrap_or(0) } else { fexpect.len() };
                                got.get(first_len) == Some(&b'-')
                            }
                            _ => false,
                        };
                        if !ok {
                            vios.push(("binary:sequence:reply-repeated-or-garbled-after-protocol-error".to_string(), format!("[binary/{fname}+{rname}] real server binary: {} followed by the rejected frame {} on one connection was answered {} — {:?}, expected the command's reply and at most one error frame", esc(fbytes), esc(rbytes), esc(&got), frames), json!({"gen": "binary-sequence", "first": fname, "rejected": rname})));
                        }
                    }
                }
            }
        }
    }
    let _ = child.kill();
    let _ = child.wait();
    let _ = std::fs::remove_dir_all(&dir);
    (n, vios)
}

// ---------------------------------------------------------------------------------------------

enum CaseSpec {
    Slots { t: usize, combo: Vec<usize> },
    Offset { base: usize, off: usize, payload: usize },
    /// thorough: two insertions (off1 <= off2, offsets in the unedited text), payloads from {CR, LF, CRLF}
    OffsetPair { base: usize, off1: usize, off2: usize, p1: usize, p2: usize },
}

const PAIR_PAYLOADS: [&str; 3] = ["\r", "\n", "\r\n"];

fn main() {
    run_check("C22", Level::Exploration, |ctx| {
        let ts = templates();
        let bases = offset_bases();
        if let Some(p) = ctx.replay.clone() {
            replay(ctx, &ts, &bases, &p);
            return;
        }
        let thorough = !ctx.quick();
        let pl = payloads(thorough);
        if std::env::var("C22_DUMP").is_ok() {
            for t in &ts {
                for pv in ["", "\n", "\r\n"] {
                    let vals: Vec<&str> = (0..t.slots).map(|_| pv).collect();
                    let b = (t.build)(&vals);
                    match run_built(&b) {
                        Ok(o) => {
                            for (i, (_, enc)) in o.replies.iter().enumerate() {
                                println!("{:32} {:6} #{i} {}", t.name, esc(pv.as_bytes()), esc(enc));
                            }
                        }
                        Err(p) => println!("{:32} {:6} PANIC {p}", t.name, esc(pv.as_bytes())),
                    }
                }
            }
            for b in &bases {
                let o = run_built(&one((b.3)(b.2))).unwrap();
                println!("{:32} base   {}", b.0, esc(&o.replies[0].1));
            }
            std::process::exit(0);
        }
        // generator: slots
        let mut specs: Vec<CaseSpec> = vec![];
        let mut card_slots = 0u64;
        for (ti, t) in ts.iter().enumerate() {
            let n = (pl.len() as u64).pow(t.slots as u32);
            card_slots += n;
            for combo in svmc::engine::odometer::sequences(pl.len(), t.slots) {
                specs.push(CaseSpec::Slots { t: ti, combo });
            }
        }
        // generator: offsets (payload index 0 is "none": skipped, it is the unedited base, run once per base as payload 0 at offset 0)
        let mut card_off = 0u64;
        for (bi, b) in bases.iter().enumerate() {
            specs.push(CaseSpec::Offset { base: bi, off: 0, payload: 0 });
            card_off += 1;
            for off in 0..=b.2.len() {
                if !b.2.is_char_boundary(off) {
                    continue;
                }
                for pi in 1..pl.len() {
                    specs.push(CaseSpec::Offset { base: bi, off, payload: pi });
                    card_off += 1;
                }
            }
        }
        let mut card_pairs = 0u64;
        if thorough {
            for (bi, b) in bases.iter().enumerate() {
                for off1 in 0..=b.2.len() {
                    for off2 in off1..=b.2.len() {
                        for p1 in 0..3 {
                            for p2 in 0..3 {
                                specs.push(CaseSpec::OffsetPair { base: bi, off1, off2, p1, p2 });
                                card_pairs += 1;
                            }
                        }
                    }
                }
            }
        }
        let outs: Vec<CaseOut> = specs
            .par_iter()
            .map(|sp| match sp {
                CaseSpec::Slots { t, combo } => {
                    let tpl = &ts[*t];
                    let vals: Vec<&str> = combo.iter().map(|&i| pl[i]).collect();
                    let b = (tpl.build)(&vals);
                    let has = vals.iter().any(|v| !v.is_empty());
                    run_case("slots", tpl.name, tpl.class, &b, has, json!({"gen": "slots", "template": tpl.name, "payloads": vals}))
                }
                CaseSpec::Offset { base, off, payload } => {
                    let (name, class, text, build) = &bases[*base];
                    let mut t = text.to_string();
                    t.insert_str(*off, pl[*payload]);
                    let b = one(build(&t));
                    run_case("offsets", name, class, &b, *payload != 0, json!({"gen": "offsets", "base": name, "offset": off, "payload": pl[*payload]}))
                }
                CaseSpec::OffsetPair { base, off1, off2, p1, p2 } => {
                    let (name, class, text, build) = &bases[*base];
                    let mut t = text.to_string();
                    t.insert_str(*off2, PAIR_PAYLOADS[*p2]);
                    t.insert_str(*off1, PAIR_PAYLOADS[*p1]);
                    let b = one(build(&t));
                    run_case("offset-pairs", name, class, &b, true, json!({"gen": "offset-pairs", "base": name, "offset1": off1, "offset2": off2, "payload1": PAIR_PAYLOADS[*p1], "payload2": PAIR_PAYLOADS[*p2]}))
                }
            })
            .collect();
        let mut evals = 0u64;
        let mut replies = 0u64;
        let mut nontrivial = 0u64;
        let mut bare = 0u64;
        let mut kinds: BTreeMap<String, u64> = BTreeMap::new();
        for o in outs {
            evals += 1;
            replies += o.replies;
            if o.nontrivial {
                nontrivial += 1;
            }
            bare += o.bare_lines;
            for (k, n) in o.kinds {
                *kinds.entry(k.to_string()).or_default() += n;
            }
            for (sig, msg, w) in o.vios {
                ctx.violation(&sig, msg, w);
            }
        }
        let (nbin, bvios) = run_binary(ctx, None);
        for (sig, msg, w) in bvios {
            ctx.violation(&sig, msg, w);
        }
        if evals != card_slots + card_off + card_pairs {
            ctx.machinery("case count differs from generator cardinality");
        }
        ctx.cov("evaluations", evals + nbin);
        ctx.cov("generator_cardinality", card_slots + card_off + card_pairs + binary_cases().len() as u64 + 9);
        ctx.cov("generator_cardinality_by_generator", json!({"slots": card_slots, "offsets": card_off, "offset-pairs": card_pairs, "binary": binary_cases().len(), "binary-sequences (3 commands x 3 rejected frames on one connection)": 9}));
        ctx.cov("exhaustive", true);
        ctx.cov("distinct_nontrivial", nontrivial);
        ctx.cov("rule", "cases are distinct (template, payload vector) / (base text, offset, payload) tuples; a case is non-trivial if at least one CR or LF byte was placed in client text");
        ctx.cov("replies_checked", replies);
        ctx.cov("reply_kinds", json!(kinds));
        ctx.cov("simple_lines_with_bare_cr_or_lf", bare);
        ctx.cov("templates", json!(ts.iter().map(|t| json!({"name": t.name, "slots": t.slots, "class": t.class})).collect::<Vec<_>>()));
        ctx.cov("offset_bases", json!(bases.iter().map(|b| json!({"name": b.0, "text": b.2})).collect::<Vec<_>>()));
        ctx.cov("payloads", json!(pl.iter().map(|p| esc(p.as_bytes())).collect::<Vec<_>>()));
        for (tn, vals) in [("unknown-command", vec!["", "\r\n", ""]), ("literal-alias-map-list", vec!["\r\n", "\n", "\r", "\r\n"]), ("parse-error", vec!["", "\n", "", ""])] {
            let tpl = ts.iter().find(|t| t.name == tn).unwrap();
            let b = (tpl.build)(&vals);
            if let Ok(o) = run_built(&b) {
                ctx.sample(json!({"template": tn, "command": show_cmd(&b.cmds[0]), "reply": esc(&o.replies[0].1), "strict": format!("{:?}", strict_frames(&o.replies[0].1))}));
            }
        }
        ctx.assume("a CR or LF that is not part of a CR LF pair inside a simple-string/error line still reads as one CRLF-terminated frame under both readers: counted (simple_lines_with_bare_cr_or_lf), not a violation");
        ctx.assume("replies are produced by CommandHandler::handle_command on a fresh handler + store per case and encoded by RespValue::encode, exactly the two calls handle_connection makes");
    });
}

fn replay(ctx: &Ctx, ts: &[Template], bases: &[(&'static str, &'static str, &'static str, fn(&str) -> RespValue)], p: &std::path::Path) {
    let doc: Value = serde_json::from_str(&std::fs::read_to_string(p).unwrap_or_else(|e| ctx.machinery(&format!("read replay: {e}")))).unwrap_or_else(|e| ctx.machinery(&format!("replay json: {e}")));
    let w = &doc["witness"];
    let (name, class, b) = match w["gen"].as_str().unwrap_or("") {
        "slots" => {
            let t = ts.iter().find(|t| Some(t.name) == w["template"].as_str()).unwrap_or_else(|| ctx.machinery("replay: unknown template"));
            let vals: Vec<String> = w["payloads"].as_array().unwrap().iter().map(|x| x.as_str().unwrap().to_string()).collect();
            let refs: Vec<&str> = vals.iter().map(|s| s.as_str()).collect();
            (t.name, t.class, (t.build)(&refs))
        }
        "offsets" => {
            let base = bases.iter().find(|b| Some(b.0) == w["base"].as_str()).unwrap_or_else(|| ctx.machinery("replay: unknown base"));
            let mut t = base.2.to_string();
            t.insert_str(w["offset"].as_u64().unwrap() as usize, w["payload"].as_str().unwrap());
            (base.0, base.1, one((base.3)(&t)))
        }
        "offset-pairs" => {
            let base = bases.iter().find(|b| Some(b.0) == w["base"].as_str()).unwrap_or_else(|| ctx.machinery("replay: unknown base"));
            let mut t = base.2.to_string();
            t.insert_str(w["offset2"].as_u64().unwrap() as usize, w["payload2"].as_str().unwrap());
            t.insert_str(w["offset1"].as_u64().unwrap() as usize, w["payload1"].as_str().unwrap());
            (base.0, base.1, one((base.3)(&t)))
        }
        "binary" => {
            let (_, v) = run_binary(ctx, Some(w["index"].as_u64().unwrap() as usize));
            println!("expected: exactly two frames, the second +PONG");
            if v.is_empty() {
                println!("observed: two frames");
            }
            for (sig, msg, wit) in v {
                println!("observed: {msg}");
                ctx.violation(&sig, msg, wit);
            }
            return;
        }
        other => ctx.machinery(&format!("replay: unknown generator {other:?}")),
    };
    println!("expected: every reply is exactly one RESP frame");
    match run_built(&b) {
        Err(p) => println!("observed: handler panicked: {p}"),
        Ok(o) => {
            for (i, (k, enc)) in o.replies.iter().enumerate() {
                println!("command {}: {}", i, show_cmd(&b.cmds[i]));
                println!("  reply ({k}): {}", esc(enc));
                println!("  strict reader: {:?}; repository decoder: {:?}", strict_frames(enc), repo_frames(enc));
            }
        }
    }
    let out = run_case(w["gen"].as_str().unwrap(), name, class, &b, true, w.clone());
    for (sig, msg, wit) in out.vios {
        ctx.violation(&sig, msg, wit);
    }
}
