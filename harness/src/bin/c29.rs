//! C29 — vector search returns live, current, correctly ranked nodes.
//!
//! hx over Cypher + VectorIndexManager: histories of index creation (cosine | l2), creation of
//! vector-bearing nodes, vector updates, property / label removal, label addition and deletion over
//! <= 3 nodes; after EVERY step the top-k of every query vector and every k in {1,2,3} is read through
//! `CALL db.index.vector.queryNodes` and through `VectorIndexManager::search`, and compared with a
//! brute-force ranking of the live nodes that currently carry label and vector, under the DECLARED
//! metric (ties: any order inside a tie group). All indexes stay far below 128 entries, the regime
//! in which the code searches exactly, so the oracle is strict.
use samyama::graph::{GraphStore, PropertyValue};
use samyama::query::executor::Value;
use samyama::query::QueryEngine;
use serde_json::json;
use std::collections::BTreeSet;
use svmc::engine::ctx::guarded;
use svmc::engine::hx::{self, Model, Step};
use svmc::{run_check, Level};

const VECS: [[f32; 2]; 5] = [[1.0, 0.0], [2.0, 0.0], [0.0, 1.0], [1.0, 1.0], [-1.0, 0.0]];
/// query vectors: chosen so that cosine and L2 order the data vectors differently and so that
/// distinct distances differ by far more than the tie tolerance
const QUERIES: [[f32; 2]; 4] = [[1.0, 0.1], [0.1, 1.0], [3.0, 0.2], [-1.0, 0.3]];
const KS: [usize; 3] = [1, 2, 3];
const TIE_EPS: f64 = 1e-5;

#[derive(Clone, Copy, Debug, PartialEq, Eq, Hash, PartialOrd, Ord)]
enum Metric {
    Cosine,
    L2,
}

#[derive(Clone, Debug, PartialEq, Eq, Hash, PartialOrd, Ord)]
enum Op {
    CreateIndex(Metric),
    /// CREATE VECTOR INDEX wi FOR (n:W) ON (n.e) -- a second index of the same dimension on the
    /// other label (creating an index backfills, which rebuilds every index of the store)
    CreateIndexW,
    /// CREATE (:V {u: slot, e: vec})
    CreateV(usize, usize),
    /// CREATE (:V {u: slot})   -- labelled, no vector
    CreateVNoVec(usize),
    /// CREATE (:W {u: slot, e: VECS[0]})   -- vector, other label
    CreateW(usize),
    /// MATCH (n {u: slot}) SET n.e = vec
    SetE(usize, usize),
    /// MATCH (n {u: slot}) REMOVE n.e
    RemoveE(usize),
    /// MATCH (n {u: slot}) REMOVE n:V
    RemoveLabel(usize),
    /// MATCH (n {u: slot}) SET n:V
    SetLabel(usize),
    /// MATCH (n {u: slot}) DELETE n
    Delete(usize),
}

#[derive(Clone, Debug, PartialEq, Eq, Hash, PartialOrd, Ord)]
struct RNode {
    id: u64,
    has_v: bool,
    e: Option<usize>,
    /// carries label :W (set at creation, never removed)
    w: bool,
}

/// Reference state + a simulation of the index as an entry list (who was added when), from which
/// the correct answer and the answers under each suspected defect are computed.
#[derive(Clone, Debug, Default)]
struct Ref {
    slots: [Option<RNode>; 3],
    index: Option<Metric>,
    /// the second index, on :W(e), exists
    windex: bool,
    /// every add_vector the index has seen since it was (re)built: (node id, vector), in order,
    /// with a flag whether a correct index would still hold the entry
    entries: Vec<Entry>,
    hist: Vec<Op>,
    diverged: bool,
    /// ids of deleted nodes in deletion order (the store reuses them LIFO; the order decides which
    /// id -- and therefore which stale index entry -- a later creation meets)
    free: Vec<u64>,
}
#[derive(Clone, Debug, PartialEq, Eq, Hash)]
struct Entry {
    node: u64,
    vec: usize,
    /// superseded by a later vector of the same node (a correct index replaces)
    superseded: bool,
    /// the node died / lost the label / lost the property afterwards (a correct index removes)
    dead: bool,
}

struct St {
    g: GraphStore,
    eng: QueryEngine,
    r: Ref,
}

struct M {
    nvecs_set: usize,
    /// non-initial start state: an index (of this metric) holding ONE node whose vector has been
    /// rewritten this many times. The number of vector writes an index has seen is implementation
    /// state that decides futures (HNSW keeps every superseded point; the exact-scan / HNSW switch
    /// sits at 128): unreachable from the empty store within the tiers' depth (seeded change C29).
    prefill: Option<(Metric, usize)>,
}

fn vlit(i: usize) -> String {
    format!("[{:?}, {:?}]", VECS[i][0], VECS[i][1])
}

fn dist(m: Metric, a: &[f32; 2], b: &[f32; 2]) -> f64 {
    let (a0, a1, b0, b1) = (a[0] as f64, a[1] as f64, b[0] as f64, b[1] as f64);
    match m {
        Metric::L2 => ((a0 - b0).powi(2) + (a1 - b1).powi(2)).sqrt(),
        Metric::Cosine => {
            let dot = a0 * b0 + a1 * b1;
            let na = (a0 * a0 + a1 * a1).sqrt();
            let nb = (b0 * b0 + b1 * b1).sqrt();
            1.0 - dot / (na * nb)
        }
    }
}

/// Ranked tie groups of (node id) for a set of (node, vector) entries under a metric.
fn rank_groups(m: Metric, q: &[f32; 2], entries: &[(u64, usize)]) -> Vec<(f64, Vec<u64>)> {
    let mut scored: Vec<(f64, u64)> = entries.iter().map(|(n, v)| (dist(m, q, &VECS[*v]), *n)).collect();
    scored.sort_by(|a, b| a.0.partial_cmp(&b.0).unwrap().then(a.1.cmp(&b.1)));
    let mut groups: Vec<(f64, Vec<u64>)> = vec![];
    for (d, n) in scored {
        match groups.last_mut() {
            Some((gd, g)) if (d - *gd).abs() < TIE_EPS => g.push(n),
            _ => groups.push((d, vec![n])),
        }
    }
    groups
}

/// Is `got` an admissible top-k of the multiset `entries`: exactly min(k, n) rows, and the sequence
/// is the ranked order up to permutation inside tie groups (the last group may be cut anywhere)?
fn admissible(m: Metric, q: &[f32; 2], entries: &[(u64, usize)], k: usize, got: &[u64]) -> bool {
    let want_len = k.min(entries.len());
    if got.len() != want_len {
        return false;
    }
    let groups = rank_groups(m, q, entries);
    let mut pos = 0;
    for (_, g) in groups {
        if pos >= got.len() {
            break;
        }
        let take = g.len().min(got.len() - pos);
        let mut avail = g.clone();
        for x in &got[pos..pos + take] {
            match avail.iter().position(|a| a == x) {
                Some(i) => {
                    avail.remove(i);
                }
                None => return false,
            }
        }
        pos += take;
    }
    pos == got.len()
}

impl Ref {
    fn live_entries(&self) -> Vec<(u64, usize)> {
        self.slots.iter().flatten().filter(|n| n.has_v).filter_map(|n| n.e.map(|e| (n.id, e))).collect()
    }
    /// entries a index would hold if it had the given defects
    fn entries_under(&self, append: bool, dead: bool) -> Vec<(u64, usize)> {
        self.entries.iter().filter(|e| (append || !e.superseded) && (dead || !e.dead)).map(|e| (e.node, e.vec)).collect()
    }
    fn add_entry(&mut self, node: u64, vec: usize) {
        if self.index.is_none() {
            return;
        }
        for e in self.entries.iter_mut() {
            // a correct index holds one entry per node id: a new vector for that id replaces whatever
            // is filed under it, including the entry of a deleted node whose id has been reused
            if e.node == node {
                e.superseded = true;
            }
        }
        self.entries.push(Entry { node, vec, superseded: false, dead: false });
    }
    fn kill_entries(&mut self, node: u64) {
        for e in self.entries.iter_mut() {
            if e.node == node {
                e.dead = true;
            }
        }
    }
    fn rebuild_entries(&mut self) {
        // CREATE VECTOR INDEX backfills from the live nodes
        self.entries = self.live_entries().into_iter().map(|(node, vec)| Entry { node, vec, superseded: false, dead: false }).collect();
    }
}

fn node_id_of_slot(g: &GraphStore, slot: usize) -> Option<u64> {
    g.all_nodes().iter().find(|n| matches!(n.properties.get("u"), Some(PropertyValue::Integer(i)) if *i == slot as i64)).map(|n| n.id.as_u64())
}

#[derive(Clone, Debug, PartialEq)]
enum Obs {
    Rows(Vec<u64>),
    Err(String),
}

fn search_cypher(st: &St, q: &[f32; 2], k: usize) -> Obs {
    let s = format!("CALL db.index.vector.queryNodes('V', 'e', [{:?}, {:?}], {k}) YIELD node, score RETURN node, score", q[0], q[1]);
    match guarded(|| st.eng.execute(&s, &st.g).map_err(|e| e.to_string())) {
        Ok(Ok(batch)) => {
            let mut ids = vec![];
            for rec in &batch.records {
                match rec.get("node") {
                    Some(Value::NodeRef(id)) => ids.push(id.as_u64()),
                    Some(Value::Node(id, _)) => ids.push(id.as_u64()),
                    other => return Obs::Err(format!("row without a node: {other:?}")),
                }
            }
            Obs::Rows(ids)
        }
        Ok(Err(e)) => Obs::Err(e),
        Err(p) => Obs::Err(format!("panic: {p}")),
    }
}

fn search_manager(st: &St, q: &[f32; 2], k: usize) -> Obs {
    match guarded(|| st.g.vector_index.search("V", "e", &q[..], k).map_err(|e| e.to_string())) {
        Ok(Ok(v)) => Obs::Rows(v.iter().map(|(n, _)| n.as_u64()).collect()),
        Ok(Err(e)) => Obs::Err(e),
        Err(p) => Obs::Err(format!("panic: {p}")),
    }
}

/// Compare all observations with the reference; classify a mismatch by the smallest set of
/// suspected defects (APPEND: an update appends, DEAD: removals leave the entry, METRIC: cosine
/// whatever was declared) under which a simulated index gives exactly what was observed.
fn compare(st: &St, vio: &mut Vec<(String, String)>) {
    let r = &st.r;
    if r.windex {
        // the second index: whatever it returns among the LIVE nodes must carry :W and a vector
        // (entries of deleted nodes are the known removal gap and are judged on the :V index)
        for q in &QUERIES {
            if let Ok(Ok(rows)) = guarded(|| st.g.vector_index.search("W", "e", &q[..], 3).map_err(|e| e.to_string())) {
                for (n, _) in rows {
                    if let Some(node) = r.slots.iter().flatten().find(|x| x.id == n.as_u64()) {
                        if !node.w {
                            vio.push(("second_index:foreign_node".into(), format!("search over :W(e) returned node {} which does not carry :W (reference node {node:?})", n.as_u64())));
                            return;
                        }
                    }
                }
            }
        }
    }
    let declared = match r.index {
        Some(m) => m,
        None => {
            // no index: both paths must return nothing (or refuse)
            for q in &QUERIES {
                if let Obs::Rows(v) = search_manager(st, q, 3) {
                    if !v.is_empty() {
                        vio.push(("no_index:rows".into(), format!("no index exists, VectorIndexManager::search returned {v:?}")));
                    }
                }
                if let Obs::Rows(v) = search_cypher(st, q, 3) {
                    if !v.is_empty() {
                        vio.push(("no_index:rows".into(), format!("no index exists, queryNodes returned {v:?}")));
                    }
                }
            }
            return;
        }
    };
    let live = r.live_entries();
    let live_ids: BTreeSet<u64> = r.slots.iter().flatten().map(|n| n.id).collect();
    // candidate explanations, smallest first
    let combos: [(&str, bool, bool, bool); 8] = [
        ("", false, false, false),
        ("C29-METRIC", false, false, true),
        ("C29-APPEND", true, false, false),
        ("C29-DEAD", false, true, false),
        ("C29-APPEND+METRIC", true, false, true),
        ("C29-DEAD+METRIC", false, true, true),
        ("C29-APPEND+DEAD", true, true, false),
        ("C29-APPEND+DEAD+METRIC", true, true, true),
    ];
    // collect all observations first
    let mut obs: Vec<(usize, usize, Obs, Obs)> = vec![];
    for (qi, q) in QUERIES.iter().enumerate() {
        for &k in &KS {
            obs.push((qi, k, search_manager(st, q, k), search_cypher(st, q, k)));
        }
    }
    let ok_under = |append: bool, dead: bool, metric_bug: bool| -> Option<String> {
        // returns None if every observation is admissible under this hypothesis, else a description
        let ents = if !append && !dead { live.clone() } else { r.entries_under(append, dead) };
        let m = if metric_bug { Metric::Cosine } else { declared };
        for (qi, k, om, oc) in &obs {
            let q = &QUERIES[*qi];
            let rows_m = match om {
                Obs::Rows(v) => v,
                Obs::Err(e) => return Some(format!("VectorIndexManager::search(q={q:?},k={k}) failed: {e}")),
            };
            if !admissible(m, q, &ents, *k, rows_m) {
                return Some(format!("VectorIndexManager::search(q={q:?},k={k}) = {rows_m:?}; admissible top-{k} of {:?} under {m:?}: groups {:?}", ents, rank_groups(m, q, &ents)));
            }
            // the Cypher path: same node sequence; it may fail only if a returned node does not exist
            match oc {
                Obs::Rows(v) => {
                    if !admissible(m, q, &ents, *k, v) {
                        return Some(format!("queryNodes(q={q:?},k={k}) = {v:?}; admissible top-{k} of {:?} under {m:?}: groups {:?}", ents, rank_groups(m, q, &ents)));
                    }
                }
                Obs::Err(e) => {
                    let has_dead = rows_m.iter().any(|n| !live_ids.contains(n));
                    if !(dead && has_dead) {
                        return Some(format!("queryNodes(q={q:?},k={k}) failed: {e}"));
                    }
                }
            }
        }
        None
    };
    let first = ok_under(false, false, false);
    let Some(why) = first else { return };
    for (name, a, d, mb) in combos.iter().skip(1) {
        // METRIC can only be blamed on an index declared l2
        if *mb && declared != Metric::L2 {
            continue;
        }
        if ok_under(*a, *d, *mb).is_none() {
            vio.push((name.to_string(), format!("{why} [observations are exactly those of an index with the defect(s) {name}]")));
            return;
        }
    }
    vio.push(("unclassified:vector_search".into(), why));
}

impl Model for M {
    type Op = Op;
    type State = St;
    type Key = String;
    fn init(&self) -> St {
        let mut st = St { g: GraphStore::new(), eng: QueryEngine::new(), r: Ref::default() };
        if let Some((metric, n)) = &self.prefill {
            self.apply(&mut st, &Op::CreateIndex(metric.clone()), false);
            self.apply(&mut st, &Op::CreateV(0, 0), false);
            for i in 0..*n {
                self.apply(&mut st, &Op::SetE(0, 1 + (i % 2)), false);
            }
            // the prefill is not part of the explored history
            st.r.hist.clear();
        }
        st
    }
    fn ops(&self, st: &St) -> Vec<Op> {
        let r = &st.r;
        let mut v = vec![];
        if r.index.is_none() {
            v.push(Op::CreateIndex(Metric::Cosine));
            v.push(Op::CreateIndex(Metric::L2));
        }
        if !r.windex {
            v.push(Op::CreateIndexW);
        }
        if let Some(slot) = (0..3).find(|s| r.slots[*s].is_none()) {
            for i in 0..VECS.len() {
                v.push(Op::CreateV(slot, i));
            }
            v.push(Op::CreateVNoVec(slot));
            v.push(Op::CreateW(slot));
        }
        for s in 0..3 {
            if let Some(n) = &r.slots[s] {
                for i in 0..self.nvecs_set {
                    v.push(Op::SetE(s, i));
                }
                if n.e.is_some() {
                    v.push(Op::RemoveE(s));
                }
                if n.has_v {
                    v.push(Op::RemoveLabel(s));
                } else {
                    v.push(Op::SetLabel(s));
                }
                v.push(Op::Delete(s));
            }
        }
        v
    }
    fn apply(&self, st: &mut St, op: &Op, check: bool) -> Step {
        let mut vio: Vec<(String, String)> = vec![];
        st.r.hist.push(op.clone());
        let stmt = match op {
            Op::CreateIndex(m) => format!("CREATE VECTOR INDEX vi FOR (n:V) ON (n.e) OPTIONS {{dimensions: 2, similarity: '{}'}}", if *m == Metric::L2 { "l2" } else { "cosine" }),
            Op::CreateIndexW => "CREATE VECTOR INDEX wi FOR (n:W) ON (n.e) OPTIONS {dimensions: 2, similarity: 'cosine'}".to_string(),
            Op::CreateV(s, i) => format!("CREATE (:V {{u: {s}, e: {}}})", vlit(*i)),
            Op::CreateVNoVec(s) => format!("CREATE (:V {{u: {s}}})"),
            Op::CreateW(s) => format!("CREATE (:W {{u: {s}, e: {}}})", vlit(0)),
            Op::SetE(s, i) => format!("MATCH (n) WHERE n.u = {s} SET n.e = {}", vlit(*i)),
            Op::RemoveE(s) => format!("MATCH (n) WHERE n.u = {s} REMOVE n.e"),
            Op::RemoveLabel(s) => format!("MATCH (n) WHERE n.u = {s} REMOVE n:V"),
            Op::SetLabel(s) => format!("MATCH (n) WHERE n.u = {s} SET n:V"),
            Op::Delete(s) => format!("MATCH (n) WHERE n.u = {s} DELETE n"),
        };
        let res = {
            let (eng, g) = (&st.eng, &mut st.g);
            guarded(|| eng.execute_mut(&stmt, g, "default").map(|b| b.records.len()).map_err(|e| e.to_string()))
        };
        let outcome = match &res {
            Ok(Ok(_)) => "ok".to_string(),
            Ok(Err(e)) => {
                vio.push((format!("statement_refused:{}", self.op_name(op)), format!("`{stmt}` failed: {e}")));
                "err".to_string()
            }
            Err(p) => {
                vio.push((format!("statement_panicked:{}", self.op_name(op)), format!("`{stmt}` panicked: {p}")));
                "panic".to_string()
            }
        };
        if outcome == "ok" {
            let r = &mut st.r;
            match op {
                Op::CreateIndex(m) => {
                    r.index = Some(*m);
                    r.rebuild_entries();
                }
                Op::CreateIndexW => {
                    r.windex = true;
                    // the backfill rebuilds every index from the live nodes
                    if r.index.is_some() {
                        r.rebuild_entries();
                    }
                }
                Op::CreateV(s, _) | Op::CreateVNoVec(s) | Op::CreateW(s) => match node_id_of_slot(&st.g, *s) {
                    Some(id) => {
                        let (has_v, e) = match op {
                            Op::CreateV(_, i) => (true, Some(*i)),
                            Op::CreateVNoVec(_) => (true, None),
                            _ => (false, Some(0)),
                        };
                        r.free.retain(|x| *x != id);
                        r.slots[*s] = Some(RNode { id, has_v, e, w: matches!(op, Op::CreateW(_)) });
                        if has_v {
                            if let Some(e) = e {
                                r.add_entry(id, e);
                            }
                        }
                    }
                    None => vio.push(("create:node_missing".into(), format!("`{stmt}` succeeded but no node with u = {s} exists"))),
                },
                Op::SetE(s, i) => {
                    let n = r.slots[*s].as_mut().unwrap();
                    n.e = Some(*i);
                    let (id, has_v) = (n.id, n.has_v);
                    if has_v {
                        r.add_entry(id, *i);
                    }
                }
                Op::RemoveE(s) => {
                    let n = r.slots[*s].as_mut().unwrap();
                    n.e = None;
                    let id = n.id;
                    r.kill_entries(id);
                }
                Op::RemoveLabel(s) => {
                    let n = r.slots[*s].as_mut().unwrap();
                    n.has_v = false;
                    let id = n.id;
                    r.kill_entries(id);
                }
                Op::SetLabel(s) => {
                    let n = r.slots[*s].as_mut().unwrap();
                    n.has_v = true;
                    let (id, e) = (n.id, n.e);
                    if let Some(e) = e {
                        r.add_entry(id, e);
                    }
                }
                Op::Delete(s) => {
                    let id = r.slots[*s].take().unwrap().id;
                    r.free.push(id);
                    r.kill_entries(id);
                }
            }
            // validate the simulated entry list against the index's own entry count
            if let Some(ix) = st.g.vector_index.get_index("V", "e") {
                let len = ix.read().unwrap().len();
                let correct = st.r.entries_under(false, false).len();
                let pinned = st.r.entries_under(true, true).len();
                let append_only = st.r.entries_under(true, false).len();
                let dead_only = st.r.entries_under(false, true).len();
                if ![correct, pinned, append_only, dead_only].contains(&len) {
                    st.r.diverged = true;
                }
            }
        }
        if check && vio.is_empty() {
            compare(st, &mut vio);
        }
        Step { violations: vio, outcome }
    }
    fn key(&self, st: &St) -> String {
        let r = &st.r;
        if r.diverged {
            return format!("H{:?}", r.hist);
        }
        // reference graph (slot -> node id, label, vector), index metric, the full simulated entry
        // list (decides futures on an index that appends / keeps dead entries), stored-entry count
        let len = st.g.vector_index.get_index("V", "e").map(|ix| ix.read().unwrap().len());
        format!("{:?}|{:?}|{:?}|{:?}|free{:?}|w{}", r.slots, r.index, r.entries, len, r.free, r.windex)
    }
    fn op_name(&self, op: &Op) -> String {
        match op {
            Op::CreateIndex(_) => "create_index",
            Op::CreateIndexW => "create_index_w",
            Op::CreateV(..) => "create_v",
            Op::CreateVNoVec(_) => "create_v_novec",
            Op::CreateW(_) => "create_w",
            Op::SetE(..) => "set_e",
            Op::RemoveE(_) => "remove_e",
            Op::RemoveLabel(_) => "remove_label",
            Op::SetLabel(_) => "set_label",
            Op::Delete(_) => "delete",
        }
        .to_string()
    }
}

fn silence_stderr() {
    unsafe {
        let fd = libc::open(b"/dev/null\0".as_ptr() as *const libc::c_char, libc::O_WRONLY);
        if fd >= 0 {
            libc::dup2(fd, 2);
        }
    }
}

fn main() {
    run_check("C29", Level::ModelChecking, |ctx| {
        silence_stderr();
        let (depth, nvecs_set, cap) = match ctx.tier {
            svmc::Tier::Quick => (4, 3, 2_000_000u64),
            svmc::Tier::Thorough => (5, 3, 2_000_000u64),
        };
        let m = M { nvecs_set, prefill: None };
        if let Some(p) = &ctx.replay {
            replay(ctx, &m, p);
            return;
        }
        let stats = hx::explore(&m, depth, cap, |v| {
            ctx.violation(&v.sig, v.msg, json!({"history": v.history.iter().map(|o| format!("{:?}", o)).collect::<Vec<_>>()}));
        });
        // second pass: from the prefilled start states (130 rewrites of one node's vector), both metrics
        let mut stats = stats;
        let pre_depth = if ctx.quick() { 1 } else { 2 };
        for metric in [Metric::Cosine, Metric::L2] {
            let mp = M { nvecs_set, prefill: Some((metric.clone(), 130)) };
            let s2 = hx::explore(&mp, pre_depth, cap, |v| {
                ctx.violation(&v.sig, format!("[start: index with one node after 130 vector rewrites] {}", v.msg), json!({"prefill": format!("{:?} index, one node, 130 vector rewrites", metric), "history": v.history.iter().map(|o| format!("{:?}", o)).collect::<Vec<_>>()}));
            });
            stats.states += s2.states;
            stats.transitions += s2.transitions;
            stats.pruned_after_violation += s2.pruned_after_violation;
            stats.cap_hit |= s2.cap_hit;
        }
        hx::report(
            ctx,
            &stats,
            "CREATE VECTOR INDEX (cosine | l2) | CREATE (:V {e: vec}) | CREATE (:V) | CREATE (:W {e: vec}) | SET n.e = vec | REMOVE n.e | REMOVE n:V | SET n:V | DELETE n; <= 3 nodes, vectors {(1,0),(2,0),(0,1),(1,1),(-1,0)}; observed after every step: top-k for 4 query vectors x k in {1,2,3} through queryNodes and VectorIndexManager::search",
        );
        ctx.assume("searches are observations taken after every step (they do not change state), not transitions");
        ctx.assume("ties (distances within 1e-5): any order inside a tie group is accepted; scores are not compared, only membership, multiplicity and order");
        ctx.assume("queryNodes may fail only when the index returns a node that no longer exists (attributed to C29-DEAD); any other failure is a violation");
        ctx.assume("classification: a mismatch is attributed to the smallest set of {APPEND, DEAD, METRIC} under which a simulated index (append on update / keep removed entries / cosine whatever was declared) reproduces every observation of that state exactly; otherwise unclassified");
        ctx.assume("the dedup key holds the reference graph, the metric, the simulated index entry list and the index's own entry count (validated after every step)");
        ctx.assume("at most one index (created once per history, at any position: creation backfills from live nodes); InnerProduct is outside the alphabet");
    });
}

fn replay(ctx: &svmc::Ctx, m: &M, p: &std::path::Path) {
    let doc: serde_json::Value = serde_json::from_str(&std::fs::read_to_string(p).expect("read replay")).expect("json");
    let hist: Vec<String> = doc["witness"]["history"].as_array().unwrap().iter().map(|s| s.as_str().unwrap().to_string()).collect();
    let mfull = M { nvecs_set: 5, prefill: None };
    let _ = m;
    let mut st = mfull.init();
    for (i, want) in hist.iter().enumerate() {
        let ops = mfull.ops(&st);
        let op = ops.iter().find(|o| &format!("{:?}", o) == want).unwrap_or_else(|| ctx.machinery(&format!("replay: op {want} not enabled at step {i}")));
        let step = mfull.apply(&mut st, op, true);
        println!("step {i}: {want} -> {}", step.outcome);
        if st.r.index.is_some() {
            let q = &QUERIES[0];
            println!("  live (node, vector index): {:?}; queryNodes(q={q:?}, k=3) = {:?}; manager.search = {:?}", st.r.live_entries(), search_cypher(&st, q, 3), search_manager(&st, q, 3));
        }
        for (sig, msg) in step.violations {
            println!("  MISMATCH [{sig}] {msg}");
            if doc["signature"].as_str() == Some(sig.as_str()) {
                ctx.violation(&sig, msg, json!({"history": hist[..=i]}));
            }
        }
    }
}
