//! C34 — optimisation solvers return consistent, in-bounds, reproducible results (DESIGN §C34).
//!
//! A finite lattice, enumerated completely: every solver of `samyama_optimization::algorithms`
//! (29 solver types; 35 instances counting the Rao / QO-Rao / MO-BMWR variants)
//!   x problems {sphere, shifted linear, plateau, penalised}           (single objective)
//!     / {two spheres}                                                   (multi objective)
//!   x dim {1,2,3,6} (thorough: +10) x bounds {symmetric, asymmetric [2,5], one-sided [-1,0], degenerate lo==hi, tiny width 1e-12}
//!   x population {2,3,10,12} x iterations {0,1,7} x seeds {0,1,2} (thorough: {2,3,4,5,10,30} x {0,1,2,7,30} x {0..5})
//!   x runs {pool 1, pool 1 again, pool 8}.
//! Every run happens in a worker process (stdout of the solvers silenced, timeout = hang outcome).
use ndarray::Array1;
use samyama_optimization::algorithms as alg;
use samyama_optimization::common::{MultiObjectiveProblem, MultiObjectiveResult, OptimizationResult, Problem, SolverConfig};
use serde_json::{json, Value as J};
use std::collections::BTreeMap;
use std::io::{BufRead, Write};
use std::time::Duration;
use svmc::engine::ctx::guarded;
use svmc::engine::subproc::{self, Outcome};
use svmc::{run_check, Ctx, Level};

/// lattice per tier: (dims, populations, iterations, seeds)
struct Lattice {
    dims: &'static [usize],
    pops: &'static [usize],
    iters: &'static [usize],
    seeds: &'static [u64],
}
const QUICK: Lattice = Lattice { dims: &[1, 2, 3, 6], pops: &[2, 3, 10, 12], iters: &[0, 1, 7], seeds: &[0, 1, 2] };
const THOROUGH: Lattice = Lattice { dims: &[1, 2, 3, 6, 10], pops: &[2, 3, 4, 5, 10, 30], iters: &[0, 1, 2, 7, 30], seeds: &[0, 1, 2, 3, 4, 5] };
fn lattice(t: usize) -> &'static Lattice {
    if t == 0 {
        &QUICK
    } else {
        &THOROUGH
    }
}
const BOUNDS: [&str; 5] = ["symmetric[-5,5]", "asymmetric[2,5]", "one-sided[-1,0]", "degenerate(dim0 lo==hi==2, rest [-5,5])", "tiny[1,1+1e-12]"];
const PROBLEMS: [&str; 4] = ["sphere", "shifted-linear", "plateau", "penalised-sphere"];

const SINGLE: [&str; 29] = [
    "Jaya", "Rao1", "Rao2", "Rao3", "TLBO", "BMR", "BWR", "QOJaya", "ITLBO", "PSO", "DE", "GOTLBO", "Firefly", "Cuckoo", "GWO", "GA", "SA", "Bat", "ABC", "GSA", "HS", "FPA", "BMWR", "SAMPJaya", "EHRJaya", "QORao1", "QORao2",
    "QORao3", "SAPHR",
];
const MULTI: [&str; 6] = ["NSGA2", "MOTLBO", "MOBMR", "MOBWR", "MOBMWR", "MORaoDE"];

fn bounds(kind: usize, dim: usize) -> (Vec<f64>, Vec<f64>) {
    match kind {
        0 => (vec![-5.0; dim], vec![5.0; dim]),
        1 => (vec![2.0; dim], vec![5.0; dim]),
        2 => (vec![-1.0; dim], vec![0.0; dim]),
        3 => {
            let mut lo = vec![-5.0; dim];
            let mut hi = vec![5.0; dim];
            lo[0] = 2.0;
            hi[0] = 2.0;
            (lo, hi)
        }
        _ => (vec![1.0; dim], vec![1.0 + 1e-12; dim]),
    }
}

struct Prob {
    kind: usize,
    lo: Vec<f64>,
    hi: Vec<f64>,
}
impl Problem for Prob {
    fn objective(&self, v: &Array1<f64>) -> f64 {
        match self.kind {
            0 | 3 => v.iter().map(|x| x * x).sum(),
            1 => v.iter().enumerate().map(|(i, x)| (i as f64 + 1.0) * (x - 0.25)).sum::<f64>() + 3.0,
            _ => v.iter().map(|x| x.floor()).sum(),
        }
    }
    fn penalty(&self, v: &Array1<f64>) -> f64 {
        if self.kind == 3 {
            // feasible region: the upper half of dimension 0
            let mid = 0.5 * (self.lo[0] + self.hi[0]);
            1000.0 * (mid - v[0]).max(0.0)
        } else {
            0.0
        }
    }
    fn dim(&self) -> usize {
        self.lo.len()
    }
    fn bounds(&self) -> (Array1<f64>, Array1<f64>) {
        (Array1::from(self.lo.clone()), Array1::from(self.hi.clone()))
    }
}
struct MProb {
    lo: Vec<f64>,
    hi: Vec<f64>,
}
impl MultiObjectiveProblem for MProb {
    fn objectives(&self, v: &Array1<f64>) -> Vec<f64> {
        vec![v.iter().map(|x| x * x).sum(), v.iter().map(|x| (x - 1.0) * (x - 1.0)).sum()]
    }
    fn dim(&self) -> usize {
        self.lo.len()
    }
    fn bounds(&self) -> (Array1<f64>, Array1<f64>) {
        (Array1::from(self.lo.clone()), Array1::from(self.hi.clone()))
    }
    fn num_objectives(&self) -> usize {
        2
    }
}

fn solve_single(si: usize, cfg: SolverConfig, seed: u64, p: &Prob) -> OptimizationResult {
    use alg::RaoVariant as RV;
    match si {
        0 => alg::JayaSolver::new(cfg).with_seed(seed).solve(p),
        1 => alg::RaoSolver::new(cfg, RV::Rao1).with_seed(seed).solve(p),
        2 => alg::RaoSolver::new(cfg, RV::Rao2).with_seed(seed).solve(p),
        3 => alg::RaoSolver::new(cfg, RV::Rao3).with_seed(seed).solve(p),
        4 => alg::TLBOSolver::new(cfg).with_seed(seed).solve(p),
        5 => alg::BMRSolver::new(cfg).with_seed(seed).solve(p),
        6 => alg::BWRSolver::new(cfg).with_seed(seed).solve(p),
        7 => alg::QOJayaSolver::new(cfg).with_seed(seed).solve(p),
        8 => alg::ITLBOSolver::new(cfg).with_seed(seed).solve(p),
        9 => alg::PSOSolver::new(cfg).with_seed(seed).solve(p),
        10 => alg::DESolver::new(cfg).with_seed(seed).solve(p),
        11 => alg::GOTLBOSolver::new(cfg).with_seed(seed).solve(p),
        12 => alg::FireflySolver::new(cfg).with_seed(seed).solve(p),
        13 => alg::CuckooSolver::new(cfg).with_seed(seed).solve(p),
        14 => alg::GWOSolver::new(cfg).with_seed(seed).solve(p),
        15 => alg::GASolver::new(cfg).with_seed(seed).solve(p),
        16 => alg::SASolver::new(cfg).with_seed(seed).solve(p),
        17 => alg::BatSolver::new(cfg).with_seed(seed).solve(p),
        18 => alg::ABCSolver::new(cfg).with_seed(seed).solve(p),
        19 => alg::GSASolver::new(cfg).with_seed(seed).solve(p),
        20 => alg::HSSolver::new(cfg).with_seed(seed).solve(p),
        21 => alg::FPASolver::new(cfg).with_seed(seed).solve(p),
        22 => alg::BMWRSolver::new(cfg).with_seed(seed).solve(p),
        23 => alg::SAMPJayaSolver::new(cfg).with_seed(seed).solve(p),
        24 => alg::EHRJayaSolver::new(cfg).with_seed(seed).solve(p),
        25 => alg::QORaoSolver::new(cfg, RV::Rao1).with_seed(seed).solve(p),
        26 => alg::QORaoSolver::new(cfg, RV::Rao2).with_seed(seed).solve(p),
        27 => alg::QORaoSolver::new(cfg, RV::Rao3).with_seed(seed).solve(p),
        _ => alg::SAPHRSolver::new(cfg).with_seed(seed).solve(p),
    }
}
fn solve_multi(mi: usize, cfg: SolverConfig, seed: u64, p: &MProb) -> MultiObjectiveResult {
    use alg::MOBMWRVariant as MV;
    match mi {
        0 => alg::NSGA2Solver::new(cfg).with_seed(seed).solve(p),
        1 => alg::MOTLBOSolver::new(cfg).with_seed(seed).solve(p),
        2 => alg::MOBMWRSolver::new(cfg, MV::MOBMR).with_seed(seed).solve(p),
        3 => alg::MOBMWRSolver::new(cfg, MV::MOBWR).with_seed(seed).solve(p),
        4 => alg::MOBMWRSolver::new(cfg, MV::MOBMWR).with_seed(seed).solve(p),
        _ => alg::MORaoDESolver::new(cfg).with_seed(seed).solve(p),
    }
}

/// Configurations the algorithm's own definition excludes (not judged, not run):
/// DE/rand/1 needs three peers distinct from the target and from each other, i.e. population >= 4
/// (the peer-selection loop cannot terminate otherwise).
fn excluded(single: bool, idx: usize, pop: usize, iters: usize) -> Option<&'static str> {
    if single && SINGLE[idx] == "DE" && pop < 4 && iters > 0 {
        return Some("DE/rand/1 needs population >= 4 (three distinct peers besides the target)");
    }
    if !single && MULTI[idx] == "MORaoDE" && pop < 4 && iters > 0 {
        return Some("MO-Rao+DE's DE/rand/1/bin move needs population >= 4 (three distinct peers besides the target)");
    }
    None
}

thread_local! {
    static POOLS: (rayon::ThreadPool, rayon::ThreadPool) = (
        rayon::ThreadPoolBuilder::new().num_threads(1).build().unwrap(),
        rayon::ThreadPoolBuilder::new().num_threads(8).build().unwrap(),
    );
}
fn in_pool<T: Send>(k: usize, f: impl FnOnce() -> T + Send) -> T {
    POOLS.with(|p| if k == 1 { p.0.install(f) } else { p.1.install(f) })
}

fn bits(v: &[f64]) -> Vec<u64> {
    v.iter().map(|x| x.to_bits()).collect()
}

#[derive(Default)]
struct Stats {
    points: u64,
    unjudged: u64,
    nontrivial: u64,
    runs: u64,
    vio: BTreeMap<String, (u64, String, J)>,
}
impl Stats {
    fn add(&mut self, sig: String, msg: String, w: J) {
        match self.vio.get_mut(&sig) {
            Some(e) => e.0 += 1,
            None => {
                self.vio.insert(sig, (1, msg, w));
            }
        }
    }
    fn to_json(&self) -> String {
        let vio: Vec<J> = self.vio.iter().map(|(s, (c, m, w))| json!([s, c, m, w])).collect();
        json!({"points": self.points, "unjudged": self.unjudged, "nontrivial": self.nontrivial, "runs": self.runs, "vio": vio}).to_string()
    }
}

/// Region part of a signature: only the lattice coordinates that can explain a failure.
fn region(bk: usize, pop: usize, iters: usize) -> String {
    let mut r = vec![];
    if bk == 3 {
        r.push("some-dimension-has-lo==hi".to_string());
    }
    if bk == 4 {
        r.push("width-1e-12".to_string());
    }
    if iters == 0 {
        r.push("iterations=0".to_string());
    }
    if pop < 4 {
        r.push("population<4".to_string());
    }
    if r.is_empty() {
        "regular".into()
    } else {
        r.join("+")
    }
}

/// Signature of a violation. The degenerate-box panic is one defect shared by every solver
/// (initial sampling with `gen_range(lo..hi)` on an empty range), so it gets one solver-independent
/// signature keyed on exactly "some dimension has lo == hi" + "panic: cannot sample empty range".
fn sig_of(name: &str, symptom: &str, bk: usize, pop: usize, iters: usize) -> String {
    if symptom == "panic-cannot-sample-empty-range" && bk == 3 {
        return "C34-DEGENERATE:some-dimension-has-lo==hi:panic-cannot-sample-empty-range".to_string();
    }
    format!("{name}:{symptom}:{}", region(bk, pop, iters))
}

fn panic_class(p: &str) -> &'static str {
    if p.contains("empty range") {
        "panic-cannot-sample-empty-range"
    } else if p.contains("index out of bounds") || p.contains("out of range") {
        "panic-index-out-of-bounds"
    } else if p.contains("unwrap") {
        "panic-unwrap"
    } else {
        "panic-other"
    }
}

fn wit(single: bool, idx: usize, pk: usize, dim: usize, bk: usize, pop: usize, iters: usize, seed: u64) -> J {
    json!({"kind": if single { "single" } else { "multi" }, "solver": if single { SINGLE[idx] } else { MULTI[idx] }, "solver_index": idx, "problem": if single { PROBLEMS[pk] } else { "two-spheres" }, "problem_index": pk,
           "dim": dim, "bounds": BOUNDS[bk], "bounds_index": bk, "population": pop, "iterations": iters, "seed": seed})
}

/// one lattice point family: the three runs (pool 1, pool 1, pool 8) of one configuration
fn run_point_single(si: usize, pk: usize, dim: usize, bk: usize, pop: usize, iters: usize, seed: u64, st: &mut Stats, verbose: bool) {
    st.points += 3;
    let name = SINGLE[si];
    if let Some(why) = excluded(true, si, pop, iters) {
        st.unjudged += 3;
        if verbose {
            println!("  not judged: {why}");
        }
        return;
    }
    let (lo, hi) = bounds(bk, dim);
    let p = Prob { kind: pk, lo: lo.clone(), hi: hi.clone() };
    let w = || wit(true, si, pk, dim, bk, pop, iters, seed);
    let mut results: Vec<Option<OptimizationResult>> = vec![];
    for (ri, pool) in [1usize, 1, 8].into_iter().enumerate() {
        st.runs += 1;
        let cfg = SolverConfig { population_size: pop, max_iterations: iters };
        match guarded(|| in_pool(pool, || solve_single(si, cfg, seed, &p))) {
            Err(pm) => {
                if verbose {
                    println!("  run {ri} (pool {pool}): PANIC {pm}");
                }
                st.add(sig_of(name, panic_class(&pm), bk, pop, iters), format!("{name} panicked: {pm}"), w());
                results.push(None);
            }
            Ok(r) => {
                if verbose {
                    println!("  run {ri} (pool {pool}): best_fitness={:e} best={:?} history={:?}", r.best_fitness, r.best_variables.to_vec(), r.history);
                }
                if iters >= 1 {
                    st.nontrivial += 1;
                }
                // 1. in bounds
                let x = r.best_variables.to_vec();
                if x.len() != dim || (0..dim.min(x.len())).any(|i| !(x[i] >= lo[i] && x[i] <= hi[i])) {
                    st.add(sig_of(name, "best-out-of-bounds", bk, pop, iters), format!("{name}: best_variables {:?} not inside bounds lo={:?} hi={:?}", x, lo, hi), w());
                } else {
                    // 2. reported fitness is the fitness of the reported point
                    let f = p.fitness(&r.best_variables);
                    if f.to_bits() != r.best_fitness.to_bits() {
                        st.add(sig_of(name, "best-fitness-mismatch", bk, pop, iters), format!("{name}: best_fitness {:e} but fitness(best_variables={:?}) = {:e}", r.best_fitness, x, f), w());
                    }
                }
                // 3. history never gets worse
                if let Some(i) = (1..r.history.len()).find(|&i| !(r.history[i] <= r.history[i - 1])) {
                    st.add(sig_of(name, "history-gets-worse", bk, pop, iters), format!("{name}: history[{}]={:e} after history[{}]={:e}", i, r.history[i], i - 1, r.history[i - 1]), w());
                }
                results.push(Some(r));
            }
        }
    }
    // 4. same seed => bit-identical, across two runs and across pool sizes
    let key = |r: &OptimizationResult| (r.best_fitness.to_bits(), bits(&r.best_variables.to_vec()), bits(&r.history));
    if let (Some(a), Some(b)) = (&results[0], &results[1]) {
        if key(a) != key(b) {
            st.add(sig_of(name, "same-seed-two-runs-differ", bk, pop, iters), format!("{name}: two runs with seed {seed} under the same pool differ: {:e} vs {:e}", a.best_fitness, b.best_fitness), w());
        }
    }
    if let (Some(a), Some(c)) = (&results[0], &results[2]) {
        if key(a) != key(c) {
            st.add(sig_of(name, "pool-size-dependence", bk, pop, iters), format!("{name}: seed {seed} gives {:e} under a 1-thread pool and {:e} under an 8-thread pool", a.best_fitness, c.best_fitness), w());
        }
    }
}

fn dominates(a: &[f64], b: &[f64]) -> bool {
    a.iter().zip(b).all(|(x, y)| x <= y) && a.iter().zip(b).any(|(x, y)| x < y)
}

fn run_point_multi(mi: usize, dim: usize, bk: usize, pop: usize, iters: usize, seed: u64, st: &mut Stats, verbose: bool) {
    st.points += 3;
    let name = MULTI[mi];
    if let Some(why) = excluded(false, mi, pop, iters) {
        st.unjudged += 3;
        if verbose {
            println!("  not judged: {why}");
        }
        return;
    }
    let (lo, hi) = bounds(bk, dim);
    let p = MProb { lo: lo.clone(), hi: hi.clone() };
    let w = || wit(false, mi, 0, dim, bk, pop, iters, seed);
    let mut results: Vec<Option<MultiObjectiveResult>> = vec![];
    for (ri, pool) in [1usize, 1, 8].into_iter().enumerate() {
        st.runs += 1;
        let cfg = SolverConfig { population_size: pop, max_iterations: iters };
        match guarded(|| in_pool(pool, || solve_multi(mi, cfg, seed, &p))) {
            Err(pm) => {
                if verbose {
                    println!("  run {ri} (pool {pool}): PANIC {pm}");
                }
                st.add(sig_of(name, panic_class(&pm), bk, pop, iters), format!("{name} panicked: {pm}"), w());
                results.push(None);
            }
            Ok(r) => {
                if verbose {
                    println!("  run {ri} (pool {pool}): front={:?}", r.pareto_front.iter().map(|m| (m.variables.to_vec(), m.fitness.clone())).collect::<Vec<_>>());
                }
                if iters >= 1 {
                    st.nontrivial += 1;
                }
                let mut ok = true;
                for m in &r.pareto_front {
                    let x = m.variables.to_vec();
                    if x.len() != dim || (0..dim.min(x.len())).any(|i| !(x[i] >= lo[i] && x[i] <= hi[i])) {
                        st.add(sig_of(name, "front-member-out-of-bounds", bk, pop, iters), format!("{name}: front member {:?} not inside bounds lo={:?} hi={:?}", x, lo, hi), w());
                        ok = false;
                        break;
                    }
                    let f = p.objectives(&m.variables);
                    if bits(&f) != bits(&m.fitness) {
                        st.add(sig_of(name, "front-fitness-mismatch", bk, pop, iters), format!("{name}: front member {:?} reports fitness {:?} but objectives() = {:?}", x, m.fitness, f), w());
                        ok = false;
                        break;
                    }
                }
                if ok {
                    'outer: for (i, a) in r.pareto_front.iter().enumerate() {
                        for (j, b) in r.pareto_front.iter().enumerate() {
                            if i != j && dominates(&a.fitness, &b.fitness) {
                                st.add(sig_of(name, "front-member-dominated", bk, pop, iters), format!("{name}: front member {:?} dominates front member {:?}", a.fitness, b.fitness), w());
                                break 'outer;
                            }
                        }
                    }
                }
                if r.pareto_front.is_empty() && pop > 0 {
                    st.add(sig_of(name, "front-empty", bk, pop, iters), format!("{name}: empty Pareto front from a population of {pop}"), w());
                }
                results.push(Some(r));
            }
        }
    }
    let key = |r: &MultiObjectiveResult| (r.pareto_front.iter().map(|m| (bits(&m.variables.to_vec()), bits(&m.fitness))).collect::<Vec<_>>(), bits(&r.history));
    if let (Some(a), Some(b)) = (&results[0], &results[1]) {
        if key(a) != key(b) {
            st.add(sig_of(name, "same-seed-two-runs-differ", bk, pop, iters), format!("{name}: two runs with seed {seed} under the same pool give different fronts"), w());
        }
    }
    if let (Some(a), Some(c)) = (&results[0], &results[2]) {
        if key(a) != key(c) {
            st.add(sig_of(name, "pool-size-dependence", bk, pop, iters), format!("{name}: seed {seed} gives different fronts under 1-thread and 8-thread pools"), w());
        }
    }
}

/// case: "S tier si pk dim bk"  (all pop x iters x seeds of the tier's lattice)   |  "M tier mi dim bk"
/// fine: "s tier si pk dim bk pop iters seed"                                       |  "m tier mi dim bk pop iters seed"
fn worker(case: &str) -> String {
    let t: Vec<&str> = case.split_whitespace().collect();
    let n: Vec<usize> = t[1..].iter().map(|x| x.parse().unwrap()).collect();
    let l = lattice(n[0]);
    let n = &n[1..];
    let mut st = Stats::default();
    match t[0] {
        "S" => {
            for &pop in l.pops {
                for &it in l.iters {
                    for &seed in l.seeds {
                        run_point_single(n[0], n[1], n[2], n[3], pop, it, seed, &mut st, false);
                    }
                }
            }
        }
        "M" => {
            for &pop in l.pops {
                for &it in l.iters {
                    for &seed in l.seeds {
                        run_point_multi(n[0], n[1], n[2], pop, it, seed, &mut st, false);
                    }
                }
            }
        }
        "s" => run_point_single(n[0], n[1], n[2], n[3], n[4], n[5], n[6] as u64, &mut st, false),
        "m" => run_point_multi(n[0], n[1], n[2], n[3], n[4], n[5] as u64, &mut st, false),
        _ => {}
    }
    st.to_json()
}

/// Same protocol as subproc::worker_main, but the protocol goes to a saved copy of fd 1 and
/// fd 1 / fd 2 themselves are pointed at /dev/null (the solvers print progress to stdout).
fn worker_main_silenced() -> ! {
    use std::os::unix::io::FromRawFd;
    let mut proto = unsafe {
        let saved = libc::dup(1);
        let null = libc::open(b"/dev/null\0".as_ptr() as *const libc::c_char, libc::O_WRONLY);
        libc::dup2(null, 1);
        libc::dup2(null, 2);
        std::fs::File::from_raw_fd(saved)
    };
    std::panic::set_hook(Box::new(|_| {}));
    let stdin = std::io::stdin();
    for line in stdin.lock().lines() {
        let line = match line {
            Ok(l) => l,
            Err(_) => break,
        };
        let _ = writeln!(proto, "B");
        let _ = proto.flush();
        let r = worker(&line);
        let _ = writeln!(proto, "E {}", r.replace('\n', "\\n"));
        let _ = proto.flush();
    }
    std::process::exit(0)
}

fn absorb(ctx: &Ctx, tot: &mut Stats, res: &str) {
    let v: J = serde_json::from_str(res).unwrap_or_else(|e| ctx.machinery(&format!("bad worker result: {e}: {res}")));
    tot.points += v["points"].as_u64().unwrap();
    tot.unjudged += v["unjudged"].as_u64().unwrap();
    tot.nontrivial += v["nontrivial"].as_u64().unwrap();
    tot.runs += v["runs"].as_u64().unwrap();
    for e in v["vio"].as_array().unwrap() {
        let sig = e[0].as_str().unwrap().to_string();
        let c = e[1].as_u64().unwrap();
        match tot.vio.get_mut(&sig) {
            Some(x) => x.0 += c,
            None => {
                tot.vio.insert(sig, (c, e[2].as_str().unwrap().to_string(), e[3].clone()));
            }
        }
    }
}

fn main() {
    if subproc::worker_arg().is_some() {
        worker_main_silenced();
    }
    run_check("C34", Level::Exploration, |ctx| {
        if let Some(p) = ctx.replay.clone() {
            replay(ctx, &p);
            return;
        }
        let tier = if ctx.quick() { 0 } else { 1 };
        let l = lattice(tier);
        let mut cases = vec![];
        for si in 0..SINGLE.len() {
            for pk in 0..PROBLEMS.len() {
                for &d in l.dims {
                    for bk in 0..BOUNDS.len() {
                        cases.push(format!("S {tier} {si} {pk} {d} {bk}"));
                    }
                }
            }
        }
        for mi in 0..MULTI.len() {
            for &d in l.dims {
                for bk in 0..BOUNDS.len() {
                    cases.push(format!("M {tier} {mi} {d} {bk}"));
                }
            }
        }
        let per_case = (l.pops.len() * l.iters.len() * l.seeds.len() * 3) as u64;
        let card = cases.len() as u64 * per_case;
        let opts = subproc::Opts { concurrency: 16, timeout: Duration::from_secs(if tier == 0 { 120 } else { 600 }), env: vec![], rlimit_as: Some(8 << 30) };
        let outs = subproc::run_cases("c34", &cases, &opts);
        let mut tot = Stats::default();
        let mut hangs = 0u64;
        let mut cap = false;
        for (case, o) in cases.iter().zip(outs) {
            match o {
                Outcome::Done(r) => absorb(ctx, &mut tot, &r),
                other => {
                    if hangs >= 6 {
                        cap = true;
                        continue;
                    }
                    // find the culprit configuration(s) one by one
                    let t: Vec<&str> = case.split_whitespace().collect();
                    let single = t[0] == "S";
                    let mut fine = vec![];
                    for &pop in l.pops {
                        for &it in l.iters {
                            for &seed in l.seeds {
                                fine.push(format!("{} {} {pop} {it} {seed}", if single { "s" } else { "m" }, t[1..].join(" ")));
                            }
                        }
                    }
                    let fopts = subproc::Opts { concurrency: 9, timeout: Duration::from_secs(20), env: vec![], rlimit_as: Some(8 << 30) };
                    let rs = subproc::run_cases("c34", &fine, &fopts);
                    let mut found = 0;
                    for (c1, r1) in fine.iter().zip(rs) {
                        match r1 {
                            Outcome::Done(r) => absorb(ctx, &mut tot, &r),
                            bad => {
                                found += 1;
                                hangs += 1;
                                tot.points += 3;
                                let n: Vec<usize> = c1.split_whitespace().skip(2).map(|x| x.parse().unwrap()).collect();
                                let (idx, pk, d, bk, pop, it, seed) = if single { (n[0], n[1], n[2], n[3], n[4], n[5], n[6]) } else { (n[0], 0, n[1], n[2], n[3], n[4], n[5]) };
                                let name = if single { SINGLE[idx] } else { MULTI[idx] };
                                let sym = if matches!(bad, Outcome::Timeout) { "does-not-terminate" } else { "process-abort" };
                                ctx.violation(&sig_of(name, sym, bk, pop, it), format!("{name}: {sym} (no result within 20 s): {:?}", bad), wit(single, idx, pk, d, bk, pop, it, seed as u64));
                            }
                        }
                    }
                    if found == 0 {
                        ctx.machinery(&format!("chunk `{case}` failed ({:?}) but each of its configurations finished alone", other));
                    }
                }
            }
        }
        for (sig, (c, msg, w)) in &tot.vio {
            for _ in 0..*c {
                ctx.violation(sig, msg.clone(), w.clone());
            }
        }
        if !cap && tot.points != card {
            ctx.machinery(&format!("enumerated {} lattice points, cardinality {}", tot.points, card));
        }
        ctx.cov("evaluations", tot.points);
        ctx.cov("generator_cardinality", card);
        ctx.cov("exhaustive", !cap);
        ctx.cov("cap_hit", cap);
        ctx.cov("unjudged", tot.unjudged);
        ctx.cov("solver_runs", tot.runs);
        ctx.cov("hung_or_aborted_configurations", hangs);
        ctx.cov("distinct_nontrivial", tot.nontrivial);
        ctx.cov("rule", "a case is one lattice point (solver instance, problem, dim, bounds, population, iterations, seed, run in {pool 1, pool 1 repeated, pool 8}); distinct by construction; non-trivial if the solver returned a result and ran at least one iteration");
        ctx.cov("lattice", json!({"single_objective_solvers": SINGLE, "multi_objective_solvers": MULTI, "problems": PROBLEMS, "multi_objective_problem": "two spheres (sum x^2, sum (x-1)^2), no penalties", "dims": l.dims, "bounds": BOUNDS, "population": l.pops, "iterations": l.iters, "seeds": l.seeds, "runs": ["pool 1", "pool 1 again", "pool 8"]}));
        ctx.sample(wit(true, 0, 0, 2, 1, 3, 7, 1));
        ctx.sample(wit(true, 10, 3, 6, 4, 10, 7, 2));
        ctx.sample(wit(false, 0, 0, 3, 0, 10, 7, 0));
        ctx.assume("invariants per run: best_variables inside [lo,hi] component-wise; problem.fitness(best_variables) bit-equal best_fitness; history non-increasing (NaN counts as worse); same seed => bit-identical (best_fitness, best_variables, history) for two runs under a 1-thread pool and one run under an 8-thread pool; multi-objective: every front member in bounds, fitness == objectives(variables) bit-equal, no member dominates another, same-seed fronts identical");
        ctx.assume("rayon worker interleavings cannot be enumerated: 'regardless of thread count' is checked as pool-size 1 vs 8 equality on every lattice point (a differential, not a schedule exploration)");
        ctx.assume("not judged: DE and MO-Rao+DE with population < 4 and >= 1 iteration (their DE/rand/1 move needs three distinct peers besides the target: DE's peer-selection loop cannot terminate, MO-Rao+DE indexes past its peer list) -- counted as unjudged, not run");
        ctx.assume("history is only required to be non-increasing; no relation between history.last() and best_fitness is demanded (several solvers record the best before the last update); multi-objective history is not a best-fitness history and is not judged; multi-objective problems carry no penalties so that domination is unambiguous");
        ctx.assume("each tier enumerates its own lattice completely (thorough: more dims, populations, iteration counts and seeds)");
    });
}

fn replay(ctx: &Ctx, p: &std::path::Path) {
    let doc: J = serde_json::from_str(&std::fs::read_to_string(p).expect("read replay")).expect("json");
    let w = &doc["witness"];
    let single = w["kind"].as_str() == Some("single");
    let u = |k: &str| w[k].as_u64().unwrap() as usize;
    println!("replay {}: signature={} {}", p.display(), doc["signature"].as_str().unwrap_or(""), w);
    // run in a worker (silenced stdout, timeout) and also print the details in-process when it terminates
    let case = if single { format!("s 0 {} {} {} {} {} {} {}", u("solver_index"), u("problem_index"), u("dim"), u("bounds_index"), u("population"), u("iterations"), u("seed")) } else { format!("m 0 {} {} {} {} {} {}", u("solver_index"), u("dim"), u("bounds_index"), u("population"), u("iterations"), u("seed")) };
    let opts = subproc::Opts { concurrency: 1, timeout: Duration::from_secs(20), env: vec![], rlimit_as: Some(8 << 30) };
    let o = subproc::run_cases("c34", &[case], &opts);
    match &o[0] {
        Outcome::Done(r) => {
            let mut st = Stats::default();
            absorb(ctx, &mut st, r);
            if st.vio.is_empty() {
                println!("  no mismatch: all invariants hold on this configuration");
            }
            for (sig, (c, msg, wj)) in &st.vio {
                println!("  MISMATCH [{sig}] x{c} {msg}");
                ctx.violation(sig, msg.clone(), wj.clone());
            }
        }
        bad => {
            let name = w["solver"].as_str().unwrap();
            let sym = if matches!(bad, Outcome::Timeout) { "does-not-terminate" } else { "process-abort" };
            println!("  MISMATCH [{name}:{sym}] {:?}", bad);
            ctx.violation(&sig_of(name, sym, u("bounds_index"), u("population"), u("iterations")), format!("{name}: {sym}"), w.clone());
        }
    }
}
