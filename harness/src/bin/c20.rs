//! C20 — RESP framing survives any TCP chunking and pipelining.
//!
//! Fault enumeration over chunkings of short frame streams:
//!   (a) `loop`   — a copy of `handle_connection`'s decode loop over the real `RespValue::decode`:
//!                  every stream of <= 3 frames of a 13-frame set, every split (all 2^(n-1) when the
//!                  stream is short, else all splits with <= k cut points). Frames decoded must be the
//!                  frames sent, in order, each once, nothing left in the buffer.
//!   (b) `server` — the real `handle_connection`, reached through `RespServer::start` on a loopback
//!                  port inside worker processes; every split with <= 2 (<= 1 for long streams) cuts.
//!                  The `resp.after_read` hook proves every chunk was consumed as exactly one read.
//!                  The replies must be the concatenation of the replies each frame gets when sent
//!                  alone, unsplit, on a fresh connection.
//!   (c) `roundtrip` — encode -> decode identity for every value of a bounded value grammar (depth <= 3),
//!                  and the encoder's bytes against a reference encoder.
//!   (d) `binary` — a small fixed subset of (b) against the real server binary over TCP (pauses
//!                  between chunks instead of the hook): conformance of the in-process driver.
use bytes::BytesMut;
use rayon::prelude::*;
use samyama::protocol::resp::{RespError, RespValue};
use samyama::protocol::{RespServer, ServerConfig};
use serde_json::{json, Value};
use std::collections::BTreeMap;
use std::io::{Read, Write};
use std::net::{Shutdown, TcpStream};
use std::sync::{Arc, Condvar, Mutex};
use std::time::{Duration, Instant};
use svmc::engine::ctx::guarded;
use svmc::engine::subproc;
use svmc::{run_check, Ctx, Level};

// ---------------------------------------------------------------------------------------------
// reference encoder and frames

fn ref_encode(v: &RespValue, out: &mut Vec<u8>) {
    match v {
        RespValue::SimpleString(s) => {
            out.push(b'+');
            out.extend_from_slice(s.as_bytes());
            out.extend_from_slice(b"\r\n");
        }
        RespValue::Error(s) => {
            out.push(b'-');
            out.extend_from_slice(s.as_bytes());
            out.extend_from_slice(b"\r\n");
        }
        RespValue::Integer(i) => out.extend_from_slice(format!(":{i}\r\n").as_bytes()),
        RespValue::BulkString(None) => out.extend_from_slice(b"$-1\r\n"),
        RespValue::BulkString(Some(d)) => {
            out.extend_from_slice(format!("${}\r\n", d.len()).as_bytes());
            out.extend_from_slice(d);
            out.extend_from_slice(b"\r\n");
        }
        RespValue::Array(items) => {
            out.extend_from_slice(format!("*{}\r\n", items.len()).as_bytes());
            for i in items {
                ref_encode(i, out);
            }
        }
        RespValue::Null => out.extend_from_slice(b"_\r\n"),
    }
}

fn bulk(b: &[u8]) -> RespValue {
    RespValue::BulkString(Some(b.to_vec()))
}
fn cmd(parts: &[&[u8]]) -> RespValue {
    RespValue::Array(parts.iter().map(|p| bulk(p)).collect())
}

#[derive(Clone)]
struct Frame {
    name: &'static str,
    bytes: Vec<u8>,
    /// what the decoder must produce for it
    value: RespValue,
    /// offset just after the frame's first length header (`*n\r\n` / `$n\r\n`), None for one-line frames
    body_start: Option<usize>,
    /// '*' or '$' or '-' (line frame)
    kind: char,
    /// hard-coded reply (None: taken from the unsplit baseline only)
    reply: Option<Vec<u8>>,
}

const QUERY70: &str = "RETURN 'the quick brown fox jumps over the lazy dog again' AS sentence";

fn frames() -> Vec<Frame> {
    assert_eq!(QUERY70.len(), 70);
    let typed = |name: &'static str, v: RespValue, reply: Option<&[u8]>| {
        let mut b = vec![];
        ref_encode(&v, &mut b);
        let kind = match b[0] {
            b'*' => '*',
            b'$' if b != b"$-1\r\n" => '$',
            _ => '-',
        };
        let body_start = if kind == '-' { None } else { Some(b.windows(2).position(|w| w == b"\r\n").unwrap() + 2) };
        Frame { name, bytes: b, value: v, body_start, kind, reply: reply.map(|r| r.to_vec()) }
    };
    let inline = |name: &'static str, text: &[u8], toks: &[&[u8]], reply: &[u8]| Frame { name, bytes: text.to_vec(), value: cmd(toks), body_start: None, kind: '-', reply: Some(reply.to_vec()) };
    vec![
        typed("PING", cmd(&[b"PING"]), Some(b"+PONG\r\n")),
        typed("ECHO-empty", cmd(&[b"ECHO", b""]), Some(b"$0\r\n\r\n")),
        typed("ECHO-binary", cmd(&[b"ECHO", &[0u8, 0xff, b'$', b'*']]), Some(&[b'$', b'4', b'\r', b'\n', 0, 0xff, b'$', b'*', b'\r', b'\n'])),
        typed("ECHO-crlf", cmd(&[b"ECHO", b"\r\n"]), Some(b"$2\r\n\r\n\r\n")),
        typed("null-bulk", RespValue::BulkString(None), None),
        typed("nested-array", RespValue::Array(vec![RespValue::Array(vec![RespValue::Integer(1)]), bulk(b"a")]), None),
        typed("integer", RespValue::Integer(7), None),
        inline("inline-PING", b"PING\r\n", &[b"PING"], b"+PONG\r\n"),
        inline("inline-ECHO-quoted", b"ECHO \"a b\"\r\n", &[b"ECHO", b"a b"], b"$3\r\na b\r\n"),
        typed("GRAPH.QUERY-70", cmd(&[b"GRAPH.QUERY", b"default", QUERY70.as_bytes()]), None),
        typed("bulk", bulk(b"abc"), None),
        typed("simple", RespValue::SimpleString("OK".into()), None),
        typed("null", RespValue::Null, None),
    ]
}

/// All streams of 1..=max_frames frames (as frame-index vectors), shortest first.
fn streams(nframes: usize, max_frames: usize) -> Vec<Vec<usize>> {
    let mut out = vec![];
    for l in 1..=max_frames {
        out.extend(svmc::engine::odometer::sequences(nframes, l));
    }
    out
}

fn stream_bytes(fr: &[Frame], s: &[usize]) -> Vec<u8> {
    s.iter().flat_map(|&i| fr[i].bytes.iter().copied()).collect()
}

// ---------------------------------------------------------------------------------------------
// splits

/// Cut sets of a stream of n bytes. Positions are 1..n-1 (a cut at p separates byte p-1 from byte p).
/// `full` => all 2^(n-1) subsets; else all subsets with <= k cuts. Ordered by number of cuts, then lexicographically
/// (for `full`: by mask value, which is not by size; the first witness per signature is chosen by (cuts.len(), cuts)).
fn count_splits(n: usize, full: bool, k: usize) -> u64 {
    if n <= 1 {
        return 1;
    }
    if full {
        return 1u64 << (n - 1);
    }
    let m = (n - 1) as u64;
    let mut c = 1u64;
    let mut tot = 1u64;
    for j in 1..=k as u64 {
        if j > m {
            break;
        }
        c = c * (m - j + 1) / j;
        tot += c;
    }
    tot
}

fn for_each_split(n: usize, full: bool, k: usize, mut f: impl FnMut(&[usize])) {
    if n <= 1 {
        f(&[]);
        return;
    }
    if full {
        let mut cuts = Vec::with_capacity(n);
        for mask in 0u64..(1u64 << (n - 1)) {
            cuts.clear();
            for p in 1..n {
                if mask >> (p - 1) & 1 == 1 {
                    cuts.push(p);
                }
            }
            f(&cuts);
        }
        return;
    }
    f(&[]);
    if k >= 1 {
        for a in 1..n {
            f(&[a]);
        }
    }
    if k >= 2 {
        for a in 1..n {
            for b in a + 1..n {
                f(&[a, b]);
            }
        }
    }
    if k >= 3 {
        for a in 1..n {
            for b in a + 1..n {
                for c in b + 1..n {
                    f(&[a, b, c]);
                }
            }
        }
    }
    if k >= 4 {
        for a in 1..n {
            for b in a + 1..n {
                for c in b + 1..n {
                    for d in c + 1..n {
                        f(&[a, b, c, d]);
                    }
                }
            }
        }
    }
    assert!(k <= 4);
}

fn list_splits(n: usize, k: usize) -> Vec<Vec<usize>> {
    let mut v = vec![];
    for_each_split(n, false, k, |c| v.push(c.to_vec()));
    v
}

fn chunks<'a>(bytes: &'a [u8], cuts: &[usize]) -> Vec<&'a [u8]> {
    let mut out = Vec::with_capacity(cuts.len() + 1);
    let mut prev = 0;
    for &c in cuts {
        out.push(&bytes[prev..c]);
        prev = c;
    }
    out.push(&bytes[prev..]);
    out
}

// ---------------------------------------------------------------------------------------------
// region of a (stream, cut set): where do the cuts fall?

/// "array-body" / "bulk-body": some cut falls after a frame's first complete length header and before the frame's end
/// (array wins if both occur); "inside-line": cuts fall inside frames but only where no length header is complete;
/// "boundaries": cuts only between frames (or no cut).
const REGIONS: [&str; 4] = ["cut-at-frame-boundaries", "cut-inside-line", "cut-in-bulk-body", "cut-in-array-body"];

fn region(fr: &[Frame], s: &[usize], cuts: &[usize]) -> &'static str {
    REGIONS[region_id(fr, s, cuts)]
}

fn region_id(fr: &[Frame], s: &[usize], cuts: &[usize]) -> usize {
    let mut off = 0;
    let mut arr = false;
    let mut blk = false;
    let mut inside = false;
    for &i in s {
        let f = &fr[i];
        let end = off + f.bytes.len();
        for &c in cuts {
            if c > off && c < end {
                inside = true;
                if let Some(b) = f.body_start {
                    if c >= off + b {
                        if f.kind == '*' {
                            arr = true;
                        } else {
                            blk = true;
                        }
                    }
                }
            }
        }
        off = end;
    }
    if arr {
        3
    } else if blk {
        2
    } else if inside {
        1
    } else {
        0
    }
}

// ---------------------------------------------------------------------------------------------
// (a) the decode loop of handle_connection, copied

#[derive(Debug, Clone, PartialEq)]
enum Item {
    Val(RespValue),
    ProtoErr(String),
}

/// server.rs: `loop { read_buf; loop { match decode { Ok(Some) => handle, Ok(None) | Err(Incomplete) => break, Err(e) => { reply error; break } } } }`
fn decode_loop(chs: &[&[u8]]) -> (Vec<Item>, usize) {
    let mut buffer = BytesMut::with_capacity(4096);
    let mut items = vec![];
    for c in chs {
        buffer.extend_from_slice(c);
        loop {
            match RespValue::decode(&mut buffer) {
                Ok(Some(v)) => items.push(Item::Val(v)),
                Ok(None) => break,
                Err(RespError::Incomplete) => break,
                Err(e) => {
                    items.push(Item::ProtoErr(format!("{e}")));
                    break;
                }
            }
        }
    }
    (items, buffer.len())
}

fn show_items(items: &[Item]) -> String {
    let v: Vec<String> = items
        .iter()
        .map(|i| match i {
            Item::Val(v) => {
                let mut b = vec![];
                ref_encode(v, &mut b);
                esc(&b)
            }
            Item::ProtoErr(e) => format!("<error: {e}>"),
        })
        .collect();
    format!("[{}]", v.join(", "))
}

fn esc(b: &[u8]) -> String {
    b.iter()
        .map(|&c| match c {
            b'\r' => "\\r".to_string(),
            b'\n' => "\\n".to_string(),
            b'\\' => "\\\\".to_string(),
            0x20..=0x7e => (c as char).to_string(),
            _ => format!("\\x{c:02x}"),
        })
        .collect()
}

fn show_chunks(bytes: &[u8], cuts: &[usize]) -> String {
    chunks(bytes, cuts).iter().map(|c| esc(c)).collect::<Vec<_>>().join(" | ")
}

/// Hot path: None = fine, Some(symptom).
fn check_loop_fast(want: &[Item], bytes: &[u8], cuts: &[usize]) -> Option<&'static str> {
    let chs = chunks(bytes, cuts);
    match guarded(|| decode_loop(&chs)) {
        Err(_) => Some("panic"),
        Ok((items, left)) => {
            if items != want || left != 0 {
                Some("frames-differ")
            } else {
                None
            }
        }
    }
}

/// None = fine; Some((symptom, message)).
fn check_loop(fr: &[Frame], s: &[usize], bytes: &[u8], cuts: &[usize]) -> Option<(&'static str, String)> {
    let chs = chunks(bytes, cuts);
    match guarded(|| decode_loop(&chs)) {
        Err(p) => Some(("panic", format!("decode loop panicked on {}: {p}", show_chunks(bytes, cuts)))),
        Ok((items, left)) => {
            let want: Vec<Item> = s.iter().map(|&i| Item::Val(fr[i].value.clone())).collect();
            if items != want || left != 0 {
                Some(("frames-differ", format!("reads {} decoded as {} with {left} bytes left over; sent {}", show_chunks(bytes, cuts), show_items(&items), show_items(&want))))
            } else {
                None
            }
        }
    }
}

// ---------------------------------------------------------------------------------------------
// tallies

#[derive(Default, Clone)]
struct Tally {
    evals: u64,
    nontrivial: u64,
    by_region: BTreeMap<String, u64>,
    /// sig -> (count, first key, message, witness)
    vios: BTreeMap<String, (u64, (usize, usize, Vec<usize>), String, Value)>,
}
impl Tally {
    fn vio(&mut self, sig: String, n: u64, key: (usize, usize, Vec<usize>), msg: String, w: Value) {
        match self.vios.get_mut(&sig) {
            Some(e) => {
                e.0 += n;
                if key < e.1 {
                    e.1 = key;
                    e.2 = msg;
                    e.3 = w;
                }
            }
            None => {
                self.vios.insert(sig, (n, key, msg, w));
            }
        }
    }
    fn merge(&mut self, o: Tally) {
        self.evals += o.evals;
        self.nontrivial += o.nontrivial;
        for (k, v) in o.by_region {
            *self.by_region.entry(k).or_default() += v;
        }
        for (s, (n, k, m, w)) in o.vios {
            self.vio(s, n, k, m, w);
        }
    }
    fn to_json(&self) -> Value {
        json!({"evals": self.evals, "nontrivial": self.nontrivial, "by_region": self.by_region,
               "vios": self.vios.iter().map(|(s, (n, k, m, w))| json!([s, n, k.0, k.1, k.2, m, w])).collect::<Vec<_>>()})
    }
    fn from_json(v: &Value) -> Option<Tally> {
        let mut t = Tally { evals: v["evals"].as_u64()?, nontrivial: v["nontrivial"].as_u64()?, ..Default::default() };
        for (k, c) in v["by_region"].as_object()? {
            t.by_region.insert(k.clone(), c.as_u64()?);
        }
        for x in v["vios"].as_array()? {
            let cuts: Vec<usize> = x[4].as_array()?.iter().map(|c| c.as_u64().unwrap() as usize).collect();
            t.vios.insert(x[0].as_str()?.to_string(), (x[1].as_u64()?, (x[2].as_u64()? as usize, x[3].as_u64()? as usize, cuts), x[5].as_str()?.to_string(), x[6].clone()));
        }
        Some(t)
    }
}

fn witness(part: &str, fr: &[Frame], s: &[usize], bytes: &[u8], cuts: &[usize]) -> Value {
    json!({"part": part, "stream": s.iter().map(|&i| fr[i].name).collect::<Vec<_>>(), "stream_frames": s, "stream_hex": hex(bytes), "cuts": cuts, "reads": show_chunks(bytes, cuts), "region": region(fr, s, cuts)})
}

fn hex(b: &[u8]) -> String {
    b.iter().map(|c| format!("{c:02x}")).collect()
}
fn unhex(s: &str) -> Vec<u8> {
    (0..s.len() / 2).map(|i| u8::from_str_radix(&s[2 * i..2 * i + 2], 16).unwrap()).collect()
}

// ---------------------------------------------------------------------------------------------
// (b) the real handle_connection behind RespServer::start, in a worker process

struct Hook {
    q: Mutex<Vec<u64>>,
    cv: Condvar,
}

struct Srv {
    port: u16,
    hook: Arc<Hook>,
    _rt: tokio::runtime::Runtime,
}

fn start_server() -> Result<Srv, String> {
    let hook = Arc::new(Hook { q: Mutex::new(vec![]), cv: Condvar::new() });
    let h2 = hook.clone();
    samyama::verif_hooks::set_callback(Some(Arc::new(move |label: &'static str, arg: u64| {
        if label == "resp.after_read" {
            h2.q.lock().unwrap().push(arg);
            h2.cv.notify_all();
        }
    })));
    let rt = tokio::runtime::Builder::new_multi_thread().worker_threads(2).enable_all().build().map_err(|e| e.to_string())?;
    for _attempt in 0..20 {
        let port = {
            let l = std::net::TcpListener::bind("127.0.0.1:0").map_err(|e| e.to_string())?;
            l.local_addr().map_err(|e| e.to_string())?.port()
        };
        let store = Arc::new(tokio::sync::RwLock::new(samyama::graph::GraphStore::new()));
        let server = RespServer::new(ServerConfig { address: "127.0.0.1".into(), port, max_connections: 100, data_path: None }, store);
        let (tx, rx) = std::sync::mpsc::channel::<String>();
        rt.spawn(async move {
            if let Err(e) = server.start().await {
                let _ = tx.send(e.to_string());
            }
        });
        let t0 = Instant::now();
        loop {
            if let Ok(_e) = rx.try_recv() {
                break; // bind failed: next port
            }
            if let Ok(c) = TcpStream::connect(("127.0.0.1", port)) {
                // prove it is our server: the connection must announce EOF through the hook
                hook.q.lock().unwrap().clear();
                let _ = c.shutdown(Shutdown::Write);
                if wait_hook(&hook, Duration::from_secs(5)) == Some(0) {
                    return Ok(Srv { port, hook, _rt: rt });
                }
                break;
            }
            if t0.elapsed() > Duration::from_secs(10) {
                break;
            }
            std::thread::sleep(Duration::from_millis(5));
        }
    }
    Err("could not start RespServer on a loopback port".into())
}

fn wait_hook(h: &Hook, to: Duration) -> Option<u64> {
    let deadline = Instant::now() + to;
    let mut q = h.q.lock().unwrap();
    loop {
        if !q.is_empty() {
            return Some(q.remove(0));
        }
        let left = deadline.saturating_duration_since(Instant::now());
        if left.is_zero() {
            return None;
        }
        q = h.cv.wait_timeout(q, left).unwrap().0;
    }
}

/// Send the chunks, each confirmed as exactly one read by the hook; half-close; read everything back.
/// Err(text) = the harness could not establish "one chunk = one read" (machinery, never a verdict).
fn exchange(srv: &Srv, chs: &[&[u8]]) -> Result<Vec<u8>, String> {
    let mut last = String::new();
    for _attempt in 0..5 {
        srv.hook.q.lock().unwrap().clear();
        let mut c = TcpStream::connect(("127.0.0.1", srv.port)).map_err(|e| format!("connect: {e}"))?;
        c.set_nodelay(true).ok();
        c.set_read_timeout(Some(Duration::from_secs(20))).ok();
        let mut ok = true;
        for ch in chs {
            if ch.is_empty() {
                continue;
            }
            c.write_all(ch).map_err(|e| format!("write: {e}"))?;
            match wait_hook(&srv.hook, Duration::from_secs(10)) {
                Some(n) if n == ch.len() as u64 => {}
                other => {
                    last = format!("chunk of {} bytes was consumed as a read of {:?} bytes", ch.len(), other);
                    ok = false;
                    break;
                }
            }
        }
        if !ok {
            drop(c);
            std::thread::sleep(Duration::from_millis(20));
            continue;
        }
        c.shutdown(Shutdown::Write).map_err(|e| format!("shutdown: {e}"))?;
        let mut out = vec![];
        match c.read_to_end(&mut out) {
            Ok(_) => {}
            Err(e) if e.kind() == std::io::ErrorKind::ConnectionReset => {}
            Err(e) => return Err(format!("read: {e}")),
        }
        return Ok(out);
    }
    Err(last)
}

/// Split a reply byte string into top-level RESP frames with a strict reference reader (None: not a frame sequence).
fn count_reply_frames(b: &[u8]) -> Option<usize> {
    fn one(b: &[u8], p: usize) -> Option<usize> {
        let eol = p + b.get(p..)?.windows(2).position(|w| w == b"\r\n")?;
        let line = std::str::from_utf8(&b[p + 1..eol]).ok();
        match b[p] {
            b'+' | b'-' | b':' | b'_' => Some(eol + 2),
            b'$' => {
                let n: i64 = line?.parse().ok()?;
                if n < 0 {
                    return Some(eol + 2);
                }
                let e = eol + 2 + n as usize;
                if b.get(e..e + 2)? == b"\r\n" {
                    Some(e + 2)
                } else {
                    None
                }
            }
            b'*' => {
                let n: usize = line?.parse().ok()?;
                let mut q = eol + 2;
                for _ in 0..n {
                    q = one(b, q)?;
                }
                Some(q)
            }
            _ => None,
        }
    }
    let (mut p, mut n) = (0, 0);
    while p < b.len() {
        p = one(b, p)?;
        n += 1;
    }
    Some(n)
}

struct ServerCtx {
    srv: Srv,
    fr: Vec<Frame>,
    alone: Vec<Vec<u8>>,
}

fn server_ctx() -> Result<ServerCtx, String> {
    let srv = start_server()?;
    let fr = frames();
    let mut alone = vec![];
    for f in &fr {
        let r = exchange(&srv, &[&f.bytes])?;
        if let Some(want) = &f.reply {
            if &r != want {
                return Err(format!("baseline: frame {} sent alone was answered {} (expected {})", f.name, esc(&r), esc(want)));
            }
        }
        if count_reply_frames(&r) != Some(1) {
            return Err(format!("baseline: frame {} sent alone was answered {} which is not one reply", f.name, esc(&r)));
        }
        alone.push(r);
    }
    Ok(ServerCtx { srv, fr, alone })
}

fn check_server(sc: &ServerCtx, s: &[usize], bytes: &[u8], cuts: &[usize]) -> Result<Option<(&'static str, String)>, String> {
    let chs = chunks(bytes, cuts);
    let got = exchange(&sc.srv, &chs)?;
    let want: Vec<u8> = s.iter().flat_map(|&i| sc.alone[i].iter().copied()).collect();
    if got != want {
        let n = count_reply_frames(&got).map(|n| n.to_string()).unwrap_or_else(|| "unparsable".into());
        return Ok(Some(("replies-differ", format!("reads {} were answered {} ({n} replies); the {} frames sent alone are answered {}", show_chunks(bytes, cuts), esc(&got), s.len(), esc(&want)))));
    }
    Ok(None)
}

/// worker line: `srv <a> <b> <c> <stream_lo> <stream_hi>` (SrvBounds) | `one <frames csv> <cuts csv>`
fn worker(sc: &mut Option<Result<ServerCtx, String>>, line: &str) -> String {
    if sc.is_none() {
        *sc = Some(server_ctx());
    }
    let sc = match sc.as_ref().unwrap() {
        Ok(s) => s,
        Err(e) => return hex(json!({"machinery": e}).to_string().as_bytes()),
    };
    let p: Vec<&str> = line.split(' ').collect();
    let mut t = Tally::default();
    let run = |t: &mut Tally, si: usize, s: &[usize], ci: usize, cuts: &[usize]| -> Result<(), String> {
        let bytes = stream_bytes(&sc.fr, s);
        let reg = region(&sc.fr, s, cuts);
        t.evals += 1;
        *t.by_region.entry(reg.to_string()).or_default() += 1;
        if reg != "cut-at-frame-boundaries" {
            t.nontrivial += 1;
        }
        if let Some((sym, msg)) = check_server(sc, s, &bytes, cuts)? {
            t.vio(format!("server:{reg}:{sym}"), 1, (si, ci, cuts.to_vec()), msg, witness("server", &sc.fr, s, &bytes, cuts));
        }
        Ok(())
    };
    let r: Result<(), String> = (|| {
        match p[0] {
            "srv" => {
                let sb = SrvBounds { a: p[1].parse().unwrap(), b: p[2].parse().unwrap(), c: p[3].parse().unwrap() };
                let (lo, hi): (usize, usize) = (p[4].parse().unwrap(), p[5].parse().unwrap());
                let ss = streams(sc.fr.len(), 3);
                for si in lo..hi {
                    let s = &ss[si];
                    let n = stream_bytes(&sc.fr, s).len();
                    let Some(k) = sb.k(n, s.len()) else { continue };
                    for (ci, cuts) in list_splits(n, k).iter().enumerate() {
                        run(&mut t, si, s, ci, cuts)?;
                    }
                }
            }
            _ => {
                let s: Vec<usize> = p[1].split(',').filter(|x| !x.is_empty()).map(|x| x.parse().unwrap()).collect();
                let cuts: Vec<usize> = p.get(2).map(|c| c.split(',').filter(|x| !x.is_empty()).map(|x| x.parse().unwrap()).collect()).unwrap_or_default();
                run(&mut t, 0, &s, 0, &cuts)?;
            }
        }
        Ok(())
    })();
    match r {
        Ok(()) => hex(t.to_json().to_string().as_bytes()),
        Err(e) => hex(json!({"machinery": e}).to_string().as_bytes()),
    }
}

fn parse_answer(ctx: &Ctx, o: &subproc::Outcome, what: &str) -> Tally {
    match o {
        subproc::Outcome::Done(s) => {
            let txt = String::from_utf8_lossy(&unhex(s)).to_string();
            let v: Value = serde_json::from_str(&txt).unwrap_or_else(|e| ctx.machinery(&format!("worker answer unparsable ({what}): {e}")));
            if let Some(m) = v.get("machinery") {
                ctx.machinery(&format!("server worker ({what}): {m}"));
            }
            Tally::from_json(&v).unwrap_or_else(|| ctx.machinery(&format!("worker answer incomplete ({what})")))
        }
        other => ctx.machinery(&format!("server worker failed ({what}): {other:?}")),
    }
}

// ---------------------------------------------------------------------------------------------
// (c) value grammar

fn leaves(rich: bool) -> Vec<RespValue> {
    let mut v = vec![RespValue::Integer(1), RespValue::BulkString(None), bulk(b"\r\n"), RespValue::Null, RespValue::SimpleString("OK".into()), bulk(b"")];
    if rich {
        v.extend([
            RespValue::Integer(0),
            RespValue::Integer(-1),
            RespValue::Integer(i64::MAX),
            RespValue::Integer(i64::MIN),
            RespValue::SimpleString(String::new()),
            RespValue::SimpleString("a b".into()),
            RespValue::Error("ERR x".into()),
            RespValue::Error(String::new()),
            bulk(b"a"),
            bulk(&[0, 0xff, b'$', b'*', b'\r']),
            bulk(b"$3\r\nabc"),
        ]);
    }
    v
}

/// values of depth <= d: leaves, plus arrays of 0..=width values of depth <= d-1
fn values(leaf: &[RespValue], d: usize, width: usize) -> Vec<RespValue> {
    if d == 0 {
        return leaf.to_vec();
    }
    let inner = values(leaf, d - 1, width);
    let mut out = leaf.to_vec();
    for w in 0..=width {
        for idx in svmc::engine::odometer::sequences(inner.len(), w) {
            out.push(RespValue::Array(idx.iter().map(|&i| inner[i].clone()).collect()));
        }
    }
    out
}

fn value_depth(v: &RespValue) -> usize {
    match v {
        RespValue::Array(a) => 1 + a.iter().map(value_depth).max().unwrap_or(0),
        _ => 0,
    }
}

fn check_roundtrip(v: &RespValue) -> Option<(&'static str, String)> {
    let mut want = vec![];
    ref_encode(v, &mut want);
    let r = guarded(|| {
        let mut enc = vec![];
        v.encode(&mut enc).map_err(|e| e.to_string())?;
        let mut b = BytesMut::from(&enc[..]);
        let d = RespValue::decode(&mut b).map_err(|e| e.to_string())?;
        Ok::<_, String>((enc, d, b.len()))
    });
    match r {
        Err(p) => Some(("panic", format!("encode/decode of {} panicked: {p}", esc(&want)))),
        Ok(Err(e)) => Some(("error", format!("encode/decode of {} failed: {e}", esc(&want)))),
        Ok(Ok((enc, d, left))) => {
            if enc != want {
                Some(("encoding-differs", format!("encode gave {}, RESP says {}", esc(&enc), esc(&want))))
            } else if d.as_ref() != Some(v) || left != 0 {
                Some(("value-differs", format!("decode(encode(v)) for v = {} gave {:?} with {left} bytes left", esc(&want), d)))
            } else {
                None
            }
        }
    }
}

// ---------------------------------------------------------------------------------------------
// (d) the real server binary

fn free_port() -> u16 {
    std::net::TcpListener::bind("127.0.0.1:0").unwrap().local_addr().unwrap().port()
}

fn binary_exchange(port: u16, chs: &[&[u8]], pause: Duration) -> Result<Vec<u8>, String> {
    let mut c = TcpStream::connect(("127.0.0.1", port)).map_err(|e| format!("connect: {e}"))?;
    c.set_nodelay(true).ok();
    c.set_read_timeout(Some(Duration::from_secs(20))).ok();
    for ch in chs {
        c.write_all(ch).map_err(|e| format!("write: {e}"))?;
        std::thread::sleep(pause);
    }
    c.shutdown(Shutdown::Write).map_err(|e| format!("shutdown: {e}"))?;
    let mut out = vec![];
    match c.read_to_end(&mut out) {
        Ok(_) => Ok(out),
        Err(e) if e.kind() == std::io::ErrorKind::ConnectionReset => Ok(out),
        Err(e) => Err(format!("read: {e}")),
    }
}

/// Fixed subset: for a few streams, the unsplit stream, one cut in the middle of every frame, one cut at every frame's body start + 1.
fn binary_cases(fr: &[Frame]) -> Vec<(Vec<usize>, Vec<usize>)> {
    let name = |n: &str| fr.iter().position(|f| f.name == n).unwrap();
    let ss = vec![vec![name("PING")], vec![name("ECHO-crlf")], vec![name("GRAPH.QUERY-70")], vec![name("inline-PING"), name("ECHO-binary")], vec![name("PING"), name("GRAPH.QUERY-70"), name("inline-ECHO-quoted")]];
    let mut out = vec![];
    for s in ss {
        out.push((s.clone(), vec![]));
        let mut off = 0;
        let (mut mids, mut bodies) = (vec![], vec![]);
        for &i in &s {
            let f = &fr[i];
            mids.push(off + f.bytes.len() / 2);
            if let Some(b) = f.body_start {
                bodies.push(off + b + 1);
            }
            off += f.bytes.len();
        }
        for m in &mids {
            out.push((s.clone(), vec![*m]));
        }
        for b in &bodies {
            out.push((s.clone(), vec![*b]));
        }
        if mids.len() > 1 {
            out.push((s.clone(), mids.clone()));
        }
    }
    out.sort();
    out.dedup();
    out
}

fn run_binary(ctx: &Ctx, fr: &[Frame], alone: &dyn Fn(usize) -> Vec<u8>, only: Option<(Vec<usize>, Vec<usize>)>) -> Tally {
    let mut t = Tally::default();
    let exe = std::env::var("VERIF_SERVER_SHIM").unwrap_or_else(|_| {
        let me = std::env::current_exe().unwrap();
        me.parent().unwrap().join("samyama_server_shim").to_string_lossy().to_string()
    });
    if !std::path::Path::new(&exe).exists() {
        ctx.machinery(&format!("server binary {exe} not built (./check builds it)"));
    }
    let dir = format!("{}/target/tmp/c20-{}-bin", if ctx.verif_dir.join("target").exists() { ctx.verif_dir.to_string_lossy().to_string() } else { "/verif".to_string() }, std::process::id());
    let _ = std::fs::remove_dir_all(&dir);
    std::fs::create_dir_all(&dir).unwrap_or_else(|e| ctx.machinery(&format!("tmp dir {dir}: {e}")));
    let mut child = None;
    let mut port = 0;
    for _ in 0..5 {
        port = free_port();
        let http = free_port();
        let mut c = std::process::Command::new(&exe)
            .args(["--data-path", &format!("{dir}/data"), "--port", &port.to_string(), "--http-port", &http.to_string()])
            .current_dir(&dir)
            .stdin(std::process::Stdio::null())
            .stdout(std::process::Stdio::null())
            .stderr(std::process::Stdio::null())
            .spawn()
            .unwrap_or_else(|e| ctx.machinery(&format!("spawn {exe}: {e}")));
        let t0 = Instant::now();
        let mut up = false;
        while t0.elapsed() < Duration::from_secs(60) {
            if let Ok(Some(_)) = c.try_wait() {
                break;
            }
            if binary_exchange(port, &[b"PING\r\n"], Duration::from_millis(0)).map(|r| r == b"+PONG\r\n").unwrap_or(false) {
                up = true;
                break;
            }
            std::thread::sleep(Duration::from_millis(50));
        }
        if up {
            child = Some(c);
            break;
        }
        let _ = c.kill();
        let _ = c.wait();
    }
    let mut child = child.unwrap_or_else(|| {
        let _ = std::fs::remove_dir_all(&dir);
        ctx.machinery("the server binary did not come up on a loopback port")
    });
    let cases = match only {
        Some(c) => vec![c],
        None => binary_cases(fr),
    };
    for (ci, (s, cuts)) in cases.iter().enumerate() {
        let bytes = stream_bytes(fr, s);
        let chs = chunks(&bytes, cuts);
        let reg = region(fr, s, cuts);
        t.evals += 1;
        *t.by_region.entry(reg.to_string()).or_default() += 1;
        if reg != "cut-at-frame-boundaries" {
            t.nontrivial += 1;
        }
        let want: Vec<u8> = s.iter().flat_map(|&i| alone(i)).collect();
        match binary_exchange(port, &chs, Duration::from_millis(if cuts.is_empty() { 0 } else { 60 })) {
            Err(e) => {
                let _ = child.kill();
                let _ = child.wait();
                let _ = std::fs::remove_dir_all(&dir);
                ctx.machinery(&format!("server binary exchange: {e}"));
            }
            Ok(got) => {
                if ctx.replay.is_some() {
                    println!("binary: reads {} -> {}", show_chunks(&bytes, cuts), esc(&got));
                }
                if got != want {
                    t.vio(format!("binary:{reg}:replies-differ"), 1, (0, ci, cuts.clone()), format!("real server binary: reads {} (60 ms apart) were answered {}; the in-process server answers the frames sent alone with {}", show_chunks(&bytes, cuts), esc(&got), esc(&want)), witness("binary", fr, s, &bytes, cuts));
                }
            }
        }
    }
    let _ = child.kill();
    let _ = child.wait();
    let _ = std::fs::remove_dir_all(&dir);
    t
}

// ---------------------------------------------------------------------------------------------

fn opts(conc: usize) -> subproc::Opts {
    subproc::Opts { concurrency: conc, timeout: Duration::from_secs(1800), env: vec![("RUST_BACKTRACE".into(), "0".into())], rlimit_as: None }
}

struct Bounds {
    max_frames: usize,
    /// loop: all subsets when n <= full_n; else <= 4 cuts when n <= thr4; else <= 3 cuts when n <= thr3; else <= 2 cuts
    full_n: usize,
    thr4: usize,
    thr3: usize,
    srv: SrvBounds,
}

/// server: streams of <= 2 frames: <= 2 cuts when n <= a, else <= 1; streams of 3 frames: <= 2 cuts when n <= b,
/// else <= 1 cut when n <= c, else not run.
#[derive(Clone, Copy)]
struct SrvBounds {
    a: usize,
    b: usize,
    c: usize,
}
impl SrvBounds {
    fn k(&self, n: usize, nframes: usize) -> Option<usize> {
        if nframes <= 2 {
            Some(if n <= self.a { 2 } else { 1 })
        } else if n <= self.b {
            Some(2)
        } else if n <= self.c {
            Some(1)
        } else {
            None
        }
    }
}

fn loop_plan(b: &Bounds, n: usize) -> (bool, usize) {
    if n <= b.full_n {
        (true, 0)
    } else if n <= b.thr4 {
        (false, 4)
    } else if n <= b.thr3 {
        (false, 3)
    } else {
        (false, 2)
    }
}

fn main() {
    if let Some(_n) = subproc::worker_arg() {
        std::panic::set_hook(Box::new(|_| {}));
        let mut sc: Option<Result<ServerCtx, String>> = None;
        subproc::worker_main(|line| worker(&mut sc, line));
    }
    run_check("C20", Level::FaultEnumeration, |ctx| {
        let fr = frames();
        if let Some(p) = ctx.replay.clone() {
            replay(ctx, &fr, &p);
            return;
        }
        let quick = ctx.quick();
        let b = if quick {
            Bounds { max_frames: 3, full_n: 16, thr4: 0, thr3: 64, srv: SrvBounds { a: 64, b: 0, c: 40 } }
        } else {
            Bounds { max_frames: 3, full_n: 20, thr4: 40, thr3: 128, srv: SrvBounds { a: usize::MAX / 2, b: 72, c: usize::MAX / 2 } }
        };
        let conc = std::thread::available_parallelism().map(|n| n.get()).unwrap_or(8).min(16);

        // ---- (a) decode loop
        let ss = streams(fr.len(), b.max_frames);
        let t_loop = Instant::now();
        let per: Vec<Tally> = ss
            .par_iter()
            .enumerate()
            .map(|(si, s)| {
                let bytes = stream_bytes(&fr, s);
                let n = bytes.len();
                let (full, k) = loop_plan(&b, n);
                let want: Vec<Item> = s.iter().map(|&i| Item::Val(fr[i].value.clone())).collect();
                let mut by_region = [0u64; 4];
                let mut evals = 0u64;
                // (region, symptom) -> (count, fewest-cuts-first witness)
                let mut local: Vec<((usize, &'static str), u64, Vec<usize>)> = vec![];
                for_each_split(n, full, k, |cuts| {
                    let reg = region_id(&fr, s, cuts);
                    evals += 1;
                    by_region[reg] += 1;
                    if let Some(sym) = check_loop_fast(&want, &bytes, cuts) {
                        match local.iter_mut().find(|e| e.0 == (reg, sym)) {
                            Some(e) => {
                                e.1 += 1;
                                if (cuts.len(), cuts) < (e.2.len(), &e.2[..]) {
                                    e.2 = cuts.to_vec();
                                }
                            }
                            None => local.push(((reg, sym), 1, cuts.to_vec())),
                        }
                    }
                });
                let mut t = Tally { evals, nontrivial: evals - by_region[0], ..Default::default() };
                for (i, c) in by_region.iter().enumerate() {
                    if *c > 0 {
                        t.by_region.insert(REGIONS[i].to_string(), *c);
                    }
                }
                for ((reg, sym), cnt, cuts) in local {
                    let msg = check_loop(&fr, s, &bytes, &cuts).map(|x| x.1).unwrap_or_default();
                    t.vio(format!("loop:{}:{sym}", REGIONS[reg]), cnt, (si, cuts.len(), cuts.clone()), msg, witness("loop", &fr, s, &bytes, &cuts));
                }
                t
            })
            .collect();
        let mut loop_t = Tally::default();
        for t in per {
            loop_t.merge(t);
        }
        let loop_card: u64 = ss
            .iter()
            .map(|s| {
                let n = stream_bytes(&fr, s).len();
                let (full, k) = loop_plan(&b, n);
                count_splits(n, full, k)
            })
            .sum();
        if loop_t.evals != loop_card {
            ctx.machinery(&format!("loop: {} splits run, {} counted", loop_t.evals, loop_card));
        }
        let loop_wall = t_loop.elapsed().as_secs_f64();

        // ---- (c) round trip
        let t_rt = Instant::now();
        let vals: Vec<RespValue> = if quick {
            let mut v = values(&leaves(true), 2, 2);
            v.extend(values(&leaves(false)[..3], 3, 2).into_iter().filter(|x| value_depth(x) == 3));
            v
        } else {
            let mut v = values(&leaves(true), 2, 2);
            v.extend(values(&leaves(false)[..4], 3, 2).into_iter().filter(|x| value_depth(x) == 3));
            v.extend(values(&leaves(false), 1, 3).into_iter().filter(|x| matches!(x, RespValue::Array(a) if a.len() == 3)));
            v
        };
        let mut rt_t = Tally::default();
        let rt_res: Vec<Option<(&'static str, String)>> = vals.par_iter().map(check_roundtrip).collect();
        let mut rt_nontrivial = 0u64;
        for (i, (v, r)) in vals.iter().zip(rt_res.iter()).enumerate() {
            rt_t.evals += 1;
            if value_depth(v) >= 1 {
                rt_nontrivial += 1;
            }
            if let Some((sym, msg)) = r {
                let mut enc = vec![];
                ref_encode(v, &mut enc);
                rt_t.vio(format!("roundtrip:{sym}"), 1, (i, 0, vec![]), msg.clone(), json!({"part": "roundtrip", "value_hex": hex(&enc), "value": esc(&enc)}));
            }
        }
        let rt_wall = t_rt.elapsed().as_secs_f64();

        // ---- (b) real handle_connection
        let t_srv = Instant::now();
        let srv_streams = streams(fr.len(), 3);
        let mut srv_streams_run = 0u64;
        let mut lines = vec![];
        let mut srv_card = 0u64;
        // ranges of streams with roughly equal numbers of cases
        let target = if quick { 3_000u64 } else { 15_000u64 };
        let mut lo = 0usize;
        let mut acc = 0u64;
        for (si, s) in srv_streams.iter().enumerate() {
            let n = stream_bytes(&fr, s).len();
            let c = match b.srv.k(n, s.len()) {
                Some(k) => {
                    srv_streams_run += 1;
                    count_splits(n, false, k)
                }
                None => 0,
            };
            srv_card += c;
            acc += c;
            if acc >= target || si + 1 == srv_streams.len() {
                lines.push(format!("srv {} {} {} {} {}", b.srv.a, b.srv.b, b.srv.c, lo, si + 1));
                lo = si + 1;
                acc = 0;
            }
        }
        let outs = subproc::run_cases("c20", &lines, &opts(conc));
        let mut srv_t = Tally::default();
        for (l, o) in lines.iter().zip(outs.iter()) {
            srv_t.merge(parse_answer(ctx, o, l));
        }
        if srv_t.evals != srv_card {
            ctx.machinery(&format!("server: {} cases run, {} counted", srv_t.evals, srv_card));
        }
        let srv_wall = t_srv.elapsed().as_secs_f64();

        // ---- (d) real binary, fixed subset; baseline replies from an in-process worker
        let t_bin = Instant::now();
        let alone_cache: Mutex<BTreeMap<usize, Vec<u8>>> = Mutex::new(BTreeMap::new());
        let alone = |i: usize| -> Vec<u8> {
            if let Some(v) = alone_cache.lock().unwrap().get(&i) {
                return v.clone();
            }
            // ask a worker: the frame alone; the reply is in the violation message only if it differs, so use a direct in-process server here
            let r = IN_PROC.with(|c| {
                let mut c = c.borrow_mut();
                if c.is_none() {
                    *c = Some(server_ctx());
                }
                match c.as_ref().unwrap() {
                    Ok(sc) => Ok(sc.alone[i].clone()),
                    Err(e) => Err(e.clone()),
                }
            });
            let r = r.unwrap_or_else(|e| ctx.machinery(&format!("in-process baseline server: {e}")));
            alone_cache.lock().unwrap().insert(i, r.clone());
            r
        };
        let bin_t = run_binary(ctx, &fr, &alone, None);
        samyama::verif_hooks::set_callback(None);
        let bin_wall = t_bin.elapsed().as_secs_f64();

        // ---- report
        let mut all = Tally::default();
        for t in [&loop_t, &srv_t, &rt_t, &bin_t] {
            all.merge(t.clone());
        }
        for (sig, (n, _k, msg, w)) in &all.vios {
            ctx.violation(sig, msg.clone(), w.clone());
            for _ in 1..*n {
                ctx.violation(sig, "", Value::Null);
            }
        }
        ctx.cov("violating_cases_by_signature", json!(all.vios.iter().map(|(s, v)| (s.clone(), v.0)).collect::<BTreeMap<_, _>>()));
        let evals = loop_t.evals + srv_t.evals + rt_t.evals + bin_t.evals;
        ctx.cov("evaluations", evals);
        ctx.cov("generator_cardinality", loop_card + srv_card + vals.len() as u64 + binary_cases(&fr).len() as u64);
        ctx.cov("exhaustive", true);
        ctx.cov("distinct_nontrivial", loop_t.nontrivial + srv_t.nontrivial + rt_nontrivial + bin_t.nontrivial);
        ctx.cov("rule", "every (part, stream, cut set) and every grammar value is a distinct case; a split is non-trivial if at least one cut falls strictly inside a frame; a round-trip value is non-trivial if it is an array");
        ctx.cov(
            "parts",
            json!({
                "loop": {"evaluations": loop_t.evals, "generator_cardinality": loop_card, "streams": ss.len(), "nontrivial": loop_t.nontrivial, "by_region": loop_t.by_region, "wall_s": loop_wall,
                          "bounds": format!("streams of <= {} frames (n = stream length in bytes); all 2^(n-1) splits for n <= {}, <= 4 cuts for n <= {}, <= 3 cuts for n <= {}, <= 2 cuts beyond", b.max_frames, b.full_n, b.thr4, b.thr3)},
                "server": {"evaluations": srv_t.evals, "generator_cardinality": srv_card, "streams": srv_streams_run, "nontrivial": srv_t.nontrivial, "by_region": srv_t.by_region, "wall_s": srv_wall, "worker_processes": conc.min(lines.len()),
                          "bounds": if quick { "streams of <= 2 frames: <= 2 cuts for n <= 64 bytes, 1 cut beyond; 3-frame streams of <= 40 bytes: <= 1 cut; every chunk confirmed as one read by the resp.after_read hook" } else { "streams of <= 2 frames: <= 2 cuts; 3-frame streams: <= 2 cuts for n <= 72 bytes, <= 1 cut beyond; every chunk confirmed as one read by the resp.after_read hook" }},
                "roundtrip": {"evaluations": rt_t.evals, "generator_cardinality": vals.len(), "nontrivial": rt_nontrivial, "wall_s": rt_wall, "bounds": "17 leaves, arrays of <= 2 elements to depth 2; depth 3 over 3 (quick) / 4 (thorough) leaves; thorough: all 3-element arrays of 6 leaves and depth-1 values"},
                "binary": {"evaluations": bin_t.evals, "generator_cardinality": binary_cases(&fr).len(), "nontrivial": bin_t.nontrivial, "wall_s": bin_wall, "bounds": "fixed subset, chunks 60 ms apart, no hook (conformance of the in-process driver only)"},
            }),
        );
        ctx.cov("frame_set", json!(fr.iter().map(|f| json!({"name": f.name, "bytes": esc(&f.bytes)})).collect::<Vec<_>>()));
        let name = |n: &str| fr.iter().position(|f| f.name == n).unwrap();
        for (s, cuts) in [(vec![name("PING")], vec![]), (vec![name("ECHO-crlf"), name("inline-PING")], vec![15usize, 24]), (vec![name("GRAPH.QUERY-70")], vec![60usize])] {
            let bytes = stream_bytes(&fr, &s);
            let (items, left) = decode_loop(&chunks(&bytes, &cuts));
            ctx.sample(json!({"part": "loop", "reads": show_chunks(&bytes, &cuts), "region": region(&fr, &s, &cuts), "decoded": show_items(&items), "left_over": left}));
        }
        ctx.assume("frames are stateless commands (PING, ECHO, a read-only GRAPH.QUERY) or non-command values, so the reply to a stream is the concatenation of the replies to its frames sent alone; the baseline replies of PING/ECHO are additionally checked against their hard-coded RESP encodings");
        ctx.assume("one connection per case; after the last chunk the client half-closes and reads to EOF, so all replies are collected without a timeout");
        ctx.assume("a chunk the kernel did not deliver as exactly one read is retried (5x) and then reported as machinery failure, never as a verdict");
    });
}

thread_local! {
    static IN_PROC: std::cell::RefCell<Option<Result<ServerCtx, String>>> = const { std::cell::RefCell::new(None) };
}

fn replay(ctx: &Ctx, fr: &[Frame], p: &std::path::Path) {
    let doc: Value = serde_json::from_str(&std::fs::read_to_string(p).unwrap_or_else(|e| ctx.machinery(&format!("read replay: {e}")))).unwrap_or_else(|e| ctx.machinery(&format!("replay json: {e}")));
    let w = &doc["witness"];
    let part = w["part"].as_str().unwrap_or("");
    if part == "roundtrip" {
        let enc = unhex(w["value_hex"].as_str().unwrap_or(""));
        let mut b = BytesMut::from(&enc[..]);
        let v = RespValue::decode(&mut b).ok().flatten().unwrap_or_else(|| ctx.machinery("replay: value does not decode"));
        println!("value: {}", esc(&enc));
        match check_roundtrip(&v) {
            Some((sym, msg)) => {
                println!("observed: {msg}");
                ctx.violation(&format!("roundtrip:{sym}"), msg, w.clone());
            }
            None => println!("observed: encode/decode identity holds"),
        }
        return;
    }
    let s: Vec<usize> = w["stream_frames"].as_array().map(|a| a.iter().map(|x| x.as_u64().unwrap() as usize).collect()).unwrap_or_default();
    let cuts: Vec<usize> = w["cuts"].as_array().map(|a| a.iter().map(|x| x.as_u64().unwrap() as usize).collect()).unwrap_or_default();
    let bytes = stream_bytes(fr, &s);
    let reg = region(fr, &s, &cuts);
    println!("stream: {:?}", s.iter().map(|&i| fr[i].name).collect::<Vec<_>>());
    println!("reads:  {}", show_chunks(&bytes, &cuts));
    println!("region: {reg}");
    match part {
        "loop" => {
            let want: Vec<Item> = s.iter().map(|&i| Item::Val(fr[i].value.clone())).collect();
            println!("expected frames: {}", show_items(&want));
            match check_loop(fr, &s, &bytes, &cuts) {
                Some((sym, msg)) => {
                    println!("observed: {msg}");
                    ctx.violation(&format!("loop:{reg}:{sym}"), msg, w.clone());
                }
                None => println!("observed: the same frames, nothing left over"),
            }
        }
        "server" => {
            let line = format!("one {} {}", s.iter().map(|x| x.to_string()).collect::<Vec<_>>().join(","), cuts.iter().map(|x| x.to_string()).collect::<Vec<_>>().join(","));
            let outs = subproc::run_cases("c20", &[line.clone()], &opts(1));
            let t = parse_answer(ctx, &outs[0], &line);
            println!("expected: the concatenation of the replies to the frames sent alone");
            if t.vios.is_empty() {
                println!("observed: exactly those replies");
            }
            for (sig, (_, _, msg, _)) in &t.vios {
                println!("observed: {msg}");
                ctx.violation(sig, msg.clone(), w.clone());
            }
        }
        "binary" => {
            let alone = |i: usize| -> Vec<u8> {
                IN_PROC.with(|c| {
                    let mut c = c.borrow_mut();
                    if c.is_none() {
                        *c = Some(server_ctx());
                    }
                    match c.as_ref().unwrap() {
                        Ok(sc) => sc.alone[i].clone(),
                        Err(e) => ctx.machinery(&format!("in-process baseline server: {e}")),
                    }
                })
            };
            let t = run_binary(ctx, fr, &alone, Some((s.clone(), cuts.clone())));
            if t.vios.is_empty() {
                println!("observed: the replies of the frames sent alone");
            }
            for (sig, (_, _, msg, _)) in &t.vios {
                println!("observed: {msg}");
                ctx.violation(sig, msg.clone(), w.clone());
            }
        }
        other => ctx.machinery(&format!("replay: unknown part {other:?}")),
    }
}
