//! C24 — natural-language query translation never returns a mutating statement.
//!
//! Bounded-exhaustive model responses served by an in-process loopback stub speaking the
//! Ollama API; the REAL endpoint `POST /api/nlq` of `HttpServer::router()` runs
//! (nlq_handler -> NLQPipeline::text_to_cypher -> reqwest client -> extract_cypher -> is_safe_query).
//! Oracle: whenever the endpoint hands back a statement, planning it gives is_write == false and
//! executing it on a populated graph (engine, and the server's own /api/query) changes nothing.
use axum::body::Body;
use axum::http::{Request, StatusCode};
use http_body_util::BodyExt;
use samyama::graph::GraphStore;
use samyama::http::HttpServer;
use samyama::query::executor::QueryPlanner;
use samyama::query::{parse_query, QueryEngine};
use serde_json::{json, Value};
use std::collections::{BTreeMap, BTreeSet};
use std::sync::Arc;
use svmc::engine::ctx::guarded;
use svmc::{run_check, Ctx, Level};
use tokio::sync::RwLock;
use tower::ServiceExt;

// ---------------------------------------------------------------------------
// generator
// ---------------------------------------------------------------------------

#[derive(Clone, Debug)]
struct Case {
    text: String,
    desc: String,
}

/// read prefixes: (text, node variable bound by it, if any)
fn read_prefixes() -> Vec<(&'static str, Option<&'static str>)> {
    vec![
        ("MATCH (n)", Some("n")),
        ("MATCH (n:P)", Some("n")),
        ("MATCH (n:P) WHERE n.age > 1", Some("n")),
        ("OPTIONAL MATCH (n:P)", Some("n")),
        ("WITH 1 AS x", None),
        ("UNWIND [1, 2] AS x", None),
        ("CALL db.labels() YIELD label", None),
        ("RETURN 1 AS x", None),
    ]
}

/// write / DDL clauses; `{v}` is replaced by the bound node variable. `needs_var`: only
/// meaningful after a prefix that binds a node.
fn write_clauses() -> Vec<(&'static str, &'static str, bool)> {
    vec![
        ("create", "CREATE (m:New {k: 1})", false),
        ("create_rel", "CREATE ({v})-[:R2]->(m:New)", true),
        ("merge", "MERGE (m:New {k: 1})", false),
        ("merge_on_create", "MERGE (m:P {name: 'zed'}) ON CREATE SET m.k = 1", false),
        ("set_prop", "SET {v}.k = 99", true),
        ("set_label", "SET {v}:New", true),
        ("set_map", "SET {v} = {k: 1}", true),
        ("set_merge_map", "SET {v} += {k: 1}", true),
        ("remove_prop", "REMOVE {v}.name", true),
        ("remove_label", "REMOVE {v}:P", true),
        ("delete", "DELETE {v}", true),
        ("detach_delete", "DETACH DELETE {v}", true),
        ("foreach_create", "FOREACH (i IN [1] | CREATE (:New))", false),
        ("foreach_set", "FOREACH (i IN [1] | SET {v}.k = 1)", true),
        ("create_index", "CREATE INDEX ON :P(name)", false),
        ("drop_index", "DROP INDEX ON :P(age)", false),
        ("create_constraint", "CREATE CONSTRAINT ON (p:P) ASSERT p.age IS UNIQUE", false),
        ("create_constraint_modern", "CREATE CONSTRAINT c2 FOR (p:P) REQUIRE p.age IS UNIQUE", false),
        ("create_vector_index", "CREATE VECTOR INDEX vi2 FOR (n:V) ON (n.f) OPTIONS {dimensions: 2, similarity: 'cosine'}", false),
        ("create_hierarchy_index", "CREATE HIERARCHY INDEX h2 ON ()-[:R]->()", false),
        ("drop_hierarchy_index", "DROP HIERARCHY INDEX h", false),
        ("rebuild_hierarchy_index", "REBUILD HIERARCHY INDEX h", false),
        ("call_or_solve", "CALL algo.or.solve({label: 'P', property: 'alloc', cost_property: 'age', algorithm: 'Jaya', budget: 100.0, population_size: 4, max_iterations: 3}) YIELD fitness", false),
        // the same procedure under its other accepted names (namespace optional, case-insensitive)
        ("call_or_solve_bare", "CALL or.solve({label: 'P', property: 'alloc', cost_property: 'age', algorithm: 'Jaya', budget: 100.0, population_size: 4, max_iterations: 3}) YIELD fitness", false),
        ("call_or_solve_gds", "CALL gds.OR.Solve({label: 'P', property: 'alloc', cost_property: 'age', algorithm: 'Jaya', budget: 100.0, population_size: 4, max_iterations: 3}) YIELD fitness", false),
    ]
}

const KEYWORDS: &[&str] = &[
    "MATCH", "OPTIONAL", "WITH", "UNWIND", "CALL", "RETURN", "CREATE", "MERGE", "SET", "REMOVE", "DELETE", "DETACH", "FOREACH", "IN", "AS", "ON", "INDEX", "DROP", "CONSTRAINT", "ASSERT", "IS", "UNIQUE", "FOR", "REQUIRE", "VECTOR", "OPTIONS",
    "HIERARCHY", "REBUILD", "YIELD", "UNION", "WHERE",
];

/// Re-case the keywords of a statement (outside quotes): 0 as written (upper), 1 lower, 2 Capitalised.
fn recase(s: &str, mode: usize) -> String {
    if mode == 0 {
        return s.to_string();
    }
    let mut out = String::new();
    let mut word = String::new();
    let mut quote: Option<char> = None;
    let flush = |word: &mut String, out: &mut String| {
        if !word.is_empty() {
            if KEYWORDS.contains(&word.as_str()) {
                if mode == 1 {
                    out.push_str(&word.to_lowercase());
                } else {
                    let mut c = word.chars();
                    let f = c.next().unwrap();
                    out.push(f);
                    out.push_str(&c.as_str().to_lowercase());
                }
            } else {
                out.push_str(word);
            }
            word.clear();
        }
    };
    for ch in s.chars() {
        if let Some(q) = quote {
            out.push(ch);
            if ch == q {
                quote = None;
            }
            continue;
        }
        if ch == '\'' || ch == '"' {
            flush(&mut word, &mut out);
            quote = Some(ch);
            out.push(ch);
        } else if ch.is_ascii_alphanumeric() || ch == '_' {
            word.push(ch);
        } else {
            flush(&mut word, &mut out);
            out.push(ch);
        }
    }
    flush(&mut word, &mut out);
    out
}

/// wrappings of a statement `q` (and a harmless read `r`) into a model response
fn wrappings(tier_quick: bool) -> Vec<&'static str> {
    if tier_quick {
        vec!["none", "fence_lang", "prose_lines"]
    } else {
        vec!["none", "fence", "fence_lang", "prose_fence", "prose_lines", "two_fences_write_first", "two_fences_read_first", "leading_ws", "trailing_semicolon", "fence_no_newline"]
    }
}

fn wrap(kind: &str, q: &str) -> String {
    let read = "MATCH (p:P) RETURN p.name";
    match kind {
        "none" => q.to_string(),
        "fence" => format!("```\n{q}\n```"),
        "fence_lang" => format!("```cypher\n{q}\n```"),
        "prose_fence" => format!("Here is the query you asked for:\n```cypher\n{q}\n```\nIt returns what you need."),
        "prose_lines" => format!("Sure! Use this query:\n{q}\nThis should work."),
        "two_fences_write_first" => format!("```cypher\n{q}\n```\nor, alternatively:\n```cypher\n{read}\n```"),
        "two_fences_read_first" => format!("```cypher\n{read}\n```\nand then:\n```cypher\n{q}\n```"),
        "leading_ws" => format!("  \n\t {q}  \n"),
        "trailing_semicolon" => format!("{q};"),
        "fence_no_newline" => format!("```{q}```"),
        _ => unreachable!(),
    }
}

fn generate(quick: bool) -> (Vec<Case>, u64) {
    let mut stmts: Vec<(String, String)> = vec![]; // (statement, description)
    let prefixes = read_prefixes();
    let writes = write_clauses();
    let seps: &[&str] = if quick { &[" "] } else { &[" ", "\n"] };
    // pure reads (controls: the endpoint must be able to say yes to something)
    for (p, v) in &prefixes {
        let ret = match v {
            Some(v) => format!("RETURN {v}"),
            None if p.starts_with("RETURN") => String::new(),
            None if p.starts_with("CALL") => "RETURN label".to_string(),
            None => "RETURN x".to_string(),
        };
        stmts.push((format!("{p} {ret}").trim().to_string(), format!("read|{p}")));
    }
    for (wname, w, needs_var) in &writes {
        // alone
        if !needs_var {
            stmts.push((w.to_string(), format!("alone|{wname}")));
            stmts.push((format!("{w} RETURN 1"), format!("alone_return|{wname}")));
            stmts.push((format!("CALL {{ {w} }}"), format!("call_subquery|{wname}")));
        }
        for (p, v) in &prefixes {
            if *needs_var && v.is_none() {
                continue;
            }
            let wv = w.replace("{v}", v.unwrap_or("n"));
            for sep in seps {
                let sd = if *sep == " " { "sp" } else { "nl" };
                // after the read prefix
                stmts.push((format!("{p}{sep}{wv}"), format!("after/{sd}|{p}|{wname}")));
                // after, followed by RETURN
                stmts.push((format!("{p}{sep}{wv}{sep}RETURN 1"), format!("after_return/{sd}|{p}|{wname}")));
                // after a WITH barrier
                if let Some(v) = v {
                    stmts.push((format!("{p}{sep}WITH {v}{sep}{wv}"), format!("after_with/{sd}|{p}|{wname}")));
                }
                // before the read part
                if !needs_var {
                    stmts.push((format!("{wv}{sep}WITH 1 AS one{sep}{p}{sep}RETURN 1"), format!("before/{sd}|{p}|{wname}")));
                }
            }
            // second branch of a UNION, and inside a CALL subquery after the prefix
            let ret = match v {
                Some(_) => "RETURN 1 AS x".to_string(),
                None if p.starts_with("RETURN") => String::new(),
                None => "RETURN 1 AS x".to_string(),
            };
            stmts.push((format!("{p} {ret} UNION {wv} RETURN 1 AS x").replace("  ", " "), format!("union|{p}|{wname}")));
            stmts.push((format!("CALL {{ {p} {wv} }}"), format!("call_subquery_after|{p}|{wname}")));
            // a line comment between the read prefix and the write: the newline that ends the comment
            // decides what is commented out, so a checker that folds whitespace sees only the prefix
            stmts.push((format!("{p} // every one of them\n{wv}"), format!("after_line_comment|{p}|{wname}")));
            stmts.push((format!("{p} // every one of them\n{wv}\nRETURN 1"), format!("after_line_comment_return|{p}|{wname}")));
            stmts.push((format!("{p} /* note */ {wv}"), format!("after_block_comment|{p}|{wname}")));
            stmts.push((format!("// {p} RETURN 1\n{p}\n{wv}"), format!("leading_line_comment|{p}|{wname}")));
            // first branch of a UNION / UNION ALL (the branch the engine routes by), read branch after it
            stmts.push((format!("{p} {wv} UNION MATCH (m) RETURN m"), format!("union_first|{p}|{wname}")));
            stmts.push((format!("{p} {wv} RETURN 1 AS x UNION ALL RETURN 1 AS x"), format!("union_all_first|{p}|{wname}")));
            stmts.push((format!("RETURN 1 AS x UNION {p} {wv} RETURN 1 AS x UNION RETURN 2 AS x"), format!("union_middle|{p}|{wname}")));
        }
    }
    let cases_modes: &[usize] = if quick { &[0, 1] } else { &[0, 1, 2] };
    let mut tuples = 0u64;
    let mut seen: BTreeSet<String> = BTreeSet::new();
    let mut out = vec![];
    for (s, d) in &stmts {
        for &cm in cases_modes {
            let sc = recase(s, cm);
            for wk in wrappings(quick) {
                tuples += 1;
                let text = wrap(wk, &sc);
                if seen.insert(text.clone()) {
                    out.push(Case { text, desc: format!("{d}|case{cm}|{wk}") });
                }
            }
        }
    }
    (out, tuples)
}

// ---------------------------------------------------------------------------
// populated graph, dump
// ---------------------------------------------------------------------------

const SETUP: &[&str] = &[
    "CREATE (a:P {name: 'ann', age: 30, alloc: 0.0})-[:R {w: 1}]->(b:P {name: 'bob', age: 40, alloc: 0.0})",
    "CREATE (:Q {name: 'q1'})",
    "CREATE (:V {e: [1.0, 0.0]})",
    "CREATE INDEX ON :P(age)",
    "CREATE CONSTRAINT ON (p:P) ASSERT p.name IS UNIQUE",
    "CREATE HIERARCHY INDEX h ON ()-[:R]->()",
];

/// Build the populated graph. The setup script is validated once at start-up (`check_setup`).
fn populated() -> GraphStore {
    let mut g = GraphStore::new();
    let e = QueryEngine::new();
    for s in SETUP {
        let _ = e.execute_mut(s, &mut g, "default");
    }
    g
}

fn check_setup(ctx: &Ctx) {
    let mut g = GraphStore::new();
    let e = QueryEngine::new();
    for s in SETUP {
        if let Err(err) = e.execute_mut(s, &mut g, "default") {
            ctx.machinery(&format!("setup statement failed: {s}: {err}"));
        }
    }
    let d = dump(&g);
    if d.nodes.len() != 4 || d.edges.len() != 1 || d.constraints.len() != 1 || !d.vector_indexes.is_empty() || d.hierarchy_indexes.len() != 1 || !d.indexes.iter().any(|i| i == "P(age)") {
        ctx.machinery(&format!("populated graph is not what the setup script says: {d:?}"));
    }
    if dump(&populated()) != d {
        ctx.machinery("populated graph is not reproducible");
    }
}

#[derive(Clone, Debug, PartialEq, Eq)]
struct Dump {
    nodes: Vec<String>,
    edges: Vec<String>,
    indexes: Vec<String>,
    constraints: Vec<String>,
    vector_indexes: Vec<String>,
    hierarchy_indexes: Vec<String>,
}

fn dump(g: &GraphStore) -> Dump {
    let mut nodes: Vec<String> = g
        .all_nodes()
        .iter()
        .map(|n| {
            let mut labels: Vec<String> = n.labels.iter().map(|l| l.as_str().to_string()).collect();
            labels.sort();
            let mut props: Vec<(String, String)> = g.node_properties_full(n.id).into_iter().filter(|(_, v)| !v.is_null()).map(|(k, v)| (k, format!("{v:?}"))).collect();
            props.sort();
            format!("{}:{:?}:{:?}", n.id.as_u64(), labels, props)
        })
        .collect();
    nodes.sort();
    let mut edges: Vec<String> = g
        .all_edges()
        .iter()
        .map(|e| {
            let mut props: Vec<(String, String)> = e.properties.iter().map(|(k, v)| (k.clone(), format!("{v:?}"))).collect();
            props.sort();
            format!("{}:{}->{}:{}:{:?}", e.id.as_u64(), e.source.as_u64(), e.target.as_u64(), e.edge_type.as_str(), props)
        })
        .collect();
    edges.sort();
    let mut indexes: Vec<String> = g.property_index.list_indexes().iter().map(|(l, p)| format!("{}({p})", l.as_str())).collect();
    indexes.sort();
    let mut constraints: Vec<String> = g.property_index.list_constraints().iter().map(|(l, p)| format!("{}({p})", l.as_str())).collect();
    constraints.sort();
    let mut vector_indexes: Vec<String> = g.vector_index.list_indices().iter().map(|k| format!("{}({})", k.label, k.property_key)).collect();
    vector_indexes.sort();
    let mut hierarchy_indexes: Vec<String> = g.hierarchy_index.list().iter().map(|h| format!("{}{:?}", h.name, h.edge_types)).collect();
    hierarchy_indexes.sort();
    Dump { nodes, edges, indexes, constraints, vector_indexes, hierarchy_indexes }
}

fn diff(a: &Dump, b: &Dump) -> Vec<&'static str> {
    let mut v = vec![];
    if a.nodes != b.nodes || a.edges != b.edges {
        v.push("graph");
    }
    if a.indexes != b.indexes || a.vector_indexes != b.vector_indexes || a.hierarchy_indexes != b.hierarchy_indexes {
        v.push("indexes");
    }
    if a.constraints != b.constraints {
        v.push("constraints");
    }
    v
}

// ---------------------------------------------------------------------------
// classification of a returned statement (region of the signature)
// ---------------------------------------------------------------------------

fn tokens_upper(q: &str) -> Vec<String> {
    let mut out = vec![];
    let mut word = String::new();
    let mut quote: Option<char> = None;
    for ch in q.chars() {
        if let Some(qc) = quote {
            if ch == qc {
                quote = None;
            }
            continue;
        }
        if ch == '\'' || ch == '"' {
            quote = Some(ch);
            continue;
        }
        if ch.is_ascii_alphanumeric() || ch == '_' || ch == '.' {
            word.push(ch.to_ascii_uppercase());
        } else {
            if !word.is_empty() {
                out.push(std::mem::take(&mut word));
            }
            if ch == '{' {
                out.push("{".into());
            }
        }
    }
    if !word.is_empty() {
        out.push(word);
    }
    out
}

/// (leading keyword, kind of the first write / DDL construct)
fn classify(q: &str) -> (String, String) {
    let t = tokens_upper(q);
    let lead = t.first().cloned().unwrap_or_default();
    let mut kind = "none".to_string();
    let mut i = 0;
    while i < t.len() {
        let next = t.get(i + 1).map(|s| s.as_str()).unwrap_or("");
        let k = match t[i].as_str() {
            "CREATE" => match next {
                "INDEX" => "create_index",
                "CONSTRAINT" => "create_constraint",
                "VECTOR" => "create_vector_index",
                "HIERARCHY" => "create_hierarchy_index",
                _ => "create",
            },
            "DROP" => {
                if next == "HIERARCHY" {
                    "drop_hierarchy_index"
                } else {
                    "drop_index"
                }
            }
            "REBUILD" => "rebuild_hierarchy_index",
            "MERGE" => "merge",
            "SET" => "set",
            "REMOVE" => "remove",
            "DETACH" | "DELETE" => "delete",
            "FOREACH" => "foreach",
            "ALGO.OR.SOLVE" | "OR.SOLVE" | "GDS.OR.SOLVE" | "SAMYAMA.OR.SOLVE" => "call_or_solve",
            _ => "",
        };
        if !k.is_empty() {
            kind = k.to_string();
            break;
        }
        i += 1;
    }
    let lead = if lead == "CALL" && t.get(1).map(|s| s == "{").unwrap_or(false) { "CALL{}".to_string() } else { lead };
    (lead, kind)
}

// ---------------------------------------------------------------------------
// judging a returned statement
// ---------------------------------------------------------------------------

#[derive(Debug, Clone)]
struct Judgement {
    parses: bool,
    is_write: Option<bool>,
    plan_error: Option<String>,
    /// what execute_mut changed on a populated graph
    exec_mut_changed: Vec<&'static str>,
    exec_mut_result: String,
    /// what the read-only executor changed (interior mutability)
    exec_read_changed: Vec<&'static str>,
    /// what POST /api/query changed
    endpoint_changed: Vec<&'static str>,
    endpoint_status: u16,
}

async fn judge(q: String) -> Judgement {
    let q = q.as_str();
    let parsed = guarded(|| parse_query(q));
    let (parses, is_write, plan_error) = match &parsed {
        Ok(Ok(ast)) => {
            let g = populated();
            match guarded(|| QueryPlanner::new().plan(ast, &g).map(|p| p.is_write)) {
                Ok(Ok(w)) => (true, Some(w), None),
                Ok(Err(e)) => (true, None, Some(e.to_string())),
                Err(p) => (true, None, Some(format!("planner panicked: {p}"))),
            }
        }
        Ok(Err(_)) => (false, None, None),
        Err(p) => (false, None, Some(format!("parser panicked: {p}"))),
    };
    // engine, mutable executor
    let mut g = populated();
    let before = dump(&g);
    let eng = QueryEngine::new();
    let r = guarded(|| eng.execute_mut(q, &mut g, "default").map(|b| b.records.len()).map_err(|e| e.to_string()));
    let exec_mut_result = match r {
        Ok(Ok(n)) => format!("ok({n} rows)"),
        Ok(Err(e)) => format!("err({})", e.chars().take(80).collect::<String>()),
        Err(p) => format!("panic({})", p.chars().take(80).collect::<String>()),
    };
    let exec_mut_changed = diff(&before, &dump(&g));
    // engine, read-only executor
    let g2 = populated();
    let _ = guarded(|| eng.execute(q, &g2).map(|b| b.records.len()).map_err(|e| e.to_string()));
    let exec_read_changed = diff(&before, &dump(&g2));
    // the server's own query endpoint
    let store = Arc::new(RwLock::new(populated()));
    let router = HttpServer::new(store.clone(), 0).router();
    let req = Request::builder().method("POST").uri("/api/query").header("content-type", "application/json").body(Body::from(json!({"query": q}).to_string())).unwrap();
    let resp = router.oneshot(req).await;
    let endpoint_status = resp.map(|r| r.status().as_u16()).unwrap_or(0);
    let after = dump(&*store.read().await);
    let endpoint_changed = diff(&before, &after);
    Judgement { parses, is_write, plan_error, exec_mut_changed, exec_mut_result, exec_read_changed, endpoint_changed, endpoint_status }
}

// ---------------------------------------------------------------------------
// the stub model + the endpoint
// ---------------------------------------------------------------------------

async fn start_stub(texts: Arc<Vec<String>>) -> u16 {
    use axum::extract::State;
    use axum::routing::post;
    use axum::Json;
    async fn generate(State(texts): State<Arc<Vec<String>>>, Json(body): Json<Value>) -> (StatusCode, Json<Value>) {
        let prompt = body["prompt"].as_str().unwrap_or("");
        let marker = "Question: \"case-";
        let id = prompt.rfind(marker).and_then(|i| {
            let rest = &prompt[i + marker.len()..];
            rest.split('"').next().and_then(|s| s.parse::<usize>().ok())
        });
        match id.and_then(|i| texts.get(i)) {
            Some(t) => (StatusCode::OK, Json(json!({"response": t, "done": true}))),
            None => (StatusCode::IM_A_TEAPOT, Json(json!({"error": "stub: unknown case"}))),
        }
    }
    let app = axum::Router::new().route("/api/generate", post(generate)).with_state(texts);
    let listener = tokio::net::TcpListener::bind("127.0.0.1:0").await.expect("bind stub");
    let port = listener.local_addr().unwrap().port();
    tokio::spawn(async move {
        let _ = axum::serve(listener, app).await;
    });
    port
}

#[derive(Clone, Debug)]
enum Endpoint {
    Returned(String),
    Rejected(String),
    Infra(String),
}

async fn ask(router: axum::Router, id: usize) -> Endpoint {
    let req = Request::builder().method("POST").uri("/api/nlq").header("content-type", "application/json").body(Body::from(json!({"question": format!("case-{id}")}).to_string())).unwrap();
    let resp = match router.oneshot(req).await {
        Ok(r) => r,
        Err(e) => return Endpoint::Infra(format!("router error: {e}")),
    };
    let status = resp.status();
    let bytes = match resp.into_body().collect().await {
        Ok(b) => b.to_bytes(),
        Err(e) => return Endpoint::Infra(format!("body: {e}")),
    };
    let v: Value = serde_json::from_slice(&bytes).unwrap_or(json!(null));
    if status == StatusCode::OK {
        match v["cypher"].as_str() {
            Some(c) => Endpoint::Returned(c.to_string()),
            None => Endpoint::Infra(format!("200 without cypher: {v}")),
        }
    } else {
        let e = v["error"].as_str().unwrap_or("").to_string();
        if e.starts_with("Validation error") {
            Endpoint::Rejected(e)
        } else {
            Endpoint::Infra(format!("{status}: {e}"))
        }
    }
}

fn silence_stderr() {
    unsafe {
        let fd = libc::open(b"/dev/null\0".as_ptr() as *const libc::c_char, libc::O_WRONLY);
        if fd >= 0 {
            libc::dup2(fd, 2);
        }
    }
}

/// Run `f` with fd 1 pointed at /dev/null (the optimisation solvers print progress to stdout).
fn quiet_stdout<T>(f: impl FnOnce() -> T) -> T {
    use std::io::Write;
    let _ = std::io::stdout().flush();
    unsafe {
        let saved = libc::dup(1);
        let fd = libc::open(b"/dev/null\0".as_ptr() as *const libc::c_char, libc::O_WRONLY);
        libc::dup2(fd, 1);
        libc::close(fd);
        let r = f();
        let _ = std::io::stdout().flush();
        libc::dup2(saved, 1);
        libc::close(saved);
        r
    }
}

fn violations_of(q: &str, j: &Judgement) -> Vec<(String, String)> {
    let (lead, kind) = classify(q);
    let mut v = vec![];
    let _ = &lead;
    let region = format!("write={kind}");
    if j.is_write == Some(true) {
        v.push((format!("accepted[{region}]:plans_as_write"), format!("the endpoint returned `{q}` (leading keyword {lead}), which the planner marks is_write")));
    }
    let mut changed: BTreeSet<&str> = BTreeSet::new();
    changed.extend(j.exec_mut_changed.iter());
    changed.extend(j.exec_read_changed.iter());
    changed.extend(j.endpoint_changed.iter());
    if !changed.is_empty() {
        let what: Vec<&str> = changed.into_iter().collect();
        let sym = if j.is_write == Some(true) { "mutates" } else { "mutates_though_not_planned_as_write" };
        v.push((
            format!("accepted[{region}]:{sym}:{}", what.join("+")),
            format!(
                "the endpoint returned `{q}`; executing it on a populated graph changed {} (engine execute_mut: {:?} -> {}; read-only executor: {:?}; POST /api/query [{}]: {:?})",
                what.join("+"),
                j.exec_mut_changed,
                j.exec_mut_result,
                j.exec_read_changed,
                j.endpoint_status,
                j.endpoint_changed
            ),
        ));
    }
    v
}

fn main() {
    // The handler reads its configuration from the process environment.
    std::env::set_var("NLQ_PROVIDER", "ollama");
    std::env::set_var("NLQ_MODEL", "stub");
    std::env::remove_var("SAMYAMA_GRAPH_NATIVE");
    for k in ["http_proxy", "HTTP_PROXY", "https_proxy", "HTTPS_PROXY", "all_proxy", "ALL_PROXY"] {
        std::env::remove_var(k);
    }
    std::env::set_var("NO_PROXY", "127.0.0.1,localhost");
    run_check("C24", Level::Exploration, |ctx| {
        silence_stderr();
        let rt = tokio::runtime::Builder::new_multi_thread().worker_threads(8).enable_all().build().expect("runtime");
        if let Some(p) = &ctx.replay {
            let doc: Value = serde_json::from_str(&std::fs::read_to_string(p).expect("read replay")).expect("json");
            let text = doc["witness"]["model_response"].as_str().unwrap_or_else(|| ctx.machinery("replay: no model_response")).to_string();
            rt.block_on(run_cases(ctx, vec![Case { text, desc: "replay".into() }], 1, true));
            return;
        }
        check_setup(ctx);
        if std::env::var("C24_PROFILE").is_ok() {
            let t = std::time::Instant::now();
            for _ in 0..20 { let _ = populated(); }
            println!("populated: {:?} each", t.elapsed() / 20);
            let mut g = GraphStore::new();
            let e = QueryEngine::new();
            for s in SETUP { let t = std::time::Instant::now(); let _ = e.execute_mut(s, &mut g, "default"); println!("  {:?} {s}", t.elapsed()); }
            let t = std::time::Instant::now();
            for _ in 0..20 { let _ = dump(&g); }
            println!("dump: {:?} each", t.elapsed() / 20);
            let t = std::time::Instant::now();
            let store = Arc::new(RwLock::new(populated()));
            for _ in 0..20 { let _ = HttpServer::new(store.clone(), 0).router(); }
            println!("router: {:?} each", t.elapsed() / 20);
            let t = std::time::Instant::now();
            drop(g);
            println!("drop: {:?}", t.elapsed());
            return;
        }
        let (cases, tuples) = generate(ctx.quick());
        rt.block_on(run_cases(ctx, cases, tuples, false));
    });
}

async fn run_cases(ctx: &Ctx, cases: Vec<Case>, tuples: u64, verbose: bool) {
    let texts = Arc::new(cases.iter().map(|c| c.text.clone()).collect::<Vec<_>>());
    let port = start_stub(texts.clone()).await;
    std::env::set_var("NLQ_API_BASE_URL", format!("http://127.0.0.1:{port}"));
    // the real endpoint, over a populated store
    let store = Arc::new(RwLock::new(populated()));
    let before = dump(&*store.read().await);
    let router = HttpServer::new(store.clone(), 0).router();
    let n = cases.len();
    let workers = 48usize;
    let mut handles = vec![];
    for w in 0..workers {
        let router = router.clone();
        handles.push(tokio::spawn(async move {
            let mut out = vec![];
            let mut i = w;
            while i < n {
                out.push((i, ask(router.clone(), i).await));
                i += workers;
            }
            out
        }));
    }
    let t_ep = std::time::Instant::now();
    let mut answers: Vec<Option<Endpoint>> = vec![None; n];
    for h in handles {
        for (i, a) in h.await.expect("worker") {
            answers[i] = Some(a);
        }
    }
    let endpoint_s = t_ep.elapsed().as_secs_f64();
    let t_j = std::time::Instant::now();
    // the translation endpoint itself must not have touched the store
    let after = dump(&*store.read().await);
    if before != after {
        ctx.violation("nlq_endpoint:mutates_store", "POST /api/nlq changed the store it serves", json!({"changed": diff(&before, &after)}));
    }
    let mut returned: BTreeMap<String, Vec<usize>> = BTreeMap::new();
    let mut rejected = 0u64;
    for (i, a) in answers.iter().enumerate() {
        match a.as_ref().unwrap() {
            Endpoint::Returned(q) => returned.entry(q.clone()).or_default().push(i),
            Endpoint::Rejected(_) => rejected += 1,
            Endpoint::Infra(e) => ctx.machinery(&format!("stub/endpoint infrastructure failure on case {i} ({}): {e}", cases[i].desc)),
        }
    }
    // judge every distinct returned statement
    let mut unparseable = 0u64;
    let mut harmless = 0u64;
    let mut plan_errors = 0u64;
    let mut violating_statements = 0u64;
    let mut violating_cases = 0u64;
    let mut by_lead: BTreeMap<String, u64> = BTreeMap::new();
    // simplest statements first, so the first witness per signature is the smallest
    let mut order: Vec<(&String, &Vec<usize>)> = returned.iter().collect();
    order.sort_by_key(|(q, _)| (q.len(), (*q).clone()));
    // judge all distinct statements concurrently (stdout silenced: the solvers print progress)
    let saved = quiet_begin();
    let mut jhandles = vec![];
    for (q, _) in &order {
        jhandles.push(tokio::spawn(judge((*q).clone())));
    }
    let mut judgements = vec![];
    for h in jhandles {
        judgements.push(h.await.expect("judge task"));
    }
    quiet_end(saved);
    for ((q, ids), j) in order.into_iter().zip(judgements.into_iter()) {
        *by_lead.entry(classify(q).0).or_default() += 1;
        if !j.parses {
            unparseable += 1;
        }
        if j.plan_error.is_some() {
            plan_errors += 1;
        }
        let vs = violations_of(q, &j);
        if verbose {
            println!("model response: {:?}", cases[ids[0]].text);
            println!("endpoint returned: {q:?}");
            println!("  expected: planner is_write == false, and no change of graph / indexes / constraints when executed");
            println!("  observed: parses={} is_write={:?} plan_error={:?} execute_mut -> {} changed {:?}; read executor changed {:?}; /api/query [{}] changed {:?}", j.parses, j.is_write, j.plan_error, j.exec_mut_result, j.exec_mut_changed, j.exec_read_changed, j.endpoint_status, j.endpoint_changed);
        }
        if vs.is_empty() {
            harmless += 1;
        } else {
            violating_statements += 1;
            violating_cases += ids.len() as u64;
            // smallest model response that produced this statement
            let best = ids.iter().min_by_key(|i| (cases[**i].text.len(), **i)).unwrap();
            for (sig, msg) in vs {
                if verbose {
                    println!("  MISMATCH [{sig}] {msg}");
                }
                ctx.violation(&sig, msg, json!({"model_response": cases[*best].text, "case": cases[*best].desc, "returned": q, "responses_yielding_this_statement": ids.len(), "judgement": format!("{j:?}")}));
            }
        }
    }
    if verbose {
        if returned.is_empty() {
            println!("model response: {:?}\nendpoint rejected it: {:?}", cases[0].text, answers[0]);
        }
        return;
    }
    ctx.cov("phase_wall_s", json!({"endpoint": endpoint_s, "judging": t_j.elapsed().as_secs_f64()}));
    ctx.cov("evaluations", n as u64);
    ctx.cov("generator_cardinality", n as u64);
    ctx.cov("generator_tuples_before_text_dedup", tuples);
    ctx.cov("exhaustive", true);
    ctx.cov("distinct_nontrivial", returned.len() as u64);
    ctx.cov("rule", "a model response is non-trivial if the endpoint answered 200 with a statement (only then is there anything to judge); counted as DISTINCT returned statements");
    ctx.cov("returned_responses", (n as u64) - rejected);
    ctx.cov("rejected_responses", rejected);
    ctx.cov("distinct_returned_statements", returned.len() as u64);
    ctx.cov("returned_unparseable", unparseable);
    ctx.cov("returned_plan_errors", plan_errors);
    ctx.cov("returned_harmless", harmless);
    ctx.cov("returned_violating_statements", violating_statements);
    ctx.cov("responses_yielding_violating_statement", violating_cases);
    ctx.cov("returned_by_leading_keyword", json!(by_lead));
    ctx.cov("generator", json!({"read_prefixes": read_prefixes().len(), "write_clauses": write_clauses().len(), "positions": "alone, alone+RETURN, CALL{..}, after, after+RETURN, after WITH, before, after a // line comment or /* */ comment, UNION branch (second, first, first of UNION ALL, middle of three), CALL{prefix write}", "separators": if ctx.quick() { 1 } else { 2 }, "wrappings": wrappings(ctx.quick()), "keyword_case_variants": if ctx.quick() { 2 } else { 3 }}));
    for i in [0usize, n / 3, n / 2, n - 1] {
        ctx.sample(json!({"case": cases[i].desc, "model_response": cases[i].text, "endpoint": format!("{:?}", answers[i].as_ref().unwrap())}));
    }
    ctx.assume("a returned statement that does not parse is harmless (the engine refuses it); Err from the endpoint is always fine");
    ctx.assume("'populated copy' = a fresh store built by a fixed setup script (2 :P nodes + 1 relationship, :Q, :V with a vector, property index, unique constraint, hierarchy index; no vector index, because creating one costs 20-30 ms and four graphs are built per judged statement -- a CREATE VECTOR INDEX is still seen as a change of the vector-index list); GraphStore is not Clone");
    ctx.assume("a statement is judged through three executors: QueryEngine::execute_mut, QueryEngine::execute (interior mutability of index managers) and the server's POST /api/query; any change of nodes, relationships, property/vector/hierarchy index lists or constraint list counts");
    println!("cases {} (tuples {}), returned {} ({} distinct statements), rejected {}, violating statements {}", n, tuples, (n as u64) - rejected, returned.len(), rejected, violating_statements);
}

fn quiet_begin() -> i32 {
    use std::io::Write;
    let _ = std::io::stdout().flush();
    unsafe {
        let saved = libc::dup(1);
        let fd = libc::open(b"/dev/null\0".as_ptr() as *const libc::c_char, libc::O_WRONLY);
        libc::dup2(fd, 1);
        libc::close(fd);
        saved
    }
}
fn quiet_end(saved: i32) {
    use std::io::Write;
    let _ = std::io::stdout().flush();
    unsafe {
        libc::dup2(saved, 1);
        libc::close(saved);
    }
}
