//! C15 — WAL replays exactly the durable prefix, in order (DESIGN §C15).
//!
//! Part 1 (`hx`, model_checking): every history over {append x3 entry kinds, flush,
//! close+reopen, checkpoint} on a real `Wal` directory; after every step append results must
//! strictly increase and `replay(k)` for every k must return exactly the appended records with
//! sequence >= k, in order.
//! Part 2 (fault_enumeration): for the on-disk directory of every history of depth <= D:
//! truncate the newest file at every byte offset (replay must be Ok with exactly the
//! complete-record prefix; then reopen + append + replay must still work with increasing
//! sequence numbers) and flip every bit of every byte of every file (replay must report an
//! error, or return the original records, or — for a damaged length prefix, which is
//! indistinguishable from a torn tail — a prefix of them; never an altered record, never a gap
//! followed by later records).
use rayon::prelude::*;
use samyama::persistence::wal::{Wal, WalEntry, WalError};
use serde_json::{json, Value};
use std::collections::{BTreeMap, BTreeSet, HashSet};
use std::path::{Path, PathBuf};
use std::sync::atomic::{AtomicU64, Ordering};
use svmc::engine::ctx::guarded;
use svmc::engine::hx::{self, Model, Step};
use svmc::engine::subproc::{self, Outcome};
use svmc::{run_check, Ctx, Level};

#[global_allocator]
static ALLOC: svmc::engine::alloc::Counting = svmc::engine::alloc::Counting;

// ---------------------------------------------------------------- temp dirs
static CTR: AtomicU64 = AtomicU64::new(0);
fn root() -> PathBuf {
    match std::env::var("C15_ROOT") {
        Ok(r) => PathBuf::from(r).join(format!("w{}", std::process::id())),
        Err(_) => PathBuf::from(format!("/verif/target/tmp/c15-{}", std::process::id())),
    }
}
struct TmpDir(PathBuf);
impl TmpDir {
    fn new() -> TmpDir {
        // one parent directory per thread: directory operations serialise on the parent's lock
        let shard = rayon::current_thread_index().map(|i| i as i64).unwrap_or(-1);
        let p = root().join(format!("t{shard}")).join(format!("d{}", CTR.fetch_add(1, Ordering::Relaxed)));
        let _ = std::fs::remove_dir_all(&p);
        std::fs::create_dir_all(&p).expect("mkdir tmp");
        TmpDir(p)
    }
}
impl Drop for TmpDir {
    fn drop(&mut self) {
        let _ = std::fs::remove_dir_all(&self.0);
    }
}

// ---------------------------------------------------------------- entries
fn mk_entry(kind: u8, n: u64) -> WalEntry {
    match kind {
        0 => WalEntry::CreateNode { tenant: "t".into(), node_id: n, labels: vec!["L".into()], properties: vec![n as u8] },
        1 => WalEntry::DeleteEdge { tenant: "t".into(), edge_id: n },
        _ => WalEntry::UpdateNodeProperties { tenant: "t".into(), node_id: n, properties: vec![7, n as u8], version: n },
    }
}
/// Comparable form of an entry: bincode bytes with the checkpoint's wall-clock field zeroed.
fn norm(e: &WalEntry) -> Vec<u8> {
    let mut e = e.clone();
    if let WalEntry::Checkpoint { timestamp, .. } = &mut e {
        *timestamp = 0;
    }
    bincode::serialize(&e).unwrap()
}
fn show(ent: &[u8]) -> String {
    match bincode::deserialize::<WalEntry>(ent) {
        Ok(WalEntry::CreateNode { node_id, .. }) => format!("CreateNode#{node_id}"),
        Ok(WalEntry::DeleteEdge { edge_id, .. }) => format!("DeleteEdge#{edge_id}"),
        Ok(WalEntry::UpdateNodeProperties { node_id, .. }) => format!("UpdateNode#{node_id}"),
        Ok(WalEntry::Checkpoint { sequence, .. }) => format!("Checkpoint({sequence})"),
        Ok(o) => format!("{:?}", o),
        Err(_) => format!("<undecodable {}>", hex(ent)),
    }
}
fn show_list(l: &[Vec<u8>]) -> String {
    format!("[{}]", l.iter().map(|e| show(e)).collect::<Vec<_>>().join(", "))
}
fn hex(b: &[u8]) -> String {
    b.iter().map(|x| format!("{:02x}", x)).collect()
}
fn unhex(s: &str) -> Vec<u8> {
    (0..s.len() / 2).map(|i| u8::from_str_radix(&s[2 * i..2 * i + 2], 16).unwrap()).collect()
}

// ---------------------------------------------------------------- observing replay
#[derive(Clone, Debug, PartialEq)]
enum Out {
    Err(String),
    Ok(Vec<Vec<u8>>, u64),
}
impl Out {
    fn to_json(&self) -> Value {
        match self {
            Out::Err(c) => json!({"err": c}),
            Out::Ok(l, r) => json!({"ok": l.iter().map(|e| hex(e)).collect::<Vec<_>>(), "ret": r}),
        }
    }
    fn from_json(v: &Value) -> Out {
        if let Some(e) = v.get("err") {
            Out::Err(e.as_str().unwrap_or("").to_string())
        } else {
            Out::Ok(v["ok"].as_array().unwrap().iter().map(|s| unhex(s.as_str().unwrap())).collect(), v["ret"].as_u64().unwrap())
        }
    }
    fn show(&self) -> String {
        match self {
            Out::Err(c) => format!("Err({c})"),
            Out::Ok(l, r) => format!("Ok({}, last_sequence={r})", show_list(l)),
        }
    }
}
fn err_class(e: &WalError) -> String {
    match e {
        WalError::Io(e) => format!("io:{:?}", e.kind()),
        WalError::Serialization(_) => "serialization".into(),
        WalError::Corruption(_) => "corruption".into(),
        WalError::InvalidEntry(_) => "invalid_entry".into(),
    }
}
fn do_replay(wal: &Wal, k: u64) -> Out {
    let r = guarded(|| {
        let mut v = vec![];
        let r = wal.replay(k, |e| {
            v.push(norm(e));
            Ok(())
        });
        (r, v)
    });
    match r {
        Err(p) => Out::Err(format!("panic:{p}")),
        Ok((Err(e), _)) => Out::Err(err_class(&e)),
        Ok((Ok(ret), v)) => Out::Ok(v, ret),
    }
}

// ================================================================ part 1: hx
#[derive(Clone, Debug, PartialEq, Eq, Hash)]
enum Op {
    Append(u8),
    Flush,
    Reopen,
    Checkpoint,
}
#[derive(Clone, Debug)]
struct Rec {
    seq: u64,
    ent: Vec<u8>,
}
struct St {
    dir: TmpDir,
    wal: Option<Wal>,
    recs: Vec<Rec>,
    flushed: usize,
    file_open: bool,
    reopened: bool,
}
/// `pre` is a history applied (unchecked) before exploration starts: a non-initial start state.
struct M {
    pre: Vec<Op>,
}
impl M {
    fn plain() -> M {
        M { pre: vec![] }
    }
}

fn list_files(dir: &Path) -> Vec<(String, Vec<u8>)> {
    let mut v: Vec<(String, Vec<u8>)> = std::fs::read_dir(dir)
        .map(|rd| rd.flatten().map(|e| (e.file_name().to_string_lossy().to_string(), std::fs::read(e.path()).unwrap_or_default())).collect())
        .unwrap_or_default();
    v.sort();
    v
}

impl Model for M {
    type Op = Op;
    type State = St;
    type Key = String;
    fn init(&self) -> St {
        let dir = TmpDir::new();
        let wal = Wal::new(&dir.0).expect("Wal::new on a fresh directory");
        let mut st = St { dir, wal: Some(wal), recs: vec![], flushed: 0, file_open: false, reopened: false };
        for op in &self.pre {
            let _ = self.apply(&mut st, op, false);
        }
        st
    }
    fn ops(&self, _st: &St) -> Vec<Op> {
        vec![Op::Append(0), Op::Append(1), Op::Append(2), Op::Flush, Op::Reopen, Op::Checkpoint]
    }
    fn apply(&self, st: &mut St, op: &Op, check: bool) -> Step {
        let mut vio: Vec<(String, String)> = vec![];
        let region = if st.reopened || matches!(op, Op::Reopen) { "after_reopen" } else { "one_session" };
        let prev_max = st.recs.iter().map(|r| r.seq).max().unwrap_or(0);
        let mut outcome = "ok".to_string();
        match op {
            Op::Append(kind) => {
                let e = mk_entry(*kind, st.recs.len() as u64 + 1);
                let ent = norm(&e);
                let wal = st.wal.as_mut().unwrap();
                match guarded(|| wal.append(e)) {
                    Ok(Ok(seq)) => {
                        if seq <= prev_max {
                            vio.push((format!("append:seq_not_increasing:{region}"), format!("append returned sequence {seq} but sequence {prev_max} was already handed out")));
                        }
                        st.recs.push(Rec { seq, ent });
                        st.file_open = true;
                    }
                    Ok(Err(e)) => {
                        vio.push((format!("append:error:{region}"), format!("append failed: {e}")));
                        outcome = "err".into();
                    }
                    Err(p) => {
                        vio.push((format!("append:panic:{region}"), p));
                        outcome = "panic".into();
                    }
                }
            }
            Op::Flush => {
                let wal = st.wal.as_mut().unwrap();
                match guarded(|| wal.flush()) {
                    Ok(Ok(())) => st.flushed = st.recs.len(),
                    Ok(Err(e)) => vio.push((format!("flush:error:{region}"), format!("{e}"))),
                    Err(p) => vio.push((format!("flush:panic:{region}"), p)),
                }
            }
            Op::Reopen => {
                st.wal = None; // drop = close (the buffered writer flushes on drop)
                st.flushed = st.recs.len();
                st.file_open = false;
                st.reopened = true;
                match guarded(|| Wal::new(&st.dir.0)) {
                    Ok(Ok(w)) => st.wal = Some(w),
                    Ok(Err(e)) => {
                        vio.push(("reopen:error".into(), format!("Wal::new on an existing log failed: {e}")));
                        st.wal = Some(Wal::new(st.dir.0.join("after-failed-reopen")).unwrap());
                    }
                    Err(p) => {
                        vio.push(("reopen:panic".into(), p));
                        st.wal = Some(Wal::new(st.dir.0.join("after-failed-reopen")).unwrap());
                    }
                }
            }
            Op::Checkpoint => {
                let wal = st.wal.as_mut().unwrap();
                let arg = wal.current_sequence();
                match guarded(|| wal.checkpoint(arg)) {
                    Ok(Ok(())) => {
                        let seq = wal.current_sequence();
                        if seq <= prev_max {
                            vio.push((format!("append:seq_not_increasing:{region}"), format!("checkpoint record got sequence {seq} but sequence {prev_max} was already handed out")));
                        }
                        st.recs.push(Rec { seq, ent: norm(&WalEntry::Checkpoint { sequence: arg, timestamp: 0 }) });
                        st.flushed = st.recs.len();
                        st.file_open = false;
                    }
                    Ok(Err(e)) => vio.push((format!("checkpoint:error:{region}"), format!("{e}"))),
                    Err(p) => vio.push((format!("checkpoint:panic:{region}"), p)),
                }
            }
        }
        if check {
            let wal = st.wal.as_ref().unwrap();
            let maxseq = st.recs.iter().map(|r| r.seq).max().unwrap_or(0);
            for k in 0..=maxseq + 1 {
                let got = do_replay(wal, k);
                match &got {
                    Out::Err(c) => {
                        vio.push((format!("replay:error:{}:{region}", c.split(':').next().unwrap_or("")), format!("replay({k}) of an undamaged log returned {}", got.show())));
                        break;
                    }
                    Out::Ok(l, ret) => {
                        // durable records must be there; records still in the write buffer may or may not be
                        let mut okay = false;
                        let mut want_show = String::new();
                        for m in st.flushed..=st.recs.len() {
                            let want: Vec<&Rec> = st.recs[..m].iter().filter(|r| r.seq >= k).collect();
                            if m == st.flushed {
                                want_show = format!("[{}]", want.iter().map(|r| format!("{}@{}", show(&r.ent), r.seq)).collect::<Vec<_>>().join(", "));
                            }
                            if want.len() == l.len() && want.iter().zip(l.iter()).all(|(a, b)| &a.ent == b) {
                                okay = true;
                                if let Some(last) = want.last() {
                                    if *ret != last.seq {
                                        vio.push((format!("replay:return_value:{region}"), format!("replay({k}) returned last sequence {ret}, the last record delivered has sequence {}", last.seq)));
                                    }
                                }
                                break;
                            }
                        }
                        if !okay {
                            vio.push((format!("replay:mismatch:{region}"), format!("replay({k}) delivered {}, appended (durable) records with sequence >= {k}: {want_show}", show_list(l))));
                            break;
                        }
                    }
                }
            }
        }
        Step { violations: vio, outcome }
    }
    fn key(&self, st: &St) -> String {
        let files: Vec<(String, usize)> = list_files(&st.dir.0).into_iter().map(|(n, b)| (n, b.len())).collect();
        format!("{:?}|{}|{}|{:?}", st.recs.iter().map(|r| (r.seq, hex(&r.ent))).collect::<Vec<_>>(), st.flushed, st.file_open, files)
    }
}

// ================================================================ part 2: faults
/// One record as laid out in a file (framing knowledge: u32 LE length, then bincode of
/// (sequence u64, entry, checksum u32)).
#[derive(Clone, Debug)]
struct Frame {
    file: usize,
    start: usize,
    end: usize,
    seq: u64,
    ent: Vec<u8>,
}
fn parse_frames(files: &[(String, Vec<u8>)]) -> Option<Vec<Frame>> {
    let mut out = vec![];
    for (fi, (_, b)) in files.iter().enumerate() {
        let mut pos = 0usize;
        while pos < b.len() {
            if pos + 4 > b.len() {
                return None;
            }
            let len = u32::from_le_bytes([b[pos], b[pos + 1], b[pos + 2], b[pos + 3]]) as usize;
            if pos + 4 + len > b.len() {
                return None;
            }
            let body = &b[pos + 4..pos + 4 + len];
            let (seq, entry, _ck): (u64, WalEntry, u32) = bincode::deserialize(body).ok()?;
            out.push(Frame { file: fi, start: pos, end: pos + 4 + len, seq, ent: norm(&entry) });
            pos += 4 + len;
        }
    }
    Some(out)
}
/// Which field of which record a byte offset of a file lies in.
fn field_of(frames: &[Frame], file: usize, off: usize) -> (&'static str, usize) {
    for (i, f) in frames.iter().enumerate() {
        if f.file == file && off >= f.start && off < f.end {
            let rel = off - f.start;
            let name = if rel < 4 {
                "len"
            } else if rel < 12 {
                "seq"
            } else if off >= f.end - 4 {
                "checksum"
            } else {
                "entry"
            };
            return (name, i);
        }
    }
    ("none", usize::MAX)
}

#[derive(Clone, Debug)]
struct DirSpec {
    files: Vec<(String, Vec<u8>)>,
    history: Vec<String>,
}

/// A reusable scratch directory: only files whose content changes are rewritten.
struct Scratch {
    dir: TmpDir,
    cur: BTreeMap<String, Vec<u8>>,
}
impl Scratch {
    fn new() -> Scratch {
        Scratch { dir: TmpDir::new(), cur: BTreeMap::new() }
    }
    fn set(&mut self, files: &[(String, Vec<u8>)], rescan: bool) {
        if rescan {
            // the subject may have created files of its own in the previous case
            for (n, _) in list_files(&self.dir.0) {
                if !self.cur.contains_key(&n) {
                    let _ = std::fs::remove_file(self.dir.0.join(&n));
                }
            }
        }
        let stale: Vec<String> = self.cur.keys().filter(|k| !files.iter().any(|(n, _)| n == *k)).cloned().collect();
        for n in stale {
            let _ = std::fs::remove_file(self.dir.0.join(&n));
            self.cur.remove(&n);
        }
        for (n, b) in files {
            if self.cur.get(n) != Some(b) {
                std::fs::write(self.dir.0.join(n), b).expect("write case file");
                self.cur.insert(n.clone(), b.clone());
            }
        }
    }
}
thread_local! {
    static SCRATCH: std::cell::RefCell<Option<(Scratch, bool)>> = std::cell::RefCell::new(None);
}

/// Materialise `files`, open the log, replay from every k in 0..=maxk; optionally then
/// close, reopen, append one record, flush and replay again (the restart after a crash).
fn eval_dir(files: &[(String, Vec<u8>)], maxk: u64, extended: bool) -> Value {
    SCRATCH.with(|c| {
        let mut c = c.borrow_mut();
        if c.is_none() {
            *c = Some((Scratch::new(), false));
        }
        let (sc, dirty) = c.as_mut().unwrap();
        sc.set(files, *dirty);
        *dirty = extended;
        eval_in(&sc.dir.0, maxk, extended)
    })
}
fn eval_in(d: &Path, maxk: u64, extended: bool) -> Value {
    let wal = match guarded(|| Wal::new(d)) {
        Ok(Ok(w)) => w,
        Ok(Err(e)) => return json!({"open_err": err_class(&e)}),
        Err(p) => return json!({"open_err": format!("panic:{p}")}),
    };
    let outs: Vec<Value> = (0..=maxk).map(|k| do_replay(&wal, k).to_json()).collect();
    let mut res = json!({ "replays": outs });
    if extended {
        drop(wal);
        let r = guarded(|| -> Result<(u64, Vec<Value>), String> {
            let mut w = Wal::new(d).map_err(|e| format!("reopen:{}", err_class(&e)))?;
            let seq = w.append(mk_entry(0, 99)).map_err(|e| format!("append:{}", err_class(&e)))?;
            w.flush().map_err(|e| format!("flush:{}", err_class(&e)))?;
            let outs = (0..=maxk.max(seq) + 1).map(|k| do_replay(&w, k).to_json()).collect();
            Ok((seq, outs))
        });
        res["ext"] = match r {
            Ok(Ok((seq, outs))) => json!({"seq": seq, "replays": outs}),
            Ok(Err(e)) => json!({"err": e}),
            Err(p) => json!({"err": format!("panic:{p}")}),
        };
    }
    res
}

fn files_json(files: &[(String, Vec<u8>)]) -> Value {
    json!(files.iter().map(|(n, b)| json!([n, hex(b)])).collect::<Vec<_>>())
}
fn files_from_json(v: &Value) -> Vec<(String, Vec<u8>)> {
    v.as_array().unwrap().iter().map(|p| (p[0].as_str().unwrap().to_string(), unhex(p[1].as_str().unwrap()))).collect()
}
fn apply_fault(files: &[(String, Vec<u8>)], fault: &Value) -> Vec<(String, Vec<u8>)> {
    let mut f = files.to_vec();
    let fi = fault["file"].as_u64().unwrap() as usize;
    match fault["kind"].as_str().unwrap() {
        "trunc" => f[fi].1.truncate(fault["cut"].as_u64().unwrap() as usize),
        "flip" => f[fi].1[fault["byte"].as_u64().unwrap() as usize] ^= 1u8 << fault["bit"].as_u64().unwrap(),
        _ => {}
    }
    f
}
fn worker_case(line: &str) -> String {
    let v: Value = serde_json::from_str(line).expect("case json");
    let files = apply_fault(&files_from_json(&v["files"]), &v["fault"]);
    eval_dir(&files, v["maxk"].as_u64().unwrap(), v["extended"].as_bool().unwrap_or(false)).to_string()
}

fn is_prefix(a: &[Vec<u8>], b: &[Vec<u8>]) -> bool {
    a.len() <= b.len() && a.iter().zip(b.iter()).all(|(x, y)| x == y)
}
fn is_subsequence(a: &[Vec<u8>], b: &[Vec<u8>]) -> bool {
    let mut it = b.iter();
    a.iter().all(|x| it.any(|y| y == x))
}

struct Verdict {
    vio: Option<(String, String)>,
    nontrivial: bool,
    class: &'static str,
}

/// Truncation of the newest file at `cut`: replay must be Ok with exactly the records that
/// are still complete; after reopen + append the log must continue with a larger sequence.
fn judge_trunc(frames: &[Frame], newest: usize, cut: usize, res: &Value) -> Verdict {
    let surviving: Vec<&Frame> = frames.iter().filter(|f| f.file != newest || f.end <= cut).collect();
    let inside = frames.iter().any(|f| f.file == newest && cut > f.start && cut < f.end);
    let part = if frames.iter().any(|f| f.file == newest && cut > f.start && cut < f.start + 4) { "length_prefix" } else if inside { "record_body" } else { "record_boundary" };
    let nontrivial = inside;
    if let Some(e) = res.get("open_err") {
        return Verdict { vio: Some((format!("trunc:{part}:open_error"), format!("Wal::new failed: {e}"))), nontrivial, class: "open_error" };
    }
    let outs: Vec<Out> = res["replays"].as_array().unwrap().iter().map(Out::from_json).collect();
    for (k, got) in outs.iter().enumerate() {
        let want: Vec<Vec<u8>> = surviving.iter().filter(|f| f.seq >= k as u64).map(|f| f.ent.clone()).collect();
        match got {
            Out::Err(c) => {
                return Verdict { vio: Some((format!("trunc:{part}:replay_error:{}", c.split(':').next().unwrap_or("")), format!("replay({k}) returned {} instead of the complete-record prefix {}", got.show(), show_list(&want)))), nontrivial, class: "error" }
            }
            Out::Ok(l, ret) => {
                if *l != want {
                    return Verdict { vio: Some((format!("trunc:{part}:replay_mismatch"), format!("replay({k}) delivered {}, complete records with sequence >= {k}: {}", show_list(l), show_list(&want)))), nontrivial, class: "mismatch" };
                }
                if let Some(last) = surviving.iter().filter(|f| f.seq >= k as u64).last() {
                    if *ret != last.seq {
                        return Verdict { vio: Some((format!("trunc:{part}:return_value"), format!("replay({k}) returned last sequence {ret}, last delivered record has {}", last.seq))), nontrivial, class: "retval" };
                    }
                }
            }
        }
    }
    // restart after the crash
    if let Some(ext) = res.get("ext") {
        if let Some(e) = ext.get("err") {
            return Verdict { vio: Some((format!("trunc:{part}:restart_error"), format!("reopen/append/flush after the torn tail failed: {e}"))), nontrivial, class: "restart_error" };
        }
        let seq = ext["seq"].as_u64().unwrap();
        let maxs = surviving.iter().map(|f| f.seq).max().unwrap_or(0);
        if seq <= maxs {
            return Verdict { vio: Some((format!("trunc:{part}:restart_seq_not_increasing"), format!("after the restart append returned sequence {seq} although the log still holds a record with sequence {maxs}"))), nontrivial, class: "restart_seq" };
        }
        let x = norm(&mk_entry(0, 99));
        for (k, got) in ext["replays"].as_array().unwrap().iter().map(Out::from_json).enumerate() {
            let mut want: Vec<Vec<u8>> = surviving.iter().filter(|f| f.seq >= k as u64).map(|f| f.ent.clone()).collect();
            if seq >= k as u64 {
                want.push(x.clone());
            }
            match &got {
                Out::Err(c) => {
                    return Verdict { vio: Some((format!("trunc:{part}:restart_replay_error:{}", c.split(':').next().unwrap_or("")), format!("after restart + append, replay({k}) returned {} instead of {}", got.show(), show_list(&want)))), nontrivial, class: "restart_replay_error" }
                }
                Out::Ok(l, _) => {
                    if *l != want {
                        return Verdict { vio: Some((format!("trunc:{part}:restart_replay_mismatch"), format!("after restart + append, replay({k}) delivered {}, expected {}", show_list(l), show_list(&want)))), nontrivial, class: "restart_mismatch" };
                    }
                }
            }
        }
    }
    Verdict { vio: None, nontrivial, class: "prefix" }
}

/// One flipped bit: every replay(k) must be an error, or the original answer, or (length
/// prefix only) a prefix of the original answer.
fn judge_flip(frames: &[Frame], base: &[Out], file: usize, byte: usize, newest: usize, res: &Value) -> Verdict {
    let (field, ri) = field_of(frames, file, byte);
    let pos = if file == newest { "newest_file" } else { "older_file" };
    if let Some(e) = res.get("open_err") {
        return Verdict { vio: Some((format!("flip:{field}:open_error"), format!("Wal::new failed: {e}"))), nontrivial: true, class: "open_error" };
    }
    let all: HashSet<&Vec<u8>> = frames.iter().map(|f| &f.ent).collect();
    let outs: Vec<Out> = res["replays"].as_array().unwrap().iter().map(Out::from_json).collect();
    let mut worst: Option<(u8, String, String)> = None;
    let mut differs = false;
    let mut any_err = false;
    let mut any_prefix = false;
    for (k, (b, g)) in base.iter().zip(outs.iter()).enumerate() {
        let (bl, br) = match b {
            Out::Ok(l, r) => (l, r),
            Out::Err(_) => continue,
        };
        match g {
            Out::Err(_) => {
                differs = true;
                any_err = true;
            }
            Out::Ok(gl, gr) => {
                if gl == bl {
                    if gr != br && !gl.is_empty() {
                        differs = true;
                        let cand = (1u8, "return_value".to_string(), format!("replay({k}) delivered the original records but returned last sequence {gr} instead of {br}"));
                        if worst.as_ref().map(|w| w.0 < cand.0).unwrap_or(true) {
                            worst = Some(cand);
                        }
                    }
                    continue;
                }
                differs = true;
                if field == "len" && is_prefix(gl, bl) {
                    any_prefix = true;
                    continue; // indistinguishable from a torn tail
                }
                let cand = if gl.iter().any(|e| !all.contains(e)) {
                    (4u8, "altered_record".to_string(), format!("replay({k}) delivered {} — a record that was never appended; original {}", show_list(gl), show_list(bl)))
                } else if is_prefix(gl, bl) {
                    (2u8, "silent_truncation".to_string(), format!("replay({k}) silently stopped early: {}; original {}", show_list(gl), show_list(bl)))
                } else if is_subsequence(gl, bl) {
                    (3u8, "gap".to_string(), format!("replay({k}) skipped records and continued with later ones: {}; original {}", show_list(gl), show_list(bl)))
                } else {
                    (3u8, "wrong_selection".to_string(), format!("replay({k}) delivered {}; original {}", show_list(gl), show_list(bl)))
                };
                if worst.as_ref().map(|w| w.0 < cand.0).unwrap_or(true) {
                    worst = Some(cand);
                }
            }
        }
    }
    let class = if worst.is_some() {
        "violation"
    } else if any_err {
        "reported"
    } else if any_prefix {
        "torn_tail_equivalent"
    } else {
        "unchanged"
    };
    let vio = worst.map(|(_, sym, msg)| {
        let sig = if field == "seq" { "flip:seq:undetected".to_string() } else { format!("flip:{field}:{pos}:{sym}") };
        (sig, format!("bit flipped in the {field} field of record #{} ({pos}): {msg}", ri + 1))
    });
    Verdict { vio, nontrivial: differs, class }
}

fn collect_dirs(depth: usize) -> (Vec<DirSpec>, u64) {
    // every history of length <= depth on the real code; keep distinct on-disk results
    let m = M::plain();
    let ops = vec![Op::Append(0), Op::Append(1), Op::Append(2), Op::Flush, Op::Reopen, Op::Checkpoint];
    let hists: Vec<Vec<usize>> = svmc::engine::odometer::sequences_upto(ops.len(), depth).collect();
    let n_hist = hists.len() as u64;
    let specs: Vec<(String, DirSpec)> = hists
        .par_iter()
        .filter_map(|h| {
            let mut st = m.init();
            for &i in h {
                m.apply(&mut st, &ops[i], false);
            }
            st.wal = None; // close
            let files = list_files(&st.dir.0);
            if files.iter().all(|(_, b)| b.is_empty()) {
                return None;
            }
            let frames = parse_frames(&files)?;
            let key = format!("{:?}|{:?}", files.iter().map(|(n, b)| (n.clone(), b.len())).collect::<Vec<_>>(), frames.iter().map(|f| (f.file, f.seq, hex(&f.ent))).collect::<Vec<_>>());
            Some((key, DirSpec { files, history: h.iter().map(|&i| format!("{:?}", ops[i])).collect() }))
        })
        .collect();
    let mut seen = BTreeSet::new();
    let mut out = vec![];
    for (k, s) in specs {
        if seen.insert(k) {
            out.push(s);
        }
    }
    (out, n_hist)
}

/// Workers refuse any single allocation above 1 MiB (records are < 100 bytes, so such a
/// request can only come from a damaged length) and are additionally capped at 1 GiB of
/// address space.
const ALLOC_CAP: usize = 1 << 20;
fn subproc_opts(conc: usize, timeout_s: u64) -> subproc::Opts {
    subproc::Opts {
        concurrency: conc,
        timeout: std::time::Duration::from_secs(timeout_s),
        env: vec![("C15_ROOT".into(), root().to_string_lossy().to_string()), ("RUST_BACKTRACE".into(), "0".into())],
        rlimit_as: Some(1 << 30),
    }
}

fn fault_part(ctx: &Ctx, depth: usize) {
    let (dirs, n_hist) = collect_dirs(depth);
    println!("fault enumeration: {} histories of depth <= {depth} -> {} distinct directories", n_hist, dirs.len());
    struct Case {
        dir: usize,
        fault: Value,
        sub: bool,
    }
    let mut cases: Vec<Case> = vec![];
    let mut metas = vec![];
    for (di, d) in dirs.iter().enumerate() {
        let frames = parse_frames(&d.files).unwrap();
        let newest = d.files.len() - 1;
        let maxk = frames.iter().map(|f| f.seq).max().unwrap_or(0) + 1;
        // baseline on the undamaged directory
        let base_v = eval_dir(&d.files, maxk, false);
        let base: Vec<Out> = base_v["replays"].as_array().map(|a| a.iter().map(Out::from_json).collect()).unwrap_or_default();
        // the framing parser used for expectations must agree with the real replay on the undamaged log
        let ok = match base.first() {
            Some(Out::Ok(l, _)) => l.len() == frames.len() && l.iter().zip(frames.iter()).all(|(a, f)| *a == f.ent),
            _ => false,
        };
        if !ok {
            ctx.violation("baseline:undamaged_log_unreadable", format!("replay(0) of an undamaged directory: {}", base.first().map(|o| o.show()).unwrap_or_default()), json!({"mode": "fault", "files": files_json(&d.files), "fault": {"kind": "none", "file": 0}, "maxk": maxk, "history": d.history}));
            metas.push((frames, newest, maxk, base, false));
            continue;
        }
        for cut in 0..d.files[newest].1.len() {
            cases.push(Case { dir: di, fault: json!({"kind": "trunc", "file": newest, "cut": cut}), sub: false });
        }
        for (fi, (_, b)) in d.files.iter().enumerate() {
            for byte in 0..b.len() {
                let (field, _) = field_of(&frames, fi, byte);
                for bit in 0..8 {
                    cases.push(Case { dir: di, fault: json!({"kind": "flip", "file": fi, "byte": byte, "bit": bit}), sub: field == "len" });
                }
            }
        }
        metas.push((frames, newest, maxk, base, true));
    }
    let total = cases.len() as u64;
    let n_trunc = cases.iter().filter(|c| c.fault["kind"] == "trunc").count() as u64;
    let n_sub = cases.iter().filter(|c| c.sub).count();
    println!("fault cases: {} ({} truncations, {} bit flips; {} length-prefix flips run in capped worker processes)", total, n_trunc, total - n_trunc, n_sub);
    let case_json = |c: &Case| json!({"files": files_json(&dirs[c.dir].files), "fault": c.fault, "maxk": metas[c.dir].2, "extended": c.fault["kind"] == "trunc"});
    // in-process cases (no length field is damaged, so no attacker-sized allocation can be requested)
    let inproc: Vec<usize> = (0..cases.len()).filter(|&i| !cases[i].sub).collect();
    let mut results: Vec<Option<Result<Value, String>>> = (0..cases.len()).map(|_| None).collect();
    let t_in = std::time::Instant::now();
    let r1: Vec<(usize, Value)> = inproc
        .par_iter()
        .map(|&i| {
            let c = &cases[i];
            let files = apply_fault(&dirs[c.dir].files, &c.fault);
            (i, eval_dir(&files, metas[c.dir].2, c.fault["kind"] == "trunc"))
        })
        .collect();
    for (i, v) in r1 {
        results[i] = Some(Ok(v));
    }
    println!("in-process fault cases done ({} cases, {:.1}s)", inproc.len(), t_in.elapsed().as_secs_f64());
    let sub_idx: Vec<usize> = (0..cases.len()).filter(|&i| cases[i].sub).collect();
    let lines: Vec<String> = sub_idx.iter().map(|&i| case_json(&cases[i]).to_string()).collect();
    let mut outs = subproc::run_cases("fault", &lines, &subproc_opts(4, 60));
    // a timeout on a loaded machine is not a verdict: re-run such a case alone with a long limit
    for (j, o) in outs.iter_mut().enumerate() {
        if *o == Outcome::Timeout {
            *o = subproc::run_cases("fault", &lines[j..j + 1], &subproc_opts(1, 600)).remove(0);
        }
    }
    let mut died = 0u64;
    for (&i, o) in sub_idx.iter().zip(outs.into_iter()) {
        results[i] = Some(match o {
            Outcome::Done(s) => serde_json::from_str::<Value>(&s).map_err(|e| format!("bad worker answer: {e}")),
            Outcome::Died { signal, code, stderr_tail } => {
                died += 1;
                Err(format!("abort signal={signal:?} code={code:?} {stderr_tail}"))
            }
            Outcome::Timeout => Err("hang (no answer in 600 s, run alone)".into()),
        });
    }
    // judge
    let mut nontrivial = 0u64;
    let mut classes: BTreeMap<String, u64> = BTreeMap::new();
    for (i, c) in cases.iter().enumerate() {
        let (frames, newest, maxk, base, _) = &metas[c.dir];
        let witness = || json!({"mode": "fault", "files": files_json(&dirs[c.dir].files), "fault": c.fault, "maxk": maxk, "history": dirs[c.dir].history});
        let is_trunc = c.fault["kind"] == "trunc";
        match results[i].take().unwrap() {
            Err(e) => {
                nontrivial += 1;
                let (field, ri) = if is_trunc { ("trunc", 0) } else { field_of(frames, c.fault["file"].as_u64().unwrap() as usize, c.fault["byte"].as_u64().unwrap() as usize) };
                let sym = if e.starts_with("abort") {
                    "process_abort"
                } else if e.starts_with("hang") {
                    "hang"
                } else {
                    "machinery"
                };
                if sym == "machinery" {
                    ctx.machinery(&e);
                }
                *classes.entry(format!("{}:{sym}", c.fault["kind"].as_str().unwrap())).or_default() += 1;
                ctx.violation(&format!("flip:{field}:{sym}"), format!("replay of a log (records < 100 bytes) with one bit flipped in the {field} field of record #{} killed the process; single allocations are capped at 1 MiB in the worker: {e}", ri + 1), witness());
            }
            Ok(v) => {
                let verdict = if is_trunc {
                    judge_trunc(frames, *newest, c.fault["cut"].as_u64().unwrap() as usize, &v)
                } else {
                    judge_flip(frames, base, c.fault["file"].as_u64().unwrap() as usize, c.fault["byte"].as_u64().unwrap() as usize, *newest, &v)
                };
                if verdict.nontrivial {
                    nontrivial += 1;
                }
                *classes.entry(format!("{}:{}", c.fault["kind"].as_str().unwrap(), verdict.class)).or_default() += 1;
                if let Some((sig, msg)) = verdict.vio {
                    ctx.violation(&sig, msg, witness());
                }
            }
        }
    }
    ctx.cov("evaluations", total);
    ctx.cov("generator_cardinality", total);
    ctx.cov("fault_exhaustive", true);
    ctx.cov("distinct_nontrivial", nontrivial);
    ctx.cov("rule", "a fault case (one truncation offset, or one flipped bit, of one distinct directory) is non-trivial if the truncation cuts inside a record, or if any replay(k) outcome of the flipped directory differs from the undamaged directory's");
    ctx.cov("fault_histories", n_hist);
    ctx.cov("fault_distinct_directories", dirs.len() as u64);
    ctx.cov("fault_truncations", n_trunc);
    ctx.cov("fault_bit_flips", total - n_trunc);
    ctx.cov("fault_cases_in_capped_workers", n_sub as u64);
    ctx.cov("fault_worker_deaths", died);
    ctx.cov("fault_outcome_classes", json!(classes));
    if let Some(d) = dirs.iter().find(|d| d.files.len() >= 2) {
        ctx.sample(json!({"fault_directory": d.history, "files": d.files.iter().map(|(n, b)| json!([n, b.len()])).collect::<Vec<_>>()}));
    }
    println!("fault outcome classes: {}", json!(classes));
}

fn main() {
    if subproc::worker_arg().is_some() {
        svmc::engine::alloc::set_cap(ALLOC_CAP);
        subproc::worker_main(|line| worker_case(line));
    }
    run_check("C15", Level::ModelChecking, |ctx| {
        if let Some(p) = ctx.replay.clone() {
            replay(ctx, &p);
            let _ = std::fs::remove_dir_all(root());
            return;
        }
        let (depth, fdepth) = match ctx.tier {
            svmc::Tier::Quick => (5, 2),
            svmc::Tier::Thorough => (7, 3),
        };
        let m = M::plain();
        let t0 = std::time::Instant::now();
        let stats = hx::explore(&m, depth, 50_000_000, |v| {
            ctx.violation(&v.sig, v.msg, json!({"mode": "hx", "history": v.history.iter().map(|o| format!("{:?}", o)).collect::<Vec<_>>()}));
        });
        hx::report(ctx, &stats, "append{CreateNode,DeleteEdge,UpdateNodeProperties} flush close+reopen checkpoint(current_sequence)");
        println!("hx: {} states, {} transitions, depth {} in {:.1}s", stats.states, stats.transitions, stats.max_depth, t0.elapsed().as_secs_f64());
        if ctx.tier == svmc::Tier::Thorough {
            // determinism: a second exploration must report identical counts
            let s2 = hx::explore(&m, depth.min(6), 50_000_000, |_| {});
            let s1 = hx::explore(&m, depth.min(6), 50_000_000, |_| {});
            if s1.states != s2.states || s1.transitions != s2.transitions {
                ctx.machinery("two explorations of the same space reported different counts");
            }
            ctx.cov("determinism_rerun_identical", true);
        }
        // late starts: the same exploration from histories that already hold many records, so that
        // segment files named after sequence numbers of different magnitude (0xf -> 0x10, 0xff -> 0x100)
        // coexist; the order in which replay visits the segments is then decided by those names
        let late_depth = if ctx.tier == svmc::Tier::Thorough { 4 } else { 3 };
        let mut late_states = 0u64;
        let mut late_trans = 0u64;
        let mut late_starts = vec![];
        for total in [14usize, 254] {
            let mut pre = vec![Op::Append(0), Op::Checkpoint];
            for i in 0..total - 2 {
                pre.push(Op::Append((i % 3) as u8));
            }
            let d = if total > 100 { late_depth - 1 } else { late_depth };
            let ml = M { pre: pre.clone() };
            let st = hx::explore(&ml, d, 50_000_000, |v| {
                let mut h: Vec<String> = pre.iter().map(|o| format!("{:?}", o)).collect();
                h.extend(v.history.iter().map(|o| format!("{:?}", o)));
                ctx.violation(&format!("{}:late_start", v.sig), v.msg, json!({"mode": "hx", "history": h}));
            });
            if st.cap_hit {
                ctx.machinery("late-start exploration hit its state cap");
            }
            late_states += st.states;
            late_trans += st.transitions;
            late_starts.push(json!({"records_before": total, "segments_before": 2, "depth": d, "states": st.states, "transitions": st.transitions}));
        }
        ctx.cov("late_start_explorations", json!(late_starts));
        ctx.cov("late_start_states", late_states);
        ctx.cov("late_start_transitions", late_trans);
        println!("late starts: {} states, {} transitions", late_states, late_trans);
        let t1 = std::time::Instant::now();
        fault_part(ctx, fdepth);
        println!("fault part: {:.1}s", t1.elapsed().as_secs_f64());
        ctx.cov("fault_history_depth", fdepth as u64);
        ctx.assume("records still in the write buffer (appended, not yet flushed, log still open) may or may not be visible to replay; flushed/closed records must be");
        ctx.assume("exact sequence values are not prescribed: append results must strictly increase and replay(k) must select by the values append returned; the checkpoint record's sequence is read from current_sequence()");
        ctx.assume("replay's return value is judged only when at least one record was delivered (it must be that record's sequence)");
        ctx.assume("Checkpoint entries are compared with the wall-clock timestamp zeroed");
        ctx.assume("a flipped length prefix may legitimately look like a torn tail: a prefix of the original records is accepted for that field only");
        ctx.assume("bit flips outside length prefixes are replayed in-process (no length is damaged, bincode bounds its own reads); length-prefix flips run in worker processes with a 1 MiB cap on any single allocation (RLIMIT_AS 1 GiB)");
        let _ = std::fs::remove_dir_all(root());
    });
}

fn replay(ctx: &Ctx, p: &Path) {
    let doc: Value = serde_json::from_str(&std::fs::read_to_string(p).expect("read replay")).expect("json");
    let w = &doc["witness"];
    if w["mode"] == "hx" {
        let m = M::plain();
        let hist: Vec<String> = w["history"].as_array().unwrap().iter().map(|s| s.as_str().unwrap().to_string()).collect();
        let mut st = m.init();
        for (i, want) in hist.iter().enumerate() {
            let ops = m.ops(&st);
            let op = ops.iter().find(|o| &format!("{:?}", o) == want).unwrap_or_else(|| ctx.machinery(&format!("replay: unknown op {want}")));
            let step = m.apply(&mut st, op, true);
            println!("step {i}: {want} -> {} ; model records: {:?}", step.outcome, st.recs.iter().map(|r| format!("{}@{}", show(&r.ent), r.seq)).collect::<Vec<_>>());
            for (sig, msg) in step.violations {
                println!("  MISMATCH [{sig}] {msg}");
                ctx.violation(&sig, msg, json!({"mode": "hx", "history": hist[..=i]}));
            }
        }
    } else {
        let files = files_from_json(&w["files"]);
        let frames = parse_frames(&files).unwrap_or_else(|| ctx.machinery("replay: witness directory does not parse"));
        let newest = files.len() - 1;
        let maxk = w["maxk"].as_u64().unwrap();
        let base_v = eval_dir(&files, maxk, false);
        let base: Vec<Out> = base_v["replays"].as_array().unwrap().iter().map(Out::from_json).collect();
        println!("history that produced the directory: {}", w["history"]);
        println!("undamaged: {}", base.iter().enumerate().map(|(k, o)| format!("replay({k}) = {}", o.show())).collect::<Vec<_>>().join("\n           "));
        println!("fault: {}", w["fault"]);
        let is_trunc = w["fault"]["kind"] == "trunc";
        let line = json!({"files": w["files"], "fault": w["fault"], "maxk": maxk, "extended": is_trunc}).to_string();
        let out = subproc::run_cases("fault", &[line], &subproc_opts(1, 600)).remove(0);
        match out {
            Outcome::Done(s) => {
                let v: Value = serde_json::from_str(&s).unwrap();
                if let Some(a) = v["replays"].as_array() {
                    println!("damaged:   {}", a.iter().map(Out::from_json).enumerate().map(|(k, o)| format!("replay({k}) = {}", o.show())).collect::<Vec<_>>().join("\n           "));
                }
                if let Some(e) = v.get("ext") {
                    println!("restart:   {}", e);
                }
                let verdict = if is_trunc {
                    judge_trunc(&frames, newest, w["fault"]["cut"].as_u64().unwrap() as usize, &v)
                } else if w["fault"]["kind"] == "flip" {
                    judge_flip(&frames, &base, w["fault"]["file"].as_u64().unwrap() as usize, w["fault"]["byte"].as_u64().unwrap() as usize, newest, &v)
                } else {
                    Verdict { vio: None, nontrivial: false, class: "none" }
                };
                match verdict.vio {
                    Some((sig, msg)) => {
                        println!("  MISMATCH [{sig}] {msg}");
                        ctx.violation(&sig, msg, w.clone());
                    }
                    None => println!("  admissible ({})", verdict.class),
                }
            }
            Outcome::Died { signal, code, stderr_tail } => {
                let (field, _) = field_of(&frames, w["fault"]["file"].as_u64().unwrap_or(0) as usize, w["fault"]["byte"].as_u64().unwrap_or(0) as usize);
                println!("  worker died: signal={signal:?} code={code:?} {stderr_tail}");
                ctx.violation(&format!("flip:{field}:process_abort"), format!("replay killed the process: {stderr_tail}"), w.clone());
            }
            Outcome::Timeout => ctx.violation("flip:hang", "replay did not return in 60 s", w.clone()),
        }
    }
}
