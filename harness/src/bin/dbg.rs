//! dev helper (not a check):
//!   dbg ast '<cypher>'            prints the parsed AST
//!   dbg run '<stmt>' '<stmt>' ... runs the statements in order on a fresh store, prints rows / errors
use samyama::graph::GraphStore;
use samyama::query::executor::MutQueryExecutor;
fn main() {
    let args: Vec<String> = std::env::args().collect();
    match args.get(1).map(|s| s.as_str()) {
        Some("ast") => match samyama::query::parse_query(&args[2]) {
            Ok(ast) => println!("{:#?}", ast),
            Err(e) => println!("ERR {e}"),
        },
        Some("run") => {
            let mut store = GraphStore::new();
            for q in &args[2..] {
                match samyama::query::parse_query(q) {
                    Err(e) => println!("{q}\n  PARSE ERR {e}"),
                    Ok(ast) => match MutQueryExecutor::new(&mut store, "default".into()).execute(&ast) {
                        Ok(b) => println!("{q}\n  cols={:?} rows={:?}", b.columns, svmc::model::values::rows_of(&b)),
                        Err(e) => println!("{q}\n  ERR {e}"),
                    },
                }
            }
            println!("graph: {}", svmc::model::graph::dump(&store).describe());
        }
        _ => println!("usage: dbg ast|run ..."),
    }
}
