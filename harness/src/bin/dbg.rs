//! dev helper: dbg '<cypher>' — prints the parsed AST (not a check)
fn main() {
    let q = std::env::args().nth(1).unwrap();
    match samyama::query::parse_query(&q) {
        Ok(ast) => println!("{:#?}", ast),
        Err(e) => println!("ERR {e}"),
    }
}
