//! Brute-force reference definitions for C26 on graphs with at most 4 nodes.
//! Nothing here is an "algorithm": closures, enumeration of all simple paths,
//! all s-t cuts, all edge subsets of spanning-tree size, set definitions.

pub const MAXN: usize = 4;

/// A directed multigraph over nodes 0..n; `edges` is a multiset (order irrelevant here).
/// Weights are the *projected* weights (1 when the projection has no weight).
#[derive(Clone, Debug)]
pub struct G {
    pub n: usize,
    pub edges: Vec<(usize, usize, u32)>,
}

#[derive(Clone, Debug)]
pub struct Ref {
    pub n: usize,
    pub cnt: [[u32; MAXN]; MAXN],
    /// min weight of a u->v edge, 0 = no such edge
    pub minw: [[u32; MAXN]; MAXN],
    pub cap: [[u64; MAXN]; MAXN],
    /// the edge multiset itself
    pub wset: Vec<(usize, usize, u32)>,
    /// weak / strong component representative (smallest index in the component)
    pub wcc: Vec<usize>,
    pub scc: Vec<usize>,
    /// min number of hops over all simple paths, -1 = unreachable
    pub hops: [[i64; MAXN]; MAXN],
    /// min weight over all simple paths, -1 = unreachable
    pub dist: [[i64; MAXN]; MAXN],
    /// all simple paths with the minimum number of hops, as node sequences (deduplicated)
    pub sp: Vec<Vec<Vec<Vec<usize>>>>,
    /// min s-t cut capacity (s != t)
    pub flow: [[u64; MAXN]; MAXN],
    /// per start node: (sorted nodes of its undirected component, min spanning tree weight)
    pub mst: Vec<(Vec<usize>, u64)>,
    /// per start node: does the component contain two parallel edges (same source, same
    /// target, distinct nodes) with different weights (region of the Prim defect)
    pub mst_parallel: Vec<bool>,
    pub tri: usize,
    pub lcc_u: Vec<f64>,
    pub lcc_d: Vec<f64>,
}

impl Ref {
    pub fn new(g: &G) -> Ref {
        let n = g.n;
        assert!(n <= MAXN);
        let mut cnt = [[0u32; MAXN]; MAXN];
        let mut minw = [[0u32; MAXN]; MAXN];
        let mut cap = [[0u64; MAXN]; MAXN];
        for &(u, v, w) in &g.edges {
            cnt[u][v] += 1;
            if minw[u][v] == 0 || w < minw[u][v] {
                minw[u][v] = w;
            }
            cap[u][v] += w as u64;
        }
        // reachability closures
        let mut reach = [[false; MAXN]; MAXN];
        let mut ureach = [[false; MAXN]; MAXN];
        for i in 0..n {
            reach[i][i] = true;
            ureach[i][i] = true;
            for j in 0..n {
                if cnt[i][j] > 0 {
                    reach[i][j] = true;
                    ureach[i][j] = true;
                    ureach[j][i] = true;
                }
            }
        }
        for k in 0..n {
            for i in 0..n {
                for j in 0..n {
                    if reach[i][k] && reach[k][j] {
                        reach[i][j] = true;
                    }
                    if ureach[i][k] && ureach[k][j] {
                        ureach[i][j] = true;
                    }
                }
            }
        }
        let wcc: Vec<usize> = (0..n).map(|i| (0..n).find(|&j| ureach[i][j]).unwrap()).collect();
        let scc: Vec<usize> = (0..n).map(|i| (0..n).find(|&j| reach[i][j] && reach[j][i]).unwrap()).collect();

        // all simple paths
        let mut hops = [[-1i64; MAXN]; MAXN];
        let mut dist = [[-1i64; MAXN]; MAXN];
        let mut all: Vec<Vec<Vec<Vec<usize>>>> = vec![vec![vec![]; n]; n];
        fn dfs(
            n: usize,
            minw: &[[u32; MAXN]; MAXN],
            s: usize,
            path: &mut Vec<usize>,
            used: u32,
            w: i64,
            hops: &mut [[i64; MAXN]; MAXN],
            dist: &mut [[i64; MAXN]; MAXN],
            all: &mut Vec<Vec<Vec<Vec<usize>>>>,
        ) {
            let x = *path.last().unwrap();
            let h = path.len() as i64 - 1;
            if hops[s][x] < 0 || h < hops[s][x] {
                hops[s][x] = h;
            }
            if dist[s][x] < 0 || w < dist[s][x] {
                dist[s][x] = w;
            }
            all[s][x].push(path.clone());
            for y in 0..n {
                if used & (1 << y) == 0 && minw[x][y] > 0 {
                    path.push(y);
                    dfs(n, minw, s, path, used | (1 << y), w + minw[x][y] as i64, hops, dist, all);
                    path.pop();
                }
            }
        }
        for s in 0..n {
            let mut p = vec![s];
            dfs(n, &minw, s, &mut p, 1 << s, 0, &mut hops, &mut dist, &mut all);
        }
        let mut sp = vec![vec![vec![]; n]; n];
        for s in 0..n {
            for t in 0..n {
                let mut v: Vec<Vec<usize>> = all[s][t].iter().filter(|p| p.len() as i64 - 1 == hops[s][t]).cloned().collect();
                v.sort();
                v.dedup();
                sp[s][t] = v;
            }
        }

        // min cut
        let mut flow = [[0u64; MAXN]; MAXN];
        for s in 0..n {
            for t in 0..n {
                if s == t {
                    continue;
                }
                let mut best = u64::MAX;
                for mask in 0u32..(1 << n) {
                    if mask & (1 << s) == 0 || mask & (1 << t) != 0 {
                        continue;
                    }
                    let mut c = 0u64;
                    for u in 0..n {
                        for v in 0..n {
                            if mask & (1 << u) != 0 && mask & (1 << v) == 0 {
                                c += cap[u][v];
                            }
                        }
                    }
                    best = best.min(c);
                }
                flow[s][t] = best;
            }
        }

        // MST per start component: min over all edge subsets of size |comp|-1 that connect it
        let mut mst = vec![];
        let mut mst_parallel = vec![];
        for st in 0..n {
            let comp: Vec<usize> = (0..n).filter(|&j| ureach[st][j]).collect();
            let es: Vec<(usize, usize, u32)> = g.edges.iter().cloned().filter(|&(u, v, _)| u != v && ureach[st][u] && ureach[st][v]).collect();
            let k = comp.len();
            let mut best: Option<u64> = None;
            for mask in 0u32..(1u32 << es.len()) {
                if mask.count_ones() as usize != k - 1 {
                    continue;
                }
                // connectivity of comp under chosen edges
                let mut c: Vec<usize> = (0..n).collect();
                let mut tot = 0u64;
                for (i, &(u, v, w)) in es.iter().enumerate() {
                    if mask & (1 << i) != 0 {
                        tot += w as u64;
                        let (a, b) = (c[u], c[v]);
                        if a != b {
                            for x in c.iter_mut() {
                                if *x == b {
                                    *x = a;
                                }
                            }
                        }
                    }
                }
                if comp.iter().all(|&x| c[x] == c[comp[0]]) {
                    best = Some(best.map_or(tot, |b| b.min(tot)));
                }
            }
            let mut par = false;
            for (i, a) in es.iter().enumerate() {
                for b in es.iter().skip(i + 1) {
                    let same = a.0 == b.0 && a.1 == b.1;
                    if same && a.2 != b.2 {
                        par = true;
                    }
                }
            }
            mst.push((comp, best.expect("a connected component has a spanning tree")));
            mst_parallel.push(par);
        }

        // triangles / LCC from set definitions on the simple graphs
        let und = |i: usize, j: usize| i != j && (cnt[i][j] > 0 || cnt[j][i] > 0);
        let a = |i: usize, j: usize| -> u64 { (i != j && cnt[i][j] > 0) as u64 };
        let mut tri = 0;
        for i in 0..n {
            for j in i + 1..n {
                for k in j + 1..n {
                    if und(i, j) && und(j, k) && und(i, k) {
                        tri += 1;
                    }
                }
            }
        }
        let mut lcc_u = vec![0.0; n];
        let mut lcc_d = vec![0.0; n];
        for i in 0..n {
            let nb: Vec<usize> = (0..n).filter(|&j| und(i, j)).collect();
            let d = nb.len();
            if d >= 2 {
                let mut e = 0usize;
                for x in 0..d {
                    for y in x + 1..d {
                        if und(nb[x], nb[y]) {
                            e += 1;
                        }
                    }
                }
                lcc_u[i] = e as f64 / ((d * (d - 1)) as f64 / 2.0);
            }
            // Fagiolo (2007): T_i = ((A+A^T)^3)_ii ; C_i = T_i / (2 (d_tot (d_tot-1) - 2 d_bi))
            let mut t = 0u64;
            for j in 0..n {
                for k in 0..n {
                    if j == i || k == i || j == k {
                        continue;
                    }
                    t += (a(i, j) + a(j, i)) * (a(j, k) + a(k, j)) * (a(k, i) + a(i, k));
                }
            }
            let d_tot: u64 = (0..n).map(|j| a(i, j) + a(j, i)).sum();
            let d_bi: u64 = (0..n).map(|j| a(i, j) * a(j, i)).sum();
            let den = 2 * (d_tot * d_tot.saturating_sub(1)) as i64 - 4 * d_bi as i64;
            if t > 0 && den > 0 {
                lcc_d[i] = t as f64 / den as f64;
            }
        }

        Ref { n, cnt, minw, cap, wset: g.edges.clone(), wcc, scc, hops, dist, sp, flow, mst, mst_parallel, tri, lcc_u, lcc_d }
    }
}
