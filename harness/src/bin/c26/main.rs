//! C26 — graph algorithms match their reference definitions (DESIGN §C26).
//!
//! Layer "crate": every directed multigraph with n <= 4 nodes and an edge multiset of
//! size <= 4 (quick) / <= 5 (thorough) over ordered pairs x weights {1,2,5}, in EVERY
//! distinct edge listing order (per-source out-list permutations; in-lists derived the way
//! `build_view` derives them), as a `GraphView`, through every public algorithm of
//! `samyama_graph_algorithms` named by the property, against brute-force references.
//! Layer "call": labelled/typed/weighted versions of small multigraphs loaded into a
//! `GraphStore`, every `CALL algo.*` procedure for every projection it can express,
//! against the reference on the projected graph.
//! All cases run in watchdogged worker processes (a non-terminating call is an outcome).
mod checks;
mod reference;

use checks::Vio;
use reference::{Ref, G};
use samyama::graph::{GraphStore, NodeId, PropertyMap, PropertyValue};
use samyama::query::executor::{QueryExecutor, Record};
use samyama::query::parse_query;
use samyama_graph_algorithms as sga;
use samyama_graph_algorithms::GraphView;
use serde_json::{json, Value as J};
use std::collections::{BTreeMap, HashMap};
use std::time::Duration;
use svmc::engine::ctx::guarded;
use svmc::engine::subproc::{self, Outcome};
use svmc::{run_check, Ctx, Level};

const WS: [u32; 3] = [1, 2, 5];
/// node ids of the crate layer: deliberately not in index order
const IDS1: [u64; 4] = [7, 3, 9, 5];
const LABELS: [&str; 2] = ["A", "B"];
const TYPES: [&str; 2] = ["R", "S"];

// ---------------------------------------------------------------- enumeration helpers

fn multisets_with_prefix(kinds: usize, m: usize, prefix: &[usize], f: &mut dyn FnMut(&[usize])) {
    fn rec(kinds: usize, m: usize, cur: &mut Vec<usize>, f: &mut dyn FnMut(&[usize])) {
        if cur.len() == m {
            f(cur);
            return;
        }
        let start = cur.last().cloned().unwrap_or(0);
        for k in start..kinds {
            cur.push(k);
            rec(kinds, m, cur, f);
            cur.pop();
        }
    }
    let mut cur = prefix.to_vec();
    rec(kinds, m, &mut cur, f);
}

fn prefixes(kinds: usize, plen: usize) -> Vec<Vec<usize>> {
    let mut out = vec![];
    multisets_with_prefix(kinds, plen, &[], &mut |p| out.push(p.to_vec()));
    out
}

fn binom(n: u128, k: u128) -> u128 {
    if k > n {
        return 0;
    }
    let mut r = 1u128;
    for i in 0..k {
        r = r * (n - i) / (i + 1);
    }
    r
}

fn next_permutation<T: Ord>(v: &mut [T]) -> bool {
    if v.len() < 2 {
        return false;
    }
    let mut i = v.len() - 1;
    while i > 0 && v[i - 1] >= v[i] {
        i -= 1;
    }
    if i == 0 {
        v.reverse();
        return false;
    }
    let mut j = v.len() - 1;
    while v[j] <= v[i - 1] {
        j -= 1;
    }
    v.swap(i - 1, j);
    v[i..].reverse();
    true
}

fn distinct_perms<T: Ord + Clone>(v: &[T]) -> Vec<Vec<T>> {
    let mut cur = v.to_vec();
    cur.sort();
    let mut out = vec![cur.clone()];
    while next_permutation(&mut cur) {
        out.push(cur.clone());
    }
    out
}

// ---------------------------------------------------------------- crate layer

fn kind1(n: usize, k: usize) -> (usize, usize, u32) {
    (k / (3 * n), (k / 3) % n, WS[k % 3])
}

fn make_view(n: usize, ids: &[u64], out: &[Vec<(usize, u32)>], weighted: bool) -> GraphView {
    let mut node_to_index = HashMap::new();
    for (i, &id) in ids.iter().enumerate().take(n) {
        node_to_index.insert(id, i);
    }
    let mut outgoing = vec![vec![]; n];
    let mut incoming = vec![vec![]; n];
    let mut weights = vec![vec![]; n];
    for u in 0..n {
        for &(v, w) in &out[u] {
            outgoing[u].push(v);
            incoming[v].push(u);
            weights[u].push(w as f64);
        }
    }
    GraphView::from_adjacency_list(n, ids[..n].to_vec(), node_to_index, outgoing, incoming, if weighted { Some(weights) } else { None })
}

#[derive(Default)]
struct Stats {
    cases: u64,
    nontrivial: u64,
    calls: u64,
    multisets: u64,
    vio: BTreeMap<String, (u64, String, J)>,
    sample: Option<J>,
}
impl Stats {
    fn add(&mut self, v: Vio, witness: &dyn Fn() -> J) {
        for (sig, msg) in v {
            match self.vio.get_mut(&sig) {
                Some(e) => e.0 += 1,
                None => {
                    self.vio.insert(sig, (1, msg, witness()));
                }
            }
        }
    }
    fn to_json(&self) -> String {
        let vio: Vec<J> = self.vio.iter().map(|(s, (c, m, w))| json!([s, c, m, w])).collect();
        json!({"cases": self.cases, "nontrivial": self.nontrivial, "calls": self.calls, "multisets": self.multisets, "vio": vio, "sample": self.sample}).to_string()
    }
}

/// Run every crate-layer algorithm on one view and compare with the reference.
fn check_view(r: &Ref, view: &GraphView, ids: &[u64], weighted: bool, vio: &mut Vio) -> u64 {
    let n = r.n;
    let tag = "crate:";
    let mut calls = 0u64;
    macro_rules! subject {
        ($name:expr, $e:expr) => {{
            calls += 1;
            match guarded(|| $e) {
                Ok(v) => Some(v),
                Err(p) => {
                    vio.push((format!("{tag}{}:panic", $name), format!("{} panicked: {}", $name, p)));
                    None
                }
            }
        }};
    }
    if let Some(w) = subject!("weakly_connected_components", sga::weakly_connected_components(view)) {
        checks::partition(tag, "weakly_connected_components", r, ids, &r.wcc, &w.node_component, Some(&w.components), vio);
    }
    if let Some(s) = subject!("strongly_connected_components", sga::strongly_connected_components(view)) {
        checks::partition(tag, "strongly_connected_components", r, ids, &r.scc, &s.node_component, Some(&s.components), vio);
    }
    for s in 0..n {
        for t in 0..n {
            if let Some(o) = subject!("bfs", sga::bfs(view, ids[s], ids[t])) {
                checks::path(tag, "bfs", r, ids, s, t, false, o.map(|p| (p.path, p.cost)), vio);
            }
            if let Some(o) = subject!("dijkstra", sga::dijkstra(view, ids[s], ids[t])) {
                checks::path(tag, "dijkstra", r, ids, s, t, weighted, o.map(|p| (p.path, p.cost)), vio);
            }
            if let Some(o) = subject!("bfs_all_shortest_paths", sga::bfs_all_shortest_paths(view, ids[s], ids[t])) {
                let o: Vec<(Vec<u64>, f64)> = o.into_iter().map(|p| (p.path, p.cost)).collect();
                checks::all_paths(tag, r, ids, s, t, &o, vio);
            }
            if s != t {
                if let Some(o) = subject!("edmonds_karp", sga::edmonds_karp(view, ids[s], ids[t])) {
                    checks::flow(tag, "edmonds_karp", r, ids, s, t, o.map(|f| f.max_flow), vio);
                }
            }
        }
    }
    if let Some(m) = subject!("prim_mst", sga::prim_mst(view)) {
        checks::mst(tag, "prim_mst", r, ids, if n > 0 { Some(0) } else { None }, m.total_weight, &m.edges, vio);
    }
    if let Some(c) = subject!("count_triangles", sga::count_triangles(view)) {
        checks::triangles(tag, "count_triangles", r, c as i64, vio);
    }
    if let Some(l) = subject!("local_clustering_coefficient", sga::local_clustering_coefficient(view)) {
        checks::lcc(tag, "local_clustering_coefficient", r, ids, false, &l.coefficients, Some(l.average), vio);
    }
    if let Some(l) = subject!("local_clustering_coefficient_directed", sga::local_clustering_coefficient_directed(view, true)) {
        checks::lcc(tag, "local_clustering_coefficient_directed", r, ids, true, &l.coefficients, Some(l.average), vio);
    }
    calls
}

fn witness1(n: usize, out: &[Vec<(usize, u32)>], weighted: bool) -> J {
    json!({"layer": "crate", "n": n, "ids": IDS1[..n], "weighted": weighted,
           "out": out.iter().map(|l| l.iter().map(|&(v, w)| json!([v, w])).collect::<Vec<_>>()).collect::<Vec<_>>()})
}

/// One multiset of the crate layer: all distinct listings, weighted (and unweighted when all weights are 1).
fn run_multiset1(n: usize, ms: &[usize], st: &mut Stats) {
    let edges: Vec<(usize, usize, u32)> = ms.iter().map(|&k| kind1(n, k)).collect();
    let r = Ref::new(&G { n, edges: edges.clone() });
    let all_unit = edges.iter().all(|e| e.2 == 1);
    let nontrivial = edges.iter().any(|e| e.0 != e.1);
    st.multisets += 1;
    let mut by_src: Vec<Vec<(usize, u32)>> = vec![vec![]; n];
    for &(u, v, w) in &edges {
        by_src[u].push((v, w));
    }
    let perms: Vec<Vec<Vec<(usize, u32)>>> = by_src.iter().map(|l| distinct_perms(l)).collect();
    let radices: Vec<usize> = perms.iter().map(|p| p.len()).collect();
    let total: usize = radices.iter().product::<usize>().max(1);
    for mut i in 0..total {
        let mut out: Vec<Vec<(usize, u32)>> = Vec::with_capacity(n);
        for u in (0..n).rev() {
            let k = i % radices[u];
            i /= radices[u];
            out.push(perms[u][k].clone());
        }
        out.reverse();
        for weighted in [true, false] {
            if !weighted && !all_unit {
                continue;
            }
            let view = make_view(n, &IDS1, &out, weighted);
            let mut vio = vec![];
            st.calls += check_view(&r, &view, &IDS1[..n], weighted, &mut vio);
            st.cases += 1;
            if nontrivial {
                st.nontrivial += 1;
            }
            if st.sample.is_none() && edges.len() >= 3 && nontrivial {
                st.sample = Some(witness1(n, &out, weighted));
            }
            if !vio.is_empty() {
                st.add(vio, &|| witness1(n, &out, weighted));
            }
        }
    }
}

// ---------------------------------------------------------------- call layer

/// (u, v, weight, type index)
type E2 = (usize, usize, u32, usize);

fn kind2(n: usize, k: usize) -> E2 {
    (k / (6 * n), (k / 6) % n, WS[(k / 2) % 3], k % 2)
}

fn witness2(n: usize, labels: u32, listing: &[E2]) -> J {
    json!({"layer": "call", "n": n,
           "labels": (0..n).map(|i| LABELS[((labels >> i) & 1) as usize]).collect::<Vec<_>>(),
           "edges": listing.iter().map(|&(u, v, w, t)| json!([u, v, w, TYPES[t]])).collect::<Vec<_>>()})
}

fn build_store(n: usize, labels: u32, listing: &[E2]) -> Result<(GraphStore, Vec<u64>), String> {
    let mut g = GraphStore::new();
    let mut ids = vec![];
    for i in 0..n {
        ids.push(g.create_node(LABELS[((labels >> i) & 1) as usize]).as_u64());
    }
    for &(u, v, w, t) in listing {
        let mut pm = PropertyMap::new();
        pm.insert("w".into(), PropertyValue::Integer(w as i64));
        g.create_edge_with_properties(NodeId::new(ids[u]), NodeId::new(ids[v]), TYPES[t], pm).map_err(|e| e.to_string())?;
    }
    Ok((g, ids))
}

thread_local! {
    /// statement text -> its parse (exact text; parsing is deterministic; this is NOT the engine's AST cache)
    static PARSED: std::cell::RefCell<HashMap<String, samyama::query::Query>> = std::cell::RefCell::new(HashMap::new());
}

fn call(store: &GraphStore, q: &str) -> Result<Vec<Record>, String> {
    match guarded(|| -> Result<Vec<Record>, String> {
        let query = match PARSED.with(|c| c.borrow().get(q).cloned()) {
            Some(x) => x,
            None => {
                let x = parse_query(q).map_err(|e| format!("parse error: {e}"))?;
                PARSED.with(|c| c.borrow_mut().insert(q.to_string(), x.clone()));
                x
            }
        };
        QueryExecutor::new(store).execute(&query).map(|b| b.records).map_err(|e| format!("execution error: {e}"))
    }) {
        Ok(r) => r,
        Err(p) => Err(format!("panic: {p}")),
    }
}

/// Projected reference graph: node subset (original indices), ids, Ref, and a GraphView of it.
struct Proj {
    ids: Vec<u64>,
    r: Ref,
    g: G,
}

fn project(n: usize, ids: &[u64], labels: u32, edges: &[E2], lab: Option<usize>, ty: Option<usize>, weighted: bool) -> Proj {
    let keep: Vec<usize> = (0..n).filter(|&i| lab.map_or(true, |l| ((labels >> i) & 1) as usize == l)).collect();
    let pos = |i: usize| keep.iter().position(|&x| x == i);
    let mut es = vec![];
    for &(u, v, w, t) in edges {
        if ty.map_or(true, |x| x == t) {
            if let (Some(a), Some(b)) = (pos(u), pos(v)) {
                es.push((a, b, if weighted { w } else { 1 }));
            }
        }
    }
    let g = G { n: keep.len(), edges: es };
    Proj { ids: keep.iter().map(|&i| ids[i]).collect(), r: Ref::new(&g), g }
}

fn proj_view(p: &Proj) -> GraphView {
    let mut out: Vec<Vec<(usize, u32)>> = vec![vec![]; p.g.n];
    for &(u, v, w) in &p.g.edges {
        out[u].push((v, w));
    }
    make_view(p.g.n, &p.ids, &out, false)
}

fn f64_of(rec: &Record, col: &str) -> Option<f64> {
    rec.get(col).and_then(|v| v.as_property()).and_then(|p| p.as_float())
}
fn i64_of(rec: &Record, col: &str) -> Option<i64> {
    rec.get(col).and_then(|v| v.as_property()).and_then(|p| p.as_integer())
}
fn node_of(rec: &Record, col: &str) -> Option<u64> {
    rec.get(col).and_then(|v| v.node_id()).map(|n| n.as_u64())
}
fn path_of(rec: &Record) -> Option<(Vec<u64>, f64)> {
    let cost = f64_of(rec, "cost")?;
    match rec.get("path")?.as_property()? {
        PropertyValue::Array(a) => {
            let mut p = vec![];
            for x in a {
                p.push(x.as_integer()? as u64);
            }
            Some((p, cost))
        }
        _ => None,
    }
}

fn proj_args(lab: Option<usize>, ty: Option<usize>) -> String {
    match (lab, ty) {
        (None, None) => "".into(),
        (Some(l), None) => format!("'{}'", LABELS[l]),
        (None, Some(t)) => format!("null, '{}'", TYPES[t]),
        (Some(l), Some(t)) => format!("'{}', '{}'", LABELS[l], TYPES[t]),
    }
}

/// node -> integer column rows into a map; None on malformed rows / duplicate nodes
fn node_int_rows(rows: &[Record], col: &str) -> Option<HashMap<u64, usize>> {
    let mut m = HashMap::new();
    for r in rows {
        let id = node_of(r, "node")?;
        let c = i64_of(r, col)?;
        if m.insert(id, c as usize).is_some() {
            return None;
        }
    }
    Some(m)
}
fn node_f64_rows(rows: &[Record], col: &str) -> Option<HashMap<u64, f64>> {
    let mut m = HashMap::new();
    for r in rows {
        let id = node_of(r, "node")?;
        let c = f64_of(r, col)?;
        if m.insert(id, c).is_some() {
            return None;
        }
    }
    Some(m)
}

/// All CALL checks on one store. Returns number of CALLs.
fn check_store(store: &GraphStore, n: usize, ids: &[u64], labels: u32, edges: &[E2], projs: &BTreeMap<(Option<usize>, Option<usize>, bool), Proj>, vio: &mut Vio) -> u64 {
    let _ = (n, labels, edges);
    let tag = "call:";
    let mut calls = 0u64;
    let mut run = |q: &str, vio: &mut Vio, what: &str| -> Option<Vec<Record>> {
        calls += 1;
        match call(store, q) {
            Ok(r) => Some(r),
            Err(e) => {
                let class = if e.starts_with("panic") { "panic" } else { "error" };
                vio.push((format!("{tag}{what}:{class}"), format!("`{q}` failed: {e}")));
                None
            }
        }
    };
    let malformed = |vio: &mut Vio, what: &str, q: &str, rows: &[Record]| {
        vio.push((format!("{tag}{what}:rows-malformed"), format!("`{q}` returned rows that are not one well-typed row per node/result: {:?}", rows.iter().map(|r| format!("{:?}", r.bindings().iter().map(|(k, _)| k.to_string()).collect::<Vec<_>>())).collect::<Vec<_>>())));
    };
    // label x type projections
    for lab in [None, Some(0)] {
        for ty in [None, Some(0)] {
            let p = &projs[&(lab, ty, false)];
            let a = proj_args(lab, ty);
            let pdesc = format!("[label={:?} type={:?}]", lab.map(|l| LABELS[l]), ty.map(|t| TYPES[t]));
            // wcc
            let q = format!("CALL algo.wcc({a}) YIELD node, componentId");
            if let Some(rows) = run(&q, vio, "wcc") {
                match node_int_rows(&rows, "componentId") {
                    Some(m) => checks::partition(tag, "wcc", &p.r, &p.ids, &p.r.wcc, &m, None, vio),
                    None => malformed(vio, "wcc", &q, &rows),
                }
            }
            // lcc
            let q = format!("CALL algo.lcc({a}) YIELD node, coefficient");
            if let Some(rows) = run(&q, vio, "lcc") {
                match node_f64_rows(&rows, "coefficient") {
                    Some(m) => checks::lcc(tag, "lcc", &p.r, &p.ids, false, &m, None, vio),
                    None => malformed(vio, "lcc", &q, &rows),
                }
            }
            // cdlp / pageRank: projection only (the iteration itself is C27): equal to the crate
            // function on the reference projection
            let view = proj_view(p);
            let q = format!("CALL algo.cdlp({a}) YIELD node, communityId");
            if let Some(rows) = run(&q, vio, "cdlp") {
                match node_int_rows(&rows, "communityId") {
                    Some(m) => {
                        let want = sga::cdlp(&view, &sga::CdlpConfig::default()).labels;
                        let got: BTreeMap<u64, u64> = m.iter().map(|(k, v)| (*k, *v as u64)).collect();
                        let want: BTreeMap<u64, u64> = want.into_iter().collect();
                        if got != want {
                            vio.push((format!("{tag}cdlp:projection"), format!("`{q}` {pdesc}: labels {:?}, cdlp on the projected graph gives {:?}", got, want)));
                        }
                    }
                    None => malformed(vio, "cdlp", &q, &rows),
                }
            }
            let q = format!("CALL algo.pageRank({a}) YIELD node, score");
            if let Some(rows) = run(&q, vio, "pageRank") {
                match node_f64_rows(&rows, "score") {
                    Some(m) => {
                        let want = sga::page_rank(&view, sga::PageRankConfig::default());
                        let same = m.len() == want.len() && want.iter().all(|(k, v)| m.get(k).map_or(false, |x| (x - v).abs() <= 1e-12));
                        if !same {
                            let got: BTreeMap<u64, f64> = m.into_iter().collect();
                            let want: BTreeMap<u64, f64> = want.into_iter().collect();
                            vio.push((format!("{tag}pageRank:projection"), format!("`{q}` {pdesc}: scores {:?}, page_rank on the projected graph gives {:?}", got, want)));
                        }
                    }
                    None => malformed(vio, "pageRank", &q, &rows),
                }
            }
        }
    }
    // whole-graph procedures
    let pu = &projs[&(None, None, false)];
    let pw = &projs[&(None, None, true)];
    let q = "CALL algo.scc() YIELD node, componentId";
    if let Some(rows) = run(q, vio, "scc") {
        match node_int_rows(&rows, "componentId") {
            Some(m) => checks::partition(tag, "scc", &pu.r, &pu.ids, &pu.r.scc, &m, None, vio),
            None => malformed(vio, "scc", q, &rows),
        }
    }
    let q = "CALL algo.triangleCount() YIELD triangles";
    if let Some(rows) = run(q, vio, "triangleCount") {
        match (rows.len(), rows.first().and_then(|r| i64_of(r, "triangles"))) {
            (1, Some(c)) => checks::triangles(tag, "triangleCount", &pu.r, c, vio),
            _ => malformed(vio, "triangleCount", q, &rows),
        }
    }
    for (weighted, p) in [(false, pu), (true, pw)] {
        let q = if weighted { "CALL algo.mst('w') YIELD source, target, weight, total_weight".to_string() } else { "CALL algo.mst() YIELD source, target, weight, total_weight".to_string() };
        if let Some(rows) = run(&q, vio, "mst") {
            let mut total = None;
            let mut es = vec![];
            let mut ok = true;
            for r in &rows {
                if r.has("total_weight") {
                    if total.is_some() {
                        ok = false;
                    }
                    total = f64_of(r, "total_weight");
                } else {
                    match (node_of(r, "source"), node_of(r, "target"), f64_of(r, "weight")) {
                        (Some(a), Some(b), Some(w)) => es.push((a, b, w)),
                        _ => ok = false,
                    }
                }
            }
            match (ok, total) {
                (true, Some(t)) => checks::mst(tag, "mst", &p.r, &p.ids, None, t, &es, vio),
                _ => malformed(vio, "mst", &q, &rows),
            }
        }
        for s in 0..p.r.n {
            for t in 0..p.r.n {
                let (a, b) = (ids[s], ids[t]);
                let qs: Vec<(String, &str)> = if weighted {
                    vec![(format!("CALL algo.shortestPath({a}, {b}, {{weight_property: 'w'}}) YIELD path, cost"), "shortestPath"), (format!("CALL algo.weightedPath({a}, {b}, 'w') YIELD path, cost"), "weightedPath")]
                } else {
                    vec![(format!("CALL algo.shortestPath({a}, {b}) YIELD path, cost"), "shortestPath")]
                };
                for (q, what) in qs {
                    if let Some(rows) = run(&q, vio, what) {
                        let obs = match rows.len() {
                            0 => Some(None),
                            1 => path_of(&rows[0]).map(Some),
                            _ => None,
                        };
                        match obs {
                            Some(o) => checks::path(tag, what, &p.r, &p.ids, s, t, weighted, o, vio),
                            None => malformed(vio, what, &q, &rows),
                        }
                    }
                }
                if s != t {
                    let q = if weighted { format!("CALL algo.maxFlow({a}, {b}, 'w') YIELD max_flow") } else { format!("CALL algo.maxFlow({a}, {b}) YIELD max_flow") };
                    if let Some(rows) = run(&q, vio, "maxFlow") {
                        match (rows.len(), rows.first().and_then(|r| f64_of(r, "max_flow"))) {
                            (1, Some(f)) => checks::flow(tag, "maxFlow", &p.r, &p.ids, s, t, Some(f), vio),
                            _ => malformed(vio, "maxFlow", &q, &rows),
                        }
                    }
                }
            }
        }
    }
    calls
}

fn make_projs(n: usize, ids: &[u64], labels: u32, edges: &[E2]) -> BTreeMap<(Option<usize>, Option<usize>, bool), Proj> {
    let mut m = BTreeMap::new();
    for lab in [None, Some(0)] {
        for ty in [None, Some(0)] {
            m.insert((lab, ty, false), project(n, ids, labels, edges, lab, ty, false));
        }
    }
    m.insert((None, None, true), project(n, ids, labels, edges, None, None, true));
    m
}

fn run_listing2(n: usize, labels: u32, edges: &[E2], listing: &[E2], st: &mut Stats) {
    let nontrivial = edges.iter().any(|e| e.0 != e.1);
    st.cases += 1;
    if nontrivial {
        st.nontrivial += 1;
    }
    let (store, ids) = match build_store(n, labels, listing) {
        Ok(x) => x,
        Err(e) => {
            st.add(vec![("call:store-build".into(), format!("building the store failed: {e}"))], &|| witness2(n, labels, listing));
            return;
        }
    };
    let projs = make_projs(n, &ids, labels, edges);
    let mut vio = vec![];
    st.calls += check_store(&store, n, &ids, labels, edges, &projs, &mut vio);
    if st.sample.is_none() && edges.len() >= 2 && nontrivial && labels != 0 {
        st.sample = Some(witness2(n, labels, listing));
    }
    if !vio.is_empty() {
        st.add(vio, &|| witness2(n, labels, listing));
    }
}

fn run_multiset2(n: usize, labels: u32, ms: &[usize], st: &mut Stats) {
    let edges: Vec<E2> = ms.iter().map(|&k| kind2(n, k)).collect();
    st.multisets += 1;
    run_listing2(n, labels, &edges, &edges, st);
    let mut rev = edges.clone();
    rev.reverse();
    if rev != edges {
        run_listing2(n, labels, &edges, &rev, st);
    }
}

// ---------------------------------------------------------------- max-flow extension (6 nodes)
//
// On <= 4 nodes a shortest augmenting path never has to be undone, so the residual
// (reverse-edge) bookkeeping of edmonds_karp is not exercised there. This layer enumerates
// every SIMPLE digraph on 6 nodes with <= 7 (quick) / <= 9 (thorough) edges, unit capacities,
// source = index 0, sink = index 5 (all labelled graphs are enumerated, so fixing s,t loses
// nothing), against the minimum over all 16 s-t cuts.

const IDS6: [u64; 6] = [11, 4, 8, 15, 2, 6];

fn combos_with_prefix(kinds: usize, m: usize, prefix: &[usize], f: &mut dyn FnMut(&[usize])) {
    fn rec(kinds: usize, m: usize, cur: &mut Vec<usize>, f: &mut dyn FnMut(&[usize])) {
        if cur.len() == m {
            f(cur);
            return;
        }
        let start = cur.last().map_or(0, |x| x + 1);
        for k in start..kinds {
            cur.push(k);
            rec(kinds, m, cur, f);
            cur.pop();
        }
    }
    let mut cur = prefix.to_vec();
    rec(kinds, m, &mut cur, f);
}

/// ordered pair (u,v), u != v, over 6 nodes
fn pair6(k: usize) -> (usize, usize) {
    let u = k / 5;
    let r = k % 5;
    (u, if r >= u { r + 1 } else { r })
}

fn witness6(edges: &[(usize, usize)]) -> J {
    json!({"layer": "flow6", "ids": IDS6, "edges": edges.iter().map(|&(u, v)| json!([u, v])).collect::<Vec<_>>()})
}

fn check_flow6(edges: &[(usize, usize)]) -> (Vio, bool) {
    let n = 6;
    let mut out: Vec<Vec<(usize, u32)>> = vec![vec![]; n];
    let mut adj = [[0u64; 6]; 6];
    for &(u, v) in edges {
        out[u].push((v, 1));
        adj[u][v] += 1;
    }
    let (s, t) = (0usize, 5usize);
    let mut best = u64::MAX;
    for mask in 0u32..64 {
        if mask & 1 == 0 || mask & (1 << t) != 0 {
            continue;
        }
        let mut c = 0;
        for u in 0..n {
            for v in 0..n {
                if mask & (1 << u) != 0 && mask & (1 << v) == 0 {
                    c += adj[u][v];
                }
            }
        }
        best = best.min(c);
    }
    let view = make_view(n, &IDS6, &out, false);
    let mut vio = vec![];
    match guarded(|| sga::edmonds_karp(&view, IDS6[s], IDS6[t])) {
        Err(p) => vio.push(("flow6:edmonds_karp:panic".into(), format!("edmonds_karp panicked: {p}"))),
        Ok(None) => vio.push(("flow6:edmonds_karp:none".into(), format!("edmonds_karp returned None for existing nodes, min cut {best}"))),
        Ok(Some(f)) => {
            if f.max_flow != best as f64 {
                vio.push(("flow6:edmonds_karp:value".into(), format!("edmonds_karp({}->{}): max_flow {} but the minimum cut is {}", IDS6[s], IDS6[t], f.max_flow, best)));
            }
        }
    }
    (vio, best >= 1)
}

fn run_flow6(c: &[usize], st: &mut Stats) {
    let edges: Vec<(usize, usize)> = c.iter().map(|&k| pair6(k)).collect();
    let (vio, nontrivial) = check_flow6(&edges);
    st.cases += 1;
    st.calls += 1;
    st.multisets += 1;
    if nontrivial {
        st.nontrivial += 1;
    }
    if st.sample.is_none() && edges.len() >= 6 && nontrivial {
        st.sample = Some(witness6(&edges));
    }
    if !vio.is_empty() {
        st.add(vio, &|| witness6(&edges));
    }
}

// ---------------------------------------------------------------- worker

fn silence_stderr() {
    unsafe {
        let fd = libc::open(b"/dev/null\0".as_ptr() as *const libc::c_char, libc::O_WRONLY);
        if fd >= 0 {
            libc::dup2(fd, 2);
        }
    }
}

/// case syntax:  "1 <n> <m> <prefix...>"  |  "2 <n> <labels> <m> <prefix...>"
fn worker(case: &str) -> String {
    let t: Vec<usize> = case.split_whitespace().map(|x| x.parse().unwrap()).collect();
    let mut st = Stats::default();
    match t[0] {
        1 => {
            let (n, m) = (t[1], t[2]);
            if n == 0 {
                // the empty graph: one view
                let r = Ref::new(&G { n: 0, edges: vec![] });
                for weighted in [true, false] {
                    let view = make_view(0, &IDS1, &[], weighted);
                    let mut vio = vec![];
                    st.calls += check_view(&r, &view, &[], weighted, &mut vio);
                    st.cases += 1;
                    st.add(vio, &|| witness1(0, &[], weighted));
                }
                st.multisets += 1;
            } else {
                multisets_with_prefix(n * n * 3, m, &t[3..], &mut |ms| run_multiset1(n, ms, &mut st));
            }
        }
        2 => {
            let (n, labels, m) = (t[1], t[2] as u32, t[3]);
            multisets_with_prefix(n * n * 6, m, &t[4..], &mut |ms| run_multiset2(n, labels, ms, &mut st));
        }
        3 => {
            let m = t[1];
            combos_with_prefix(30, m, &t[2..], &mut |c| run_flow6(c, &mut st));
        }
        _ => {}
    }
    st.to_json()
}

// ---------------------------------------------------------------- parent

struct Plan {
    cases: Vec<String>,
    expected_cases: u128,
    desc: String,
}

fn plan1(max_m: usize) -> Plan {
    let mut cases = vec!["1 0 0".to_string()];
    let mut expected: u128 = 2;
    for n in 1..=4usize {
        for m in 0..=max_m {
            let kinds = n * n * 3;
            let plen = if m >= 4 { 2 } else if m == 3 { 1 } else { 0 };
            for p in prefixes(kinds, plen) {
                cases.push(format!("1 {n} {m} {}", p.iter().map(|x| x.to_string()).collect::<Vec<_>>().join(" ")));
            }
            // weighted listings: compositions of m into n out-lists x (3n)^m ; unweighted (all weights 1): x n^m
            let comp = binom((m + n - 1) as u128, (n - 1) as u128);
            expected += comp * ((3 * n) as u128).pow(m as u32) + comp * (n as u128).pow(m as u32);
        }
    }
    Plan { cases, expected_cases: expected, desc: format!("crate layer: n<=4, edge multisets of size <= {max_m} over n^2 ordered pairs x weights {{1,2,5}}, every distinct per-source listing order, weighted view (+ unweighted view when all weights are 1)") }
}

/// bounds: list of (n, max_m)
fn plan2(bounds: &[(usize, usize)]) -> Plan {
    let mut cases = vec![];
    let mut expected: u128 = 0;
    for &(n, max_m) in bounds {
        for m in 0..=max_m {
            let kinds = n * n * 6;
            let plen = if m >= 3 { 1 } else { 0 };
            let ps = prefixes(kinds, plen);
            for labels in 0..(1u32 << n) {
                for p in &ps {
                    cases.push(format!("2 {n} {labels} {m} {}", p.iter().map(|x| x.to_string()).collect::<Vec<_>>().join(" ")));
                }
            }
            // listings: sorted + reversed when different (palindromic listings = all elements equal ... counted exactly below)
            let total = binom((kinds + m - 1) as u128, m as u128);
            expected += (1u128 << n) * (2 * total - palindromes(kinds as u128, m as u128));
        }
    }
    Plan {
        cases,
        expected_cases: expected,
        desc: format!("call layer: (n, max edges) in {:?}, node labels {{A,B}}^n, edge multisets over ordered pairs x weights {{1,2,5}} x types {{R,S}}, two listing orders (sorted, reversed)", bounds),
    }
}

fn plan3(max_m: usize) -> Plan {
    let mut cases = vec![];
    let mut expected = 0u128;
    for m in 0..=max_m {
        if m >= 5 {
            for p in 0..30 {
                cases.push(format!("3 {m} {p}"));
            }
        } else {
            cases.push(format!("3 {m}"));
        }
        expected += binom(30, m as u128);
    }
    Plan { cases, expected_cases: expected, desc: format!("max-flow extension: every simple digraph on 6 nodes with <= {max_m} edges (no self-loops, no parallel edges), unit capacities, source idx 0, sink idx 5") }
}

/// number of sorted sequences of length m over `kinds` symbols that equal their reverse = all-equal sequences (m>=1), 1 for m=0
fn palindromes(kinds: u128, m: u128) -> u128 {
    if m == 0 {
        1
    } else {
        kinds
    }
}

fn absorb(ctx: &Ctx, tot: &mut Stats, res: &str) {
    let v: J = serde_json::from_str(res).unwrap_or_else(|e| ctx.machinery(&format!("bad worker result: {e}: {res}")));
    tot.cases += v["cases"].as_u64().unwrap();
    tot.nontrivial += v["nontrivial"].as_u64().unwrap();
    tot.calls += v["calls"].as_u64().unwrap();
    tot.multisets += v["multisets"].as_u64().unwrap();
    if tot.sample.is_none() && !v["sample"].is_null() {
        tot.sample = Some(v["sample"].clone());
    }
    for e in v["vio"].as_array().unwrap() {
        let sig = e[0].as_str().unwrap().to_string();
        let c = e[1].as_u64().unwrap();
        match tot.vio.get_mut(&sig) {
            Some(x) => x.0 += c,
            None => {
                tot.vio.insert(sig, (c, e[2].as_str().unwrap().to_string(), e[3].clone()));
            }
        }
    }
}

/// Runs a plan; returns (stats, hangs found, cap_hit)
fn run_plan(ctx: &Ctx, plan: &Plan, chunk_timeout: Duration) -> (Stats, u64, bool) {
    let opts = subproc::Opts { concurrency: 16, timeout: chunk_timeout, env: vec![], rlimit_as: Some(8 << 30) };
    let outs = subproc::run_cases("c26", &plan.cases, &opts);
    let mut tot = Stats::default();
    let mut hangs = 0u64;
    let mut cap = false;
    for (case, o) in plan.cases.iter().zip(outs) {
        match o {
            Outcome::Done(r) => absorb(ctx, &mut tot, &r),
            other => {
                // a chunk hung or died: rerun its multisets one by one to find the culprit(s)
                if hangs >= 3 {
                    cap = true;
                    continue;
                }
                let t: Vec<usize> = case.split_whitespace().map(|x| x.parse().unwrap()).collect();
                let (layer, n) = (t[0], t[1]);
                let mut singles = vec![];
                if layer == 3 {
                    combos_with_prefix(30, t[1], &t[2..], &mut |ms| singles.push(format!("3 {} {}", t[1], ms.iter().map(|x| x.to_string()).collect::<Vec<_>>().join(" "))));
                } else {
                    let (kinds, m, pre, head) = if layer == 1 { (n * n * 3, t[2], t[3..].to_vec(), format!("1 {n} {}", t[2])) } else { (n * n * 6, t[3], t[4..].to_vec(), format!("2 {n} {} {}", t[2], t[3])) };
                    multisets_with_prefix(kinds, m, &pre, &mut |ms| singles.push(format!("{head} {}", ms.iter().map(|x| x.to_string()).collect::<Vec<_>>().join(" "))));
                }
                let lname = match layer { 1 => "crate", 2 => "call", _ => "flow6" };
                let fine = subproc::Opts { concurrency: 16, timeout: Duration::from_secs(20), env: vec![], rlimit_as: Some(8 << 30) };
                let mut found_here = 0;
                for batch in singles.chunks(64) {
                    let batch: Vec<String> = batch.to_vec();
                    let rs = subproc::run_cases("c26", &batch, &fine);
                    for (c1, r1) in batch.iter().zip(rs) {
                        match r1 {
                            Outcome::Done(r) => absorb(ctx, &mut tot, &r),
                            Outcome::Timeout => {
                                hangs += 1;
                                found_here += 1;
                                ctx.violation(&format!("{lname}:hang"), format!("a case did not finish within 20 s (worker case `{c1}`)"), json!({"layer": format!("{lname}-multiset"), "case": c1}));
                            }
                            Outcome::Died { signal, code, stderr_tail } => {
                                hangs += 1;
                                found_here += 1;
                                ctx.violation(&format!("{lname}:abort"), format!("worker died (signal {:?} code {:?}) on case `{c1}`: {stderr_tail}", signal, code), json!({"layer": format!("{lname}-multiset"), "case": c1}));
                            }
                        }
                    }
                    if hangs >= 3 {
                        cap = true;
                        break;
                    }
                }
                if found_here == 0 && !cap {
                    ctx.machinery(&format!("chunk `{case}` failed ({:?}) but every multiset of it finished on its own", other));
                }
            }
        }
    }
    (tot, hangs, cap)
}

fn report_vios(ctx: &Ctx, st: &Stats) {
    for (sig, (c, msg, w)) in &st.vio {
        for _ in 0..*c {
            ctx.violation(sig, msg.clone(), w.clone());
        }
    }
}

fn main() {
    if subproc::worker_arg().is_some() {
        silence_stderr();
        std::panic::set_hook(Box::new(|_| {}));
        subproc::worker_main(worker);
    }
    run_check("C26", Level::Exploration, |ctx| {
        silence_stderr();
        if let Some(p) = ctx.replay.clone() {
            replay(ctx, &p);
            return;
        }
        let quick = ctx.quick();
        let p1 = plan1(if quick { 4 } else { 5 });
        let p2 = plan2(if quick { &[(1, 3), (2, 3), (3, 2), (4, 1)] } else { &[(1, 4), (2, 4), (3, 3), (4, 2)] });
        let to = Duration::from_secs(if quick { 120 } else { 900 });
        let (s1, h1, c1) = run_plan(ctx, &p1, to);
        let (s2, h2, c2) = run_plan(ctx, &p2, to);
        let p3 = plan3(if quick { 7 } else { 9 });
        let (s3, h3, c3) = run_plan(ctx, &p3, to);
        report_vios(ctx, &s1);
        report_vios(ctx, &s2);
        report_vios(ctx, &s3);
        let cases = s1.cases + s2.cases + s3.cases;
        let card = p1.expected_cases + p2.expected_cases + p3.expected_cases;
        let (h1, c1) = (h1 + h3, c1 || c3);
        let exhaustive = !c1 && !c2 && h1 + h2 == 0 && cases as u128 == card;
        if h1 + h2 == 0 && cases as u128 != card {
            ctx.machinery(&format!("enumerated {} cases but the generator cardinality is {}", cases, card));
        }
        ctx.cov("evaluations", cases);
        ctx.cov("generator_cardinality", card as u64);
        ctx.cov("exhaustive", exhaustive);
        ctx.cov("cap_hit", c1 || c2);
        ctx.cov("distinct_nontrivial", s1.nontrivial + s2.nontrivial + s3.nontrivial);
        ctx.cov("rule", "a case is one GraphView (crate layer: one edge listing of one multigraph, weighted or unweighted) or one GraphStore (call layer: labels + typed weighted relationships in one listing order); all cases are distinct by construction; a case is non-trivial if it has at least one relationship between two different nodes (so reachability, flow, spanning tree and components are not all degenerate); in the max-flow extension a case is one simple 6-node digraph, non-trivial if its maximum flow is >= 1");
        ctx.cov("crate_layer", json!({"views": s1.cases, "multigraphs": s1.multisets, "subject_calls": s1.calls, "nontrivial_views": s1.nontrivial, "expected_views": p1.expected_cases as u64, "bounds": p1.desc}));
        ctx.cov("call_layer", json!({"stores": s2.cases, "labelled_multigraphs": s2.multisets, "call_statements": s2.calls, "nontrivial_stores": s2.nontrivial, "expected_stores": p2.expected_cases as u64, "bounds": p2.desc}));
        ctx.cov("maxflow_extension", json!({"graphs": s3.cases, "expected_graphs": p3.expected_cases as u64, "graphs_with_positive_flow": s3.nontrivial, "bounds": p3.desc}));
        ctx.cov("subject_calls", s1.calls + s2.calls + s3.calls);
        if let Some(s) = &s3.sample {
            ctx.sample(s.clone());
        }
        ctx.cov("hung_or_aborted_cases", h1 + h2);
        if let Some(s) = &s1.sample {
            ctx.sample(s.clone());
        }
        if let Some(s) = &s2.sample {
            ctx.sample(s.clone());
        }
        ctx.sample(json!({"layer": "crate", "n": 2, "ids": [7, 3], "weighted": true, "out": [[], [[0, 5], [0, 1]]]}));
        ctx.assume("references: reachability closure (WCC/SCC), all simple paths (BFS/Dijkstra optimal cost), min over all s-t cuts (max-flow), min over all edge subsets forming a spanning tree of the start component's undirected multigraph (MST), set definitions on the underlying simple graph for triangles and the undirected LCC, Fagiolo's formula ((A+A^T)^3_ii / 2(d_tot(d_tot-1)-2d_bi)) for the directed LCC as the crate documents it");
        ctx.assume("max-flow is only called with source != sink (edmonds_karp(s,s) does not terminate; max-flow is undefined there); every case runs in a worker process under a timeout and a hang is reported as <layer>:hang");
        ctx.assume("crate-layer views are those an edge listing produces (out-lists in listing order, in-lists by source index then listing order, as build_view builds them); arbitrary inconsistent in/out lists are not generated");
        ctx.assume("call layer: a procedure is only asked for the projections its argument list can express (wcc/lcc/cdlp/pageRank: label x type; mst/shortestPath/maxFlow: weight; weightedPath: weighted; scc/triangleCount: none); cdlp/pageRank rows are compared with the crate function on the reference projection (the iteration itself is C27); mst may start from any node; statements go through parse_query + QueryExecutor (the engine's AST cache is not involved; the check memoises parse_query on the exact statement text); every relationship carries the integer weight property");
        ctx.assume("max-flow extension: on <= 4 nodes edmonds_karp never has to undo a shortest augmenting path, so its reverse-residual bookkeeping is only exercised by the 6-node layer (simple digraphs, unit capacities, one fixed source/sink pair; all labelled graphs enumerated so the fixed pair loses nothing); edmonds_karp iterates a HashMap, so which augmenting path it takes can differ between runs, the maximum flow may not");
        ctx.assume("bfs_all_shortest_paths: multiplicity of equal node sequences (parallel relationships) is not judged");
        ctx.assume("the 'random graphs up to a few hundred nodes' of the property's quantifier are not covered (no sampling tail); the >=1000-node parallel branches of count_triangles / LCC are not reached by these bounds");
    });
}

// ---------------------------------------------------------------- replay

fn replay(ctx: &Ctx, p: &std::path::Path) {
    let doc: J = serde_json::from_str(&std::fs::read_to_string(p).expect("read replay")).expect("json");
    let w = &doc["witness"];
    let layer = w["layer"].as_str().unwrap_or("");
    println!("replay {} signature={}", p.display(), doc["signature"].as_str().unwrap_or(""));
    match layer {
        "crate" => {
            let n = w["n"].as_u64().unwrap() as usize;
            let weighted = w["weighted"].as_bool().unwrap();
            let out: Vec<Vec<(usize, u32)>> = w["out"].as_array().unwrap().iter().map(|l| l.as_array().unwrap().iter().map(|e| (e[0].as_u64().unwrap() as usize, e[1].as_u64().unwrap() as u32)).collect()).collect();
            let mut edges = vec![];
            for u in 0..n {
                for &(v, wt) in &out[u] {
                    edges.push((u, v, if weighted { wt } else { 1 }));
                }
            }
            println!("graph: ids {:?}; edges in listing order (src idx, dst idx, weight): {:?}; weighted view: {}", &IDS1[..n], edges, weighted);
            let r = Ref::new(&G { n, edges });
            let view = make_view(n, &IDS1, &out, weighted);
            // run under a watchdog thread: a hang is reported, not waited for
            let (tx, rx) = std::sync::mpsc::channel();
            let r2 = r.clone();
            std::thread::spawn(move || {
                let mut vio = vec![];
                check_view(&r2, &view, &IDS1[..n], weighted, &mut vio);
                let _ = tx.send(vio);
            });
            match rx.recv_timeout(Duration::from_secs(10)) {
                Ok(vio) => print_and_record(ctx, vio, w),
                Err(_) => {
                    println!("  MISMATCH [crate:hang] the algorithms did not finish within 10 s");
                    ctx.violation("crate:hang", "did not finish within 10 s", w.clone());
                    finish_now(ctx);
                }
            }
            println!("expected (reference): wcc={:?} scc={:?} hops={:?} dist={:?} min-cut={:?} mst(start idx 0)={:?} triangles={} lcc_undirected={:?} lcc_directed={:?}", r.wcc, r.scc, &r.hops[..n], &r.dist[..n], &r.flow[..n], r.mst.first(), r.tri, r.lcc_u, r.lcc_d);
        }
        "call" => {
            let n = w["n"].as_u64().unwrap() as usize;
            let mut labels = 0u32;
            for (i, l) in w["labels"].as_array().unwrap().iter().enumerate() {
                if l.as_str() == Some("B") {
                    labels |= 1 << i;
                }
            }
            let listing: Vec<E2> = w["edges"].as_array().unwrap().iter().map(|e| (e[0].as_u64().unwrap() as usize, e[1].as_u64().unwrap() as usize, e[2].as_u64().unwrap() as u32, if e[3].as_str() == Some("S") { 1 } else { 0 })).collect();
            println!("store: labels {}; relationships in creation order (src idx, dst idx, w, type) {}", w["labels"], w["edges"]);
            let (store, ids) = build_store(n, labels, &listing).expect("store");
            let projs = make_projs(n, &ids, labels, &listing);
            let (tx, rx) = std::sync::mpsc::channel();
            let l2 = listing.clone();
            std::thread::spawn(move || {
                let mut vio = vec![];
                check_store(&store, n, &ids, labels, &l2, &projs, &mut vio);
                let _ = tx.send(vio);
            });
            match rx.recv_timeout(Duration::from_secs(10)) {
                Ok(vio) => print_and_record(ctx, vio, w),
                Err(_) => {
                    println!("  MISMATCH [call:hang] the procedures did not finish within 10 s");
                    ctx.violation("call:hang", "did not finish within 10 s", w.clone());
                    finish_now(ctx);
                }
            }
        }
        "flow6" => {
            let edges: Vec<(usize, usize)> = w["edges"].as_array().unwrap().iter().map(|e| (e[0].as_u64().unwrap() as usize, e[1].as_u64().unwrap() as usize)).collect();
            println!("6-node digraph, ids {:?}, edges (src idx, dst idx) {:?}, source idx 0, sink idx 5, unit capacities; edmonds_karp is run 20 times (its path choice depends on HashMap order)", IDS6, edges);
            let (tx, rx) = std::sync::mpsc::channel();
            std::thread::spawn(move || {
                let mut all = vec![];
                for _ in 0..20 {
                    all.extend(check_flow6(&edges).0);
                }
                let _ = tx.send(all);
            });
            match rx.recv_timeout(Duration::from_secs(10)) {
                Ok(vio) => print_and_record(ctx, vio, w),
                Err(_) => {
                    println!("  MISMATCH [flow6:hang] did not finish within 10 s");
                    ctx.violation("flow6:hang", "did not finish within 10 s", w.clone());
                }
            }
        }
        "crate-multiset" | "call-multiset" | "flow6-multiset" => {
            let case = w["case"].as_str().unwrap().to_string();
            let opts = subproc::Opts { concurrency: 1, timeout: Duration::from_secs(10), env: vec![], rlimit_as: Some(8 << 30) };
            let o = subproc::run_cases("c26", &[case.clone()], &opts);
            println!("case `{case}`: {:?}", o[0]);
            match &o[0] {
                Outcome::Done(r) => {
                    let mut st = Stats::default();
                    absorb(ctx, &mut st, r);
                    report_vios(ctx, &st);
                }
                Outcome::Timeout => ctx.violation(&format!("{}:hang", layer.trim_end_matches("-multiset")), "did not finish within 10 s", w.clone()),
                Outcome::Died { .. } => ctx.violation(&format!("{}:abort", layer.trim_end_matches("-multiset")), "worker died", w.clone()),
            }
        }
        _ => ctx.machinery("replay: unknown witness layer"),
    }
}

fn print_and_record(ctx: &Ctx, vio: Vio, w: &J) {
    if vio.is_empty() {
        println!("  no mismatch: every observation equals the reference on this case");
    }
    for (sig, msg) in vio {
        println!("  MISMATCH [{sig}] {msg}");
        ctx.violation(&sig, msg, w.clone());
    }
}

fn finish_now(_ctx: &Ctx) {
    // a hung subject thread cannot be joined; the verdict has been recorded, leave through run_check's normal path
}
