//! Comparators: an observation of the subject (crate function result or CALL rows,
//! already reduced to plain data) against the brute-force reference.
use crate::reference::Ref;
use std::collections::{BTreeMap, BTreeSet, HashMap};

pub type Vio = Vec<(String, String)>;

/// index of an id in `ids`
fn ix(ids: &[u64], id: u64) -> Option<usize> {
    ids.iter().position(|&x| x == id)
}

pub fn partition(tag: &str, what: &str, r: &Ref, ids: &[u64], expected: &[usize], node_component: &HashMap<u64, usize>, components: Option<&HashMap<usize, Vec<u64>>>, vio: &mut Vio) {
    // every node exactly once
    let keys: BTreeSet<u64> = node_component.keys().cloned().collect();
    let want: BTreeSet<u64> = ids.iter().cloned().collect();
    if keys != want {
        vio.push((format!("{tag}{what}:node-set"), format!("{what}: nodes reported {:?}, graph has {:?}", keys, want)));
        return;
    }
    let mut obs: BTreeMap<usize, BTreeSet<u64>> = BTreeMap::new();
    for (&id, &c) in node_component {
        obs.entry(c).or_default().insert(id);
    }
    let obs: BTreeSet<BTreeSet<u64>> = obs.into_values().collect();
    let mut exp: BTreeMap<usize, BTreeSet<u64>> = BTreeMap::new();
    for i in 0..r.n {
        exp.entry(expected[i]).or_default().insert(ids[i]);
    }
    let exp: BTreeSet<BTreeSet<u64>> = exp.into_values().collect();
    if obs != exp {
        vio.push((format!("{tag}{what}:partition"), format!("{what}: observed partition {:?}, true partition {:?}", obs, exp)));
    }
    if let Some(c) = components {
        let from_c: BTreeSet<BTreeSet<u64>> = c.values().map(|v| v.iter().cloned().collect()).collect();
        let total: usize = c.values().map(|v| v.len()).sum();
        if from_c != obs || total != ids.len() {
            vio.push((format!("{tag}{what}:maps-inconsistent"), format!("{what}: components map {:?} disagrees with node_component {:?}", from_c, obs)));
        }
    }
}

/// `obs`: None or (path as ids, cost). weighted=false: cost is hops.
pub fn path(tag: &str, what: &str, r: &Ref, ids: &[u64], s: usize, t: usize, weighted: bool, obs: Option<(Vec<u64>, f64)>, vio: &mut Vio) {
    let opt = if weighted { r.dist[s][t] } else { r.hops[s][t] };
    match obs {
        None => {
            if opt >= 0 {
                vio.push((format!("{tag}{what}:none-but-reachable"), format!("{what}({}->{}): returned no path, optimal cost is {}", ids[s], ids[t], opt)));
            }
        }
        Some((p, cost)) => {
            if opt < 0 {
                vio.push((format!("{tag}{what}:path-but-unreachable"), format!("{what}({}->{}): returned {:?} cost {} but target is unreachable", ids[s], ids[t], p, cost)));
                return;
            }
            let pi: Vec<Option<usize>> = p.iter().map(|&id| ix(ids, id)).collect();
            let mut real = !pi.is_empty() && pi.iter().all(|x| x.is_some()) && pi[0] == Some(s) && *pi.last().unwrap() == Some(t);
            let mut sum = 0i64;
            if real {
                for w in pi.windows(2) {
                    let (a, b) = (w[0].unwrap(), w[1].unwrap());
                    if r.cnt[a][b] == 0 {
                        real = false;
                        break;
                    }
                    sum += if weighted { r.minw[a][b] as i64 } else { 1 };
                }
            }
            if !real {
                vio.push((format!("{tag}{what}:not-a-path"), format!("{what}({}->{}): {:?} is not a path of the graph from source to target", ids[s], ids[t], p)));
                return;
            }
            if cost != opt as f64 {
                vio.push((format!("{tag}{what}:cost-not-optimal"), format!("{what}({}->{}): cost {} path {:?}, optimal cost {}", ids[s], ids[t], cost, p, opt)));
            } else if sum != opt {
                vio.push((format!("{tag}{what}:path-not-optimal"), format!("{what}({}->{}): reported cost {} is optimal but the returned path {:?} costs at least {}", ids[s], ids[t], cost, p, sum)));
            }
        }
    }
}

/// bfs_all_shortest_paths: every returned path real + shortest, empty iff unreachable,
/// and the set of distinct node sequences is the set of all shortest paths (multiplicity not judged).
pub fn all_paths(tag: &str, r: &Ref, ids: &[u64], s: usize, t: usize, obs: &[(Vec<u64>, f64)], vio: &mut Vio) {
    let what = "bfs_all_shortest_paths";
    if obs.is_empty() {
        if r.hops[s][t] >= 0 {
            vio.push((format!("{tag}{what}:none-but-reachable"), format!("{what}({}->{}): empty, optimal cost {}", ids[s], ids[t], r.hops[s][t])));
        }
        return;
    }
    for (p, c) in obs {
        path(tag, what, r, ids, s, t, false, Some((p.clone(), *c)), vio);
    }
    let got: BTreeSet<Vec<u64>> = obs.iter().map(|(p, _)| p.clone()).collect();
    let want: BTreeSet<Vec<u64>> = r.sp[s][t].iter().map(|p| p.iter().map(|&i| ids[i]).collect()).collect();
    if r.hops[s][t] >= 0 && got != want {
        vio.push((format!("{tag}{what}:not-all-paths"), format!("{what}({}->{}): returned {:?}, all shortest paths are {:?}", ids[s], ids[t], got, want)));
    }
}

pub fn flow(tag: &str, what: &str, r: &Ref, ids: &[u64], s: usize, t: usize, obs: Option<f64>, vio: &mut Vio) {
    match obs {
        None => vio.push((format!("{tag}{what}:none"), format!("{what}({}->{}): no result for existing nodes, min cut is {}", ids[s], ids[t], r.flow[s][t]))),
        Some(f) => {
            if f != r.flow[s][t] as f64 {
                vio.push((format!("{tag}{what}:value"), format!("{what}({}->{}): max_flow {} but the minimum cut is {}", ids[s], ids[t], f, r.flow[s][t])));
            }
        }
    }
}

/// `start`: Some(i) when the start node is known (crate layer: index 0); None = any start node admissible.
pub fn mst(tag: &str, what: &str, r: &Ref, ids: &[u64], start: Option<usize>, total: f64, edges: &[(u64, u64, f64)], vio: &mut Vio) {
    if r.n == 0 {
        if total != 0.0 || !edges.is_empty() {
            vio.push((format!("{tag}{what}:nonempty-on-empty"), format!("{what}: empty graph gave total {} edges {:?}", total, edges)));
        }
        return;
    }
    let starts: Vec<usize> = match start {
        Some(s) => vec![s],
        None => (0..r.n).collect(),
    };
    let mut first: Option<(String, String)> = None;
    for st in starts {
        match mst_one(tag, what, r, ids, st, total, edges) {
            None => return, // admissible for this start
            Some(v) => {
                if first.is_none() {
                    first = Some(v);
                }
            }
        }
    }
    vio.push(first.unwrap());
}

fn mst_one(tag: &str, what: &str, r: &Ref, ids: &[u64], st: usize, total: f64, edges: &[(u64, u64, f64)]) -> Option<(String, String)> {
    let (comp, best) = &r.mst[st];
    let compids: Vec<u64> = comp.iter().map(|&i| ids[i]).collect();
    // every edge is an edge of the graph (either direction) with that weight
    let mut sum = 0.0;
    let mut c: Vec<usize> = (0..r.n).collect();
    for &(a, b, w) in edges {
        let (ia, ib) = match (ix(ids, a), ix(ids, b)) {
            (Some(x), Some(y)) => (x, y),
            _ => return Some((format!("{tag}{what}:edge-not-in-graph"), format!("{what}: edge ({a},{b},{w}) has an unknown endpoint"))),
        };
        let ok = |x: usize, y: usize| r.cnt[x][y] > 0 && r.has_weight(x, y, w);
        if !(ok(ia, ib) || ok(ib, ia)) {
            return Some((format!("{tag}{what}:edge-not-in-graph"), format!("{what}: reported tree edge ({a},{b},{w}) is not an edge of the graph")));
        }
        sum += w;
        let (x, y) = (c[ia], c[ib]);
        if x != y {
            for z in c.iter_mut() {
                if *z == y {
                    *z = x;
                }
            }
        }
    }
    let spans = edges.len() == comp.len() - 1 && comp.iter().all(|&x| c[x] == c[comp[0]]) && edges.iter().all(|&(a, b, _)| compids.contains(&a) && compids.contains(&b));
    if !spans {
        return Some((format!("{tag}{what}:edges-not-spanning"), format!("{what}: edges {:?} are not a spanning tree of the start component {:?}", edges, compids)));
    }
    if total != sum {
        return Some((format!("{tag}{what}:total-not-sum"), format!("{what}: total_weight {} but edges {:?} sum to {}", total, edges, sum)));
    }
    if total > *best as f64 {
        let region = if r.mst_parallel[st] { "parallel-edges-of-different-weight" } else { "no-parallel-edges" };
        return Some((format!("{tag}{what}:weight-above-minimum:{region}"), format!("{what}: total_weight {} (edges {:?}) but the minimum spanning tree of component {:?} weighs {}", total, edges, compids, best)));
    }
    if total < *best as f64 {
        return Some((format!("{tag}{what}:weight-below-minimum"), format!("{what}: total_weight {} below the minimum {} of component {:?}", total, best, compids)));
    }
    None
}

pub fn triangles(tag: &str, what: &str, r: &Ref, obs: i64, vio: &mut Vio) {
    if obs != r.tri as i64 {
        vio.push((format!("{tag}{what}:count"), format!("{what}: {} but the graph has {} triangles", obs, r.tri)));
    }
}

pub fn lcc(tag: &str, what: &str, r: &Ref, ids: &[u64], directed: bool, coeff: &HashMap<u64, f64>, average: Option<f64>, vio: &mut Vio) {
    let exp = if directed { &r.lcc_d } else { &r.lcc_u };
    let keys: BTreeSet<u64> = coeff.keys().cloned().collect();
    let want: BTreeSet<u64> = ids.iter().cloned().collect();
    if keys != want {
        vio.push((format!("{tag}{what}:node-set"), format!("{what}: nodes reported {:?}, graph has {:?}", keys, want)));
        return;
    }
    for i in 0..r.n {
        let o = coeff[&ids[i]];
        if !((o - exp[i]).abs() <= 1e-12) {
            vio.push((format!("{tag}{what}:coefficient"), format!("{what}: node {} coefficient {} but the definition gives {}", ids[i], o, exp[i])));
            return;
        }
    }
    if let Some(a) = average {
        let e = if r.n == 0 { 0.0 } else { exp.iter().sum::<f64>() / r.n as f64 };
        if !((a - e).abs() <= 1e-12) {
            vio.push((format!("{tag}{what}:average"), format!("{what}: average {} but the mean of the coefficients is {}", a, e)));
        }
    }
}

impl Ref {
    /// Is there a u->v edge with exactly this weight? (multiset kept as min only when
    /// weights are unit; otherwise consult `wset`.)
    pub fn has_weight(&self, u: usize, v: usize, w: f64) -> bool {
        self.wset.iter().any(|&(a, b, x)| a == u && b == v && x as f64 == w)
    }
}
