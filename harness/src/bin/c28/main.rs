//! C28 — hierarchy index answers equal the brute-force poset answers.
//! Part A (idx.rs): every labelled DAG x encoding x measure assignment, then hx over update_measure.
//! Part B (mgr.rs): hx through Cypher on a GraphStore with a twin store that never had the index.
mod idx;
mod mgr;

use serde_json::json;
use svmc::{run_check, Level};

fn silence_stderr() {
    unsafe {
        let fd = libc::open(b"/dev/null\0".as_ptr() as *const libc::c_char, libc::O_WRONLY);
        if fd >= 0 {
            libc::dup2(fd, 2);
        }
    }
}

fn main() {
    run_check("C28", Level::ModelChecking, |ctx| {
        silence_stderr(); // compact_adjacency (finish_bulk_load) prints one line per call
        if let Some(p) = &ctx.replay {
            let doc: serde_json::Value = serde_json::from_str(&std::fs::read_to_string(p).expect("read replay")).expect("json");
            let w = &doc["witness"];
            if w["kind"] == "manager" {
                mgr::replay(ctx, w);
            } else {
                idx_replay(ctx, w);
            }
            return;
        }
        let part = std::env::var("C28_PART").unwrap_or_default();
        if part != "B" {
            idx::run(ctx);
        }
        if part != "A" {
            mgr::run(ctx);
        }
        ctx.cov("rule", "index level: a (DAG, encoding, measure assignment) case is non-trivial if the DAG has at least one covering edge and at least one node carries a measure; every case is a distinct triple");
        ctx.cov("exhaustive", true);
        ctx.cov("alphabet", "index level: update_measure(node, absent|1|2|-1); manager level: see manager_alphabet");
        ctx.assume("brute force: reflexive transitive closure (Floyd-Warshall on a bool matrix) of the child->parent relation, written in the check; the module's oracle.rs is not used");
        ctx.assume("roll-up semantics: sum over no measured node is 0, min/max over none is null, count is the size of the reflexive descendant set (what the index documents and what Cypher's aggregates give)");
        ctx.assume("the probe declining a poset (WidthTooHigh) and update_measure/REBUILD marking the index stale instead of updating in place are admissible; demanded is only: covering write => unusable, and equal rows");
        ctx.assume("rewritten *0.. shapes are compared literally with a twin store that never had the index; subsumes()-shapes (which without an index are FALSE by contract) are compared with the twin while the index is unusable and with a brute-force closure over the current IS_A relation while it is usable; a node outside the hierarchy compared with itself may be either");
        ctx.assume("update-history dedup key is the measure vector: the range structures are linear in the measure, so a corruption invisible to every subtree query now stays invisible under later point updates");
        ctx.note("measure values are integers; float measures are outside the enumerated lattice");
        let _ = json!(null);
    });
}

fn idx_replay(ctx: &svmc::Ctx, w: &serde_json::Value) {
    let n = w["dag"]["n"].as_u64().expect("dag.n") as usize;
    let edges: Vec<(usize, usize)> = w["dag"]["edges_child_parent"].as_array().unwrap().iter().map(|e| (e[0].as_u64().unwrap() as usize, e[1].as_u64().unwrap() as usize)).collect();
    let d = idx::Dag { n, edges };
    println!("replaying index-level case: {} (recorded encoding {}, measure {}, detail {})", d.json(), w["encoding"], w["measure"], w["detail"]);
    let mut acc = idx::Acc::default();
    idx::check_dag(&d, true, &mut acc);
    idx::check_updates(&d, 3, &mut acc);
    if acc.v.is_empty() {
        println!("expected: index answers == brute force; observed: equal on every query of this DAG");
    }
    for (sig, (cnt, msg, _)) in &acc.v {
        println!("  MISMATCH [{sig}] x{cnt}: {msg}");
    }
    acc.flush(ctx);
}
