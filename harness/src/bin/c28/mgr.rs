//! C28 part B — manager level through Cypher on a GraphStore: histories of covering-edge
//! create/delete (Cypher and stub API), measure SET/REMOVE, unrelated writes, node deletion and
//! REBUILD, interleaved with every query shape the hierarchy detector rewrites. A twin store gets
//! the same history without ever having the index.
use samyama::graph::{GraphStore, NodeId, PropertyValue};
use samyama::query::{parse_query, MutQueryExecutor, Query, QueryExecutor, RecordBatch, Value as QV};
use serde_json::{json, Value};
use std::cell::RefCell;
use std::collections::{BTreeMap, BTreeSet, HashMap};
use svmc::engine::ctx::guarded;
use svmc::engine::hx::{self, Model, Step};
use svmc::{Ctx, Tier};

const DDL: &str = "CREATE HIERARCHY INDEX h ON ()-[:IS_A]->() MEASURE units AGGREGATE sum, min, max, count";
const DDL_LABELLED: &str = "CREATE HIERARCHY INDEX h ON ()-[:IS_A]->() MEASURE M.units AGGREGATE sum, min, max, count";
const DDL_REVERSED: &str = "CREATE HIERARCHY INDEX h ON ()<-[:IS_A]-() MEASURE units AGGREGATE sum, min, max, count";
const DDL_TWO_TYPES: &str = "CREATE HIERARCHY INDEX h ON ()-[:IS_A|PART_OF]->() MEASURE units AGGREGATE sum, min, max, count";
const REBUILD: &str = "REBUILD HIERARCHY INDEX h";
const NK: u8 = 4; // hierarchy candidates :N {k: 0..3}

#[derive(Clone, Debug, PartialEq, Eq, Hash, PartialOrd, Ord)]
pub enum Op {
    AddIsA(u8, u8),
    AddIsAStub(u8, u8),
    DelIsA(u8, u8),
    SetUnits(u8, i64),
    RemoveUnits(u8),
    SetUnitsNull(u8),
    MergeUnits(u8, i64),
    SetOther(u8),
    AddRel(u8, u8),
    AddFor(u8, u8),
    CreateNode,
    DetachDelete(u8),
    Rebuild,
}
impl Op {
    fn kind(&self) -> &'static str {
        match self {
            Op::AddIsA(..) => "create-covering-edge",
            Op::AddIsAStub(..) => "create-covering-edge-stub",
            Op::DelIsA(..) => "delete-covering-edge",
            Op::SetUnits(..) => "set-measure",
            Op::RemoveUnits(..) => "remove-measure",
            Op::SetUnitsNull(..) => "set-measure-null",
            Op::MergeUnits(..) => "set-measure-by-map-merge",
            Op::SetOther(..) => "unrelated-property-write",
            Op::AddRel(..) => "unrelated-edge-write",
            Op::AddFor(..) => "fact-edge-write",
            Op::CreateNode => "unrelated-node-create",
            Op::DetachDelete(..) => "detach-delete-hierarchy-node",
            Op::Rebuild => "rebuild",
        }
    }
    /// Does this op write the covering relation of the reference graph `r` (as it is before the op)?
    fn covering(&self, r: &RefG) -> bool {
        match self {
            Op::AddIsA(..) | Op::AddIsAStub(..) | Op::DelIsA(..) => true,
            // deleting a node deletes its relationships: a covering write iff it has an IS_A edge
            Op::DetachDelete(k) => r.isa.iter().chain(r.part_of.iter()).any(|e| e.0 == *k || e.1 == *k),
            _ => false,
        }
    }
    /// Kinds that cannot matter to a hierarchy answer are left out of a finding's region.
    fn relevant(&self) -> bool {
        !matches!(self, Op::SetOther(..) | Op::AddRel(..) | Op::CreateNode | Op::AddFor(..))
    }
    fn cypher(&self) -> Option<String> {
        Some(match self {
            Op::AddIsA(a, b) => format!("MATCH (a:N {{k: {a}}}), (b:N {{k: {b}}}) CREATE (a)-[:IS_A]->(b)"),
            Op::AddIsAStub(..) => return None,
            Op::DelIsA(a, b) => format!("MATCH (a:N {{k: {a}}})-[e:IS_A]->(b:N {{k: {b}}}) DELETE e"),
            Op::SetUnits(k, v) => format!("MATCH (n:N {{k: {k}}}) SET n.units = {v}"),
            Op::RemoveUnits(k) => format!("MATCH (n:N {{k: {k}}}) REMOVE n.units"),
            Op::SetUnitsNull(k) => format!("MATCH (n:N {{k: {k}}}) SET n.units = null"),
            Op::MergeUnits(k, v) => format!("MATCH (n:N {{k: {k}}}) SET n += {{units: {v}}}"),
            Op::SetOther(k) => format!("MATCH (n:N {{k: {k}}}) SET n.other = 5"),
            Op::AddRel(a, b) => format!("MATCH (a:N {{k: {a}}}), (b:N {{k: {b}}}) CREATE (a)-[:REL]->(b)"),
            Op::AddFor(f, k) => format!("MATCH (f:F {{k: {f}}}), (n:N {{k: {k}}}) CREATE (f)-[:FOR]->(n)"),
            Op::CreateNode => "CREATE (:X {k: 9, units: 3})".to_string(),
            Op::DetachDelete(k) => format!("MATCH (n:N {{k: {k}}}) DETACH DELETE n"),
            Op::Rebuild => REBUILD.to_string(),
        })
    }
}

#[derive(Clone, Debug)]
pub struct Setup {
    pub name: &'static str,
    pub isa: Vec<(u8, u8)>,
    pub units: [Option<i64>; 4],
    /// nodes that additionally carry label :M (for the label-restricted measure declaration)
    pub m_label: Vec<u8>,
    pub ddl: &'static str,
    /// a second hierarchy index declared over the same covering edge type (its name sorts before `h`)
    pub extra_ddl: Option<&'static str>,
    /// the declaration reads stored edges parent -> child (`ON ()<-[:IS_A]-()`)
    pub reverse: bool,
    /// static :PART_OF edges (child, parent), for the declaration over two edge types
    pub part_of: Vec<(u8, u8)>,
}
pub fn setups() -> Vec<Setup> {
    vec![
        Setup { name: "tree", isa: vec![(1, 0), (2, 0), (3, 1)], units: [None, Some(1), Some(2), Some(-1)], m_label: vec![], ddl: DDL, reverse: false, extra_ddl: None, part_of: vec![] },
        Setup { name: "diamond", isa: vec![(1, 0), (2, 0), (3, 1), (3, 2)], units: [Some(1), Some(2), None, Some(1)], m_label: vec![], ddl: DDL, reverse: false, extra_ddl: None, part_of: vec![] },
        Setup { name: "chain+isolated", isa: vec![(1, 0), (2, 1)], units: [Some(1), None, Some(-1), Some(2)], m_label: vec![], ddl: DDL, reverse: false, extra_ddl: None, part_of: vec![] },
        // the measure is declared for label :M only, and only nodes 0 and 1 carry it
        Setup { name: "tree+label-restricted-measure", isa: vec![(1, 0), (2, 0), (3, 1)], units: [Some(2), Some(1), Some(2), Some(-1)], m_label: vec![0, 1], ddl: DDL_LABELLED, reverse: false, extra_ddl: None, part_of: vec![] },
        // stored edges read parent -> child: the hierarchy is the mirror image of the IS_A arrows
        Setup { name: "tree+reversed-declaration", isa: vec![(1, 0), (2, 0), (3, 1)], units: [None, Some(1), Some(2), Some(-1)], m_label: vec![], ddl: DDL_REVERSED, reverse: true, extra_ddl: None, part_of: vec![] },
        // two indexes over the same covering edge type: a write to it must make BOTH unusable
        Setup { name: "tree+second-index-on-the-same-edge-type", isa: vec![(1, 0), (2, 0), (3, 1)], units: [None, Some(1), Some(2), Some(-1)], m_label: vec![], ddl: DDL, reverse: false, extra_ddl: Some("CREATE HIERARCHY INDEX a_extent ON ()-[:IS_A]->()"), part_of: vec![] },
        // the covering relation is IS_A and PART_OF together; the queries walk IS_A only
        Setup { name: "tree+two-edge-types", isa: vec![(1, 0), (2, 0)], units: [None, Some(1), Some(2), Some(-1)], m_label: vec![], ddl: DDL_TWO_TYPES, reverse: false, extra_ddl: None, part_of: vec![(3, 1)] },
    ]
}

/// Reference: the logical graph, plus what the index was last built from.
#[derive(Clone, Debug, PartialEq, Eq, Hash, PartialOrd, Ord)]
pub struct RefG {
    alive: BTreeSet<u8>,
    units: BTreeMap<u8, i64>,
    /// multiset of IS_A edges (child, parent)
    isa: Vec<(u8, u8)>,
    /// FOR edges (fact k, node k)
    facts: Vec<(u8, u8)>,
    other: BTreeSet<u8>,
    rel: Vec<(u8, u8)>,
    extra_nodes: u8,
    /// nodes in the poset at the last successful build
    built_poset: Option<BTreeSet<u8>>,
    /// a covering write happened since the last successful build
    covering_dirty: bool,
    /// op kinds applied since the last successful build (region of a finding)
    since_build: BTreeSet<&'static str>,
    /// did the implementation still call the index usable after the last step
    impl_usable: bool,
    reverse: bool,
    part_of: Vec<(u8, u8)>,
}
impl RefG {
    fn closure(&self) -> BTreeSet<(u8, u8)> {
        let mut r: BTreeSet<(u8, u8)> = self.alive.iter().map(|a| (*a, *a)).collect();
        for e in self.isa.iter().chain(self.part_of.iter()) {
            r.insert(if self.reverse { (e.1, e.0) } else { *e });
        }
        loop {
            let mut add = vec![];
            for &(a, b) in &r {
                for &(c, d) in &r {
                    if b == c && !r.contains(&(a, d)) {
                        add.push((a, d));
                    }
                }
            }
            if add.is_empty() {
                break;
            }
            r.extend(add);
        }
        r
    }
    fn acyclic(&self) -> bool {
        let c = self.closure();
        !self.isa.iter().chain(self.part_of.iter()).any(|&(a, b)| a == b || if self.reverse { c.contains(&(a, b)) && c.contains(&(b, a)) } else { c.contains(&(b, a)) })
    }
    fn poset_nodes(&self) -> BTreeSet<u8> {
        self.isa.iter().chain(self.part_of.iter()).flat_map(|e| [e.0, e.1]).collect()
    }
}

pub struct St {
    g: GraphStore,
    t: GraphStore,
    ids: HashMap<u8, NodeId>,
    pub r: RefG,
    hist: Vec<Op>,
}

pub struct M {
    pub setup: Setup,
    pub thorough: bool,
}

thread_local! {
    static ASTS: RefCell<HashMap<String, Query>> = RefCell::new(HashMap::new());
}
fn ast(q: &str) -> Result<Query, String> {
    ASTS.with(|c| {
        let mut c = c.borrow_mut();
        if let Some(a) = c.get(q) {
            return Ok(a.clone());
        }
        let a = parse_query(q).map_err(|e| format!("parse error: {e}"))?;
        c.insert(q.to_string(), a.clone());
        Ok(a)
    })
}
fn run_mut(g: &mut GraphStore, q: &str) -> Result<RecordBatch, String> {
    let a = ast(q)?;
    match guarded(|| MutQueryExecutor::new(g, "default".to_string()).execute(&a)) {
        Ok(r) => r.map_err(|e| format!("{e}")),
        Err(p) => Err(format!("PANIC: {p}")),
    }
}
fn run_read(g: &GraphStore, q: &str) -> Result<RecordBatch, String> {
    let a = ast(q)?;
    match guarded(|| QueryExecutor::new(g).execute(&a)) {
        Ok(r) => r.map_err(|e| format!("{e}")),
        Err(p) => Err(format!("PANIC: {p}")),
    }
}

/// Rows as a sorted bag of normalised cells.
fn norm(b: &RecordBatch, loose_numbers: bool) -> Vec<Vec<String>> {
    let mut rows: Vec<Vec<String>> = b
        .records
        .iter()
        .map(|r| {
            b.columns
                .iter()
                .map(|c| match r.get(c) {
                    None => "<unbound>".to_string(),
                    Some(QV::Node(id, _)) | Some(QV::NodeRef(id)) => format!("node#{}", id.as_u64()),
                    Some(QV::Null) | Some(QV::Property(PropertyValue::Null)) => "null".to_string(),
                    Some(QV::Property(PropertyValue::Integer(i))) => {
                        if loose_numbers {
                            format!("num:{}", *i as f64)
                        } else {
                            format!("int:{i}")
                        }
                    }
                    Some(QV::Property(PropertyValue::Float(f))) => {
                        if loose_numbers {
                            format!("num:{f}")
                        } else {
                            format!("float:{:#x}", f.to_bits())
                        }
                    }
                    Some(other) => format!("{:?}", other),
                })
                .collect()
        })
        .collect();
    rows.sort();
    rows
}

fn build_store(s: &Setup, with_index: bool) -> (GraphStore, HashMap<u8, NodeId>) {
    let mut g = GraphStore::new();
    let mut ids = HashMap::new();
    for k in 0..NK {
        let id = g.create_node("N");
        g.set_node_property("default", id, "k", PropertyValue::Integer(k as i64)).expect("set k");
        if let Some(u) = s.units[k as usize] {
            g.set_node_property("default", id, "units", PropertyValue::Integer(u)).expect("set units");
        }
        if s.m_label.contains(&k) {
            g.add_label_to_node("default", id, samyama::graph::Label::new("M")).expect("label");
        }
        ids.insert(k, id);
    }
    for &(c, p) in &s.isa {
        g.create_edge(ids[&c], ids[&p], "IS_A").expect("edge");
    }
    for &(c, p) in &s.part_of {
        g.create_edge(ids[&c], ids[&p], "PART_OF").expect("edge");
    }
    // two fact nodes pointing into the hierarchy
    for (fk, qty) in [(0i64, 5i64), (1, 7)] {
        let id = g.create_node("F");
        g.set_node_property("default", id, "k", PropertyValue::Integer(fk)).unwrap();
        g.set_node_property("default", id, "qty", PropertyValue::Integer(qty)).unwrap();
        ids.insert(100 + fk as u8, id);
    }
    for (f, k) in initial_facts() {
        g.create_edge(ids[&(100 + f)], ids[&k], "FOR").expect("edge");
    }
    if with_index {
        run_mut(&mut g, s.ddl).expect("CREATE HIERARCHY INDEX");
        if let Some(x) = s.extra_ddl {
            run_mut(&mut g, x).expect("second CREATE HIERARCHY INDEX");
        }
    }
    (g, ids)
}
fn initial_facts() -> Vec<(u8, u8)> {
    vec![(0, 1), (1, 3), (1, 1)]
}

pub fn shapes() -> Vec<(&'static str, &'static str, bool)> {
    // (name, query with {K} for the pinned root, is it a subsumes()-shape)
    vec![
        ("rollup-sum", "MATCH (d)-[:IS_A*0..]->(r:N {k: {K}}) RETURN sum(d.units) AS v", false),
        ("rollup-max", "MATCH (d)-[:IS_A*0..]->(r:N {k: {K}}) RETURN max(d.units) AS v", false),
        ("rollup-min", "MATCH (d)-[:IS_A*0..]->(r:N {k: {K}}) RETURN min(d.units) AS v", false),
        ("rollup-count", "MATCH (d)-[:IS_A*0..]->(r:N {k: {K}}) RETURN count(d) AS v", false),
        ("rollup-sum-reversed", "MATCH (r:N {k: {K}})<-[:IS_A*0..]-(d) RETURN sum(d.units) AS v", false),
        ("descendant-scan", "MATCH (d)-[:IS_A*0..]->(r:N {k: {K}}) RETURN d", false),
        ("descendant-scan-reversed", "MATCH (r:N {k: {K}})<-[:IS_A*0..]-(d) RETURN d", false),
        // the pin on the side the expansion starts from: rewritable only under a reversed declaration
        ("walk-from-pin-scan", "MATCH (r:N {k: {K}})-[:IS_A*0..]->(d) RETURN d", false),
        ("walk-from-pin-sum", "MATCH (r:N {k: {K}})-[:IS_A*0..]->(d) RETURN sum(d.units) AS v", false),
        ("walk-from-pin-count", "MATCH (d)<-[:IS_A*0..]-(r:N {k: {K}}) RETURN count(d) AS v", false),
        ("order-test-count", "MATCH (d:N), (r:N {k: {K}}) WHERE subsumes(d, r) RETURN count(d) AS v", true),
        ("order-test-nodes", "MATCH (d:N), (r:N {k: {K}}) WHERE subsumes(d, r) RETURN d", true),
        ("order-test-not-count", "MATCH (d:N), (r:N {k: {K}}) WHERE NOT subsumes(d, r) RETURN count(d) AS v", true),
        ("driven-count", "MATCH (o:F)-[:FOR]->(d), (r:N {k: {K}}) WHERE subsumes(d, r) RETURN count(o) AS v", true),
        ("driven-sum", "MATCH (o:F)-[:FOR]->(d), (r:N {k: {K}}) WHERE subsumes(d, r) RETURN sum(o.qty) AS v", true),
    ]
}

impl M {
    fn usable(g: &GraphStore) -> bool {
        // any declared index over the covering relation counts (setups with a second index name it a_extent)
        g.hierarchy_index.usable_named("h").is_some() || g.hierarchy_index.usable_named("a_extent").is_some()
    }
}

impl Model for M {
    type Op = Op;
    type State = St;
    type Key = RefG;
    fn init(&self) -> St {
        let (g, ids) = build_store(&self.setup, true);
        let (t, _) = build_store(&self.setup, false);
        let r = RefG {
            alive: (0..NK).collect(),
            units: (0..NK).filter_map(|k| self.setup.units[k as usize].map(|u| (k, u))).collect(),
            isa: self.setup.isa.clone(),
            facts: initial_facts(),
            other: BTreeSet::new(),
            rel: vec![],
            extra_nodes: 0,
            built_poset: Some(self.setup.isa.iter().chain(self.setup.part_of.iter()).flat_map(|e| [e.0, e.1]).collect()),
            covering_dirty: false,
            since_build: BTreeSet::new(),
            impl_usable: true,
            reverse: self.setup.reverse,
            part_of: self.setup.part_of.clone(),
        };
        St { g, t, ids, r, hist: vec![] }
    }
    fn ops(&self, st: &St) -> Vec<Op> {
        let r = &st.r;
        let mut v = vec![];
        let alive: Vec<u8> = r.alive.iter().copied().collect();
        for &a in &alive {
            for &b in &alive {
                if a != b {
                    v.push(Op::AddIsA(a, b));
                }
            }
        }
        // the stub API differs from create_edge only in what it skips; three pairs (a shortcut edge,
        // a cycle-closing edge, a sibling edge) are enough to reach its invalidation call
        let stub_pairs: Vec<(u8, u8)> = vec![(3, 0), (0, 3), (2, 1)];
        for (a, b) in stub_pairs {
            if r.alive.contains(&a) && r.alive.contains(&b) {
                v.push(Op::AddIsAStub(a, b));
            }
        }
        let mut seen = BTreeSet::new();
        for e in &r.isa {
            if seen.insert(*e) {
                v.push(Op::DelIsA(e.0, e.1));
            }
        }
        for &k in &alive {
            v.push(Op::SetUnits(k, 2));
            v.push(Op::SetUnits(k, -1));
            v.push(Op::RemoveUnits(k));
            if k == 1 || (self.thorough && k == 3) {
                v.push(Op::SetUnitsNull(k));
                v.push(Op::MergeUnits(k, 1));
            }
        }
        if r.alive.contains(&1) {
            v.push(Op::SetOther(1));
        }
        if r.alive.contains(&1) && r.alive.contains(&2) {
            v.push(Op::AddRel(1, 2));
        }
        if r.alive.contains(&2) {
            v.push(Op::AddFor(0, 2));
        }
        v.push(Op::CreateNode);
        for k in if self.thorough { vec![0u8, 3] } else { vec![3u8] } {
            if r.alive.contains(&k) {
                v.push(Op::DetachDelete(k));
            }
        }
        v.push(Op::Rebuild);
        v
    }
    fn apply(&self, st: &mut St, op: &Op, check: bool) -> Step {
        let mut vio: Vec<(String, String)> = vec![];
        st.hist.push(op.clone());
        // ---- implementation (indexed store) and twin
        let mut outcome = "ok".to_string();
        match op {
            Op::AddIsAStub(a, b) => {
                for g in [&mut st.g, &mut st.t] {
                    let (ia, ib) = (st.ids[a], st.ids[b]);
                    match guarded(|| {
                        let r = g.create_edge_stub(ia, ib, "IS_A").map(|_| ()).map_err(|e| e.to_string());
                        g.finish_bulk_load();
                        r
                    }) {
                        Ok(Ok(())) => {}
                        Ok(Err(e)) => vio.push(("mgr:write-refused".into(), format!("{op:?}: {e}"))),
                        Err(p) => vio.push(("mgr:write-panicked".into(), format!("{op:?}: {p}"))),
                    }
                }
            }
            Op::Rebuild => match run_mut(&mut st.g, REBUILD) {
                Ok(_) => {}
                Err(e) => {
                    outcome = "err".into();
                    if st.r.acyclic() {
                        vio.push(("mgr:rebuild-refused-on-acyclic-relation".into(), format!("REBUILD failed: {e}")));
                    }
                }
            },
            _ => {
                let q = op.cypher().unwrap();
                let a = run_mut(&mut st.g, &q);
                let b = run_mut(&mut st.t, &q);
                match (&a, &b) {
                    (Ok(_), Ok(_)) => {}
                    (Err(e), Err(_)) => outcome = format!("err:{}", e.split(':').next().unwrap_or("")),
                    _ => vio.push((format!("mgr:write-outcome-differs-from-twin:{}", op.kind()), format!("{q}: with index {:?}, twin {:?}", a.as_ref().map(|_| "ok"), b.as_ref().map(|_| "ok")))),
                }
            }
        }
        // ---- reference
        let r = &mut st.r;
        let is_covering = op.covering(r);
        match op {
            Op::AddIsA(a, b) | Op::AddIsAStub(a, b) => r.isa.push((*a, *b)),
            Op::DelIsA(a, b) => r.isa.retain(|e| e != &(*a, *b)),
            Op::SetUnits(k, v) | Op::MergeUnits(k, v) => {
                r.units.insert(*k, *v);
            }
            Op::RemoveUnits(k) | Op::SetUnitsNull(k) => {
                r.units.remove(k);
            }
            Op::SetOther(k) => {
                r.other.insert(*k);
            }
            Op::AddRel(a, b) => r.rel.push((*a, *b)),
            Op::AddFor(f, k) => r.facts.push((*f, *k)),
            Op::CreateNode => r.extra_nodes += 1,
            Op::DetachDelete(k) => {
                r.alive.remove(k);
                r.units.remove(k);
                r.other.remove(k);
                r.isa.retain(|e| e.0 != *k && e.1 != *k);
                r.part_of.retain(|e| e.0 != *k && e.1 != *k);
                r.rel.retain(|e| e.0 != *k && e.1 != *k);
                r.facts.retain(|e| e.1 != *k);
            }
            Op::Rebuild => {
                if outcome == "ok" {
                    r.built_poset = Some(r.poset_nodes());
                    r.covering_dirty = false;
                    r.since_build.clear();
                }
            }
        }
        if !matches!(op, Op::Rebuild) {
            if op.relevant() {
                r.since_build.insert(op.kind());
            }
            if is_covering {
                r.covering_dirty = true;
            }
        }
        let usable = M::usable(&st.g);
        r.impl_usable = usable;
        let region: String = if r.since_build.contains("remove-measure") {
            "remove-measure-since-build".to_string()
        } else if r.since_build.is_empty() {
            "no-hierarchy-write-since-build".to_string()
        } else { r.since_build.iter().copied().collect::<Vec<_>>().join("+") };
        if r.covering_dirty && usable {
            vio.push((format!("mgr:index-still-usable-after-covering-write:{}", op.kind()), format!("after {op:?} the index is still offered to the planner (usable_named = Some)")));
        }
        if matches!(op, Op::Rebuild) && outcome == "ok" && !usable {
            vio.push(("mgr:index-unusable-after-rebuild".into(), "REBUILD succeeded but the index is not usable".into()));
        }
        if !check {
            return Step { violations: vio, outcome };
        }
        // ---- every query shape x every pinned root
        let clo = r.closure();
        for (name, tmpl, is_subsumes) in shapes() {
            for k in 0..NK {
                let q = tmpl.replace("{K}", &k.to_string());
                let got = run_read(&st.g, &q);
                // the twin's answer is not consulted for subsumes()-shapes while the index is usable
                let twin = if is_subsumes && usable { Err("not run".to_string()) } else { run_read(&st.t, &q) };
                let decl = if self.setup.reverse { "reversed-declaration" } else if !self.setup.part_of.is_empty() { "two-edge-types" } else if !self.setup.m_label.is_empty() { "label-restricted-measure" } else { "plain-declaration" };
                let state = format!("{decl}:{}", if usable { "usable" } else { "unusable" });
                if let Err(e) = &got {
                    if e.starts_with("PANIC") {
                        vio.push((format!("mgr:{state}:{region}:{name}:panic"), format!("{q}: {e}")));
                        continue;
                    }
                }
                if !is_subsumes || !usable {
                    // literal twin comparison
                    match (&got, &twin) {
                        (Ok(a), Ok(b)) => {
                            if a.columns != b.columns || norm(a, false) != norm(b, false) {
                                let sym = if a.columns == b.columns && norm(a, true) == norm(b, true) { "number-type-only" } else { "rows-differ" };
                                vio.push((format!("mgr:{state}:{region}:{name}:{sym}"), format!("{q}: with index {:?} {:?}, twin store {:?} {:?}", a.columns, norm(a, false), b.columns, norm(b, false))));
                            }
                        }
                        (Err(_), Err(_)) => {}
                        (a, b) => vio.push((format!("mgr:{state}:{region}:{name}:error-differs"), format!("{q}: with index {:?}, twin {:?}", a.as_ref().map(|x| norm(x, false)), b.as_ref().map(|x| norm(x, false))))),
                    }
                    continue;
                }
                // subsumes()-shapes on a usable index: brute force over the closure of the current relation.
                // The one open point: a node outside the hierarchy compared with itself (None vs reflexive true).
                let outside = |x: u8| !r.built_poset.as_ref().map(|p| p.contains(&x)).unwrap_or(false);
                let mut admissible: Vec<Vec<Vec<String>>> = vec![];
                for self_pair in [false, true] {
                    let sub = |d: u8| -> bool {
                        if d == k && outside(k) {
                            return self_pair;
                        }
                        clo.contains(&(d, k))
                    };
                    let rows: Vec<Vec<String>> = if !r.alive.contains(&k) {
                        // the pin matches nothing: an aggregate over no rows / no rows
                        match name {
                            "order-test-nodes" => vec![],
                            "driven-sum" => vec![vec!["ZERO-OR-NULL".into()]],
                            _ => vec![vec!["int:0".into()]],
                        }
                    } else {
                        match name {
                            "order-test-count" => vec![vec![format!("int:{}", r.alive.iter().filter(|d| sub(**d)).count())]],
                            "order-test-not-count" => vec![vec![format!("int:{}", r.alive.iter().filter(|d| !sub(**d)).count())]],
                            "order-test-nodes" => {
                                let mut v: Vec<Vec<String>> = r.alive.iter().filter(|d| sub(**d)).map(|d| vec![format!("node#{}", st.ids[d].as_u64())]).collect();
                                v.sort();
                                v
                            }
                            "driven-count" => vec![vec![format!("int:{}", r.facts.iter().filter(|(_, d)| sub(*d)).count())]],
                            _ => {
                                let hits: Vec<i64> = r.facts.iter().filter(|(_, d)| sub(*d)).map(|(f, _)| if *f == 0 { 5 } else { 7 }).collect();
                                if hits.is_empty() {
                                    vec![vec!["ZERO-OR-NULL".into()]]
                                } else {
                                    vec![vec![format!("int:{}", hits.iter().sum::<i64>())]]
                                }
                            }
                        }
                    };
                    admissible.push(rows);
                }
                match &got {
                    Ok(a) => {
                        let n = norm(a, false);
                        let ok = admissible.iter().any(|w| {
                            if w.len() == 1 && w[0] == vec!["ZERO-OR-NULL".to_string()] {
                                n == vec![vec!["int:0".to_string()]] || n == vec![vec!["null".to_string()]]
                            } else {
                                *w == n
                            }
                        });
                        if !ok {
                            vio.push((format!("mgr:{state}:{region}:{name}:rows-differ-from-closure"), format!("{q}: with index {n:?}; brute force over the closure of IS_A {:?} (relation {:?})", admissible[0], r.isa)));
                        }
                    }
                    Err(e) => vio.push((format!("mgr:{state}:{region}:{name}:error"), format!("{q}: {e}"))),
                }
            }
        }
        Step { violations: vio, outcome: format!("{outcome}/{}", if usable { "usable" } else { "unusable" }) }
    }
    fn key(&self, st: &St) -> RefG {
        st.r.clone()
    }
}

pub fn run(ctx: &Ctx) {
    let depth = ctx.tier.pick(2, 3);
    let mut total = hx::Stats::default();
    for s in setups() {
        // the three declaration variants differ from "tree" only in how the index was declared:
        // they get the smaller (quick) alphabet in both tiers, at the tier's depth
        let variant = s.reverse || !s.part_of.is_empty() || !s.m_label.is_empty();
        let m = M { setup: s.clone(), thorough: ctx.tier == Tier::Thorough && !variant };
        let _ = variant;
        let stats = hx::explore(&m, depth, 20_000_000, |v| {
            ctx.violation(&v.sig, v.msg, json!({"kind": "manager", "setup": s.name, "history": v.history.iter().map(|o| format!("{:?}", o)).collect::<Vec<_>>()}));
        });
        println!("manager level, setup {}: states={} transitions={} pruned={}", s.name, stats.states, stats.transitions, stats.pruned_after_violation);
        ctx.cov(&format!("manager_hx_{}", s.name), json!({"states": stats.states, "transitions": stats.transitions, "pruned_after_violation": stats.pruned_after_violation, "max_depth": stats.max_depth, "distinct_outcomes_per_op": stats.distinct_outcomes(), "cap_hit": stats.cap_hit}));
        total.states += stats.states;
        total.transitions += stats.transitions;
        total.pruned_after_violation += stats.pruned_after_violation;
        total.cap_hit |= stats.cap_hit;
        total.max_depth = total.max_depth.max(stats.max_depth);
        for smp in stats.samples.iter().take(1) {
            ctx.sample(json!({"manager-level history": smp, "setup": s.name}));
        }
    }
    ctx.cov("manager_alphabet", "Cypher: CREATE/DELETE of :IS_A edges between the 4 :N nodes, SET n.units = 2|-1, REMOVE n.units, SET n.units = null, SET n += {units: 1}, SET n.other, CREATE :REL edge, CREATE :FOR edge, CREATE (:X), DETACH DELETE of a hierarchy node, REBUILD HIERARCHY INDEX h; API: create_edge_stub(:IS_A) + finish_bulk_load; after every step 15 query shapes x 4 pinned roots on the indexed store and on a twin store without the index");
    ctx.cov("manager_query_shapes", json!(shapes().iter().map(|s| s.1).collect::<Vec<_>>()));
    ctx.cov_add("states", total.states);
    ctx.cov_add("transitions", total.transitions);
    ctx.cov_add("traces_validated_against_impl", total.transitions);
    ctx.cov_add("pruned_after_violation", total.pruned_after_violation);
    ctx.cov("max_depth", total.max_depth as u64);
    ctx.cov("cap_hit", total.cap_hit);
}

/// Re-execute one manager-level witness, printing expected vs observed per step.
pub fn replay(ctx: &Ctx, w: &Value) {
    let name = w["setup"].as_str().unwrap_or("tree");
    let s = setups().into_iter().find(|s| s.name == name).unwrap_or_else(|| ctx.machinery("replay: unknown setup"));
    let m = M { setup: s, thorough: true };
    let mut st = m.init();
    for (i, want) in w["history"].as_array().unwrap().iter().enumerate() {
        let want = want.as_str().unwrap();
        let ops = m.ops(&st);
        let op = ops.iter().find(|o| format!("{:?}", o) == want).unwrap_or_else(|| ctx.machinery(&format!("replay: op {want} not enabled at step {i}")));
        let step = m.apply(&mut st, op, true);
        println!("step {i}: {want} [{}] -> {}", op.cypher().unwrap_or_else(|| "store.create_edge_stub + finish_bulk_load".into()), step.outcome);
        for (sig, msg) in step.violations {
            println!("  MISMATCH [{sig}] {msg}");
            ctx.violation(&sig, msg, w.clone());
        }
    }
}
