//! C28 part A — index level: every labelled DAG with <= N nodes x every admissible encoding x
//! every measure assignment over {absent, 1, 2, -1}; all pairs / all nodes against a closure-based
//! brute force written here (not the module's oracle.rs). Then hx over update_measure sequences.
use rayon::prelude::*;
use samyama::graph::NodeId;
use samyama::index::hierarchy::{Encoding, HierarchyError, OehIndex, Poset, RollupOp, RollupValue};
use serde_json::{json, Value};
use std::collections::BTreeMap;
use svmc::engine::ctx::guarded;
use svmc::engine::hx::{self, Model, Step};
use svmc::{Ctx, Tier};

pub const MEASURES: [Option<i128>; 4] = [None, Some(1), Some(2), Some(-1)];
const OPS: [RollupOp; 4] = [RollupOp::Sum, RollupOp::Count, RollupOp::Min, RollupOp::Max];

#[derive(Clone, Debug)]
pub struct Dag {
    pub n: usize,
    /// child -> parent edges, sorted
    pub edges: Vec<(usize, usize)>,
}
impl Dag {
    fn node(i: usize) -> NodeId {
        NodeId::new(100 + i as u64)
    }
    pub fn json(&self) -> Value {
        json!({"n": self.n, "edges_child_parent": self.edges})
    }
    /// reach[x][y] = x ⊑ y (reflexive transitive closure of child->parent)
    pub fn closure(&self) -> Vec<Vec<bool>> {
        let n = self.n;
        let mut r = vec![vec![false; n]; n];
        for i in 0..n {
            r[i][i] = true;
        }
        for &(c, p) in &self.edges {
            r[c][p] = true;
        }
        for k in 0..n {
            for i in 0..n {
                for j in 0..n {
                    if r[i][k] && r[k][j] {
                        r[i][j] = true;
                    }
                }
            }
        }
        r
    }
    fn is_forest(&self) -> bool {
        (0..self.n).all(|c| self.edges.iter().filter(|e| e.0 == c).count() <= 1)
    }
    fn poset(&self) -> Result<Poset, HierarchyError> {
        Poset::from_edges(self.edges.iter().map(|&(c, p)| (Self::node(c), Self::node(p))), (0..self.n).map(Self::node))
    }
}

/// All labelled DAGs on exactly n nodes (edge subsets over ordered pairs, acyclic ones kept).
pub fn dags(n: usize) -> Vec<Dag> {
    let pairs: Vec<(usize, usize)> = (0..n).flat_map(|a| (0..n).filter(move |b| *b != a).map(move |b| (a, b))).collect();
    let mut out = vec![];
    for mask in 0u32..(1u32 << pairs.len()) {
        let edges: Vec<(usize, usize)> = pairs.iter().enumerate().filter(|(i, _)| mask & (1 << i) != 0).map(|(_, e)| *e).collect();
        // acyclic? Kahn
        let mut indeg = vec![0; n];
        for e in &edges {
            indeg[e.1] += 1;
        }
        let mut q: Vec<usize> = (0..n).filter(|i| indeg[*i] == 0).collect();
        let mut seen = 0;
        while let Some(u) = q.pop() {
            seen += 1;
            for e in edges.iter().filter(|e| e.0 == u) {
                indeg[e.1] -= 1;
                if indeg[e.1] == 0 {
                    q.push(e.1);
                }
            }
        }
        if seen == n {
            out.push(Dag { n, edges });
        }
    }
    out
}

#[derive(Default)]
pub struct Acc {
    pub v: BTreeMap<String, (u64, String, Value)>,
    pub evals: u64,
    pub nontrivial: u64,
    pub refused: u64,
    pub states: u64,
    pub transitions: u64,
    pub enc_counts: BTreeMap<String, u64>,
}
impl Acc {
    pub fn hit(&mut self, sig: String, msg: impl FnOnce() -> String, wit: impl FnOnce() -> Value) {
        match self.v.get_mut(&sig) {
            Some(e) => e.0 += 1,
            None => {
                self.v.insert(sig, (1, msg(), wit()));
            }
        }
    }
    pub fn merge(&mut self, o: Acc) {
        self.evals += o.evals;
        self.nontrivial += o.nontrivial;
        self.refused += o.refused;
        self.states += o.states;
        self.transitions += o.transitions;
        for (k, n) in o.enc_counts {
            *self.enc_counts.entry(k).or_default() += n;
        }
        for (k, (n, m, w)) in o.v {
            match self.v.get_mut(&k) {
                Some(e) => e.0 += n,
                None => {
                    self.v.insert(k, (n, m, w));
                }
            }
        }
    }
    pub fn flush(&mut self, ctx: &Ctx) {
        for (sig, (n, msg, wit)) in std::mem::take(&mut self.v) {
            ctx.violation(&sig, msg, wit);
            for _ in 1..n {
                ctx.violation(&sig, "", Value::Null);
            }
        }
    }
}

fn brute_rollup(desc: &[usize], m: &[Option<i128>], op: RollupOp) -> RollupValue {
    let vals: Vec<i128> = desc.iter().filter_map(|d| m[*d]).collect();
    match op {
        RollupOp::Count => RollupValue::Int(desc.len() as i128),
        RollupOp::Sum => RollupValue::Int(vals.iter().sum()),
        RollupOp::Min => vals.iter().min().map(|v| RollupValue::Int(*v)).unwrap_or(RollupValue::Null),
        RollupOp::Max => vals.iter().max().map(|v| RollupValue::Int(*v)).unwrap_or(RollupValue::Null),
    }
}
fn same_value(a: &RollupValue, b: &RollupValue) -> bool {
    match (a, b) {
        (RollupValue::Int(x), RollupValue::Int(y)) => x == y,
        (RollupValue::Null, RollupValue::Null) => true,
        // an exact integer answer delivered as a float of the same value is still the same number
        (RollupValue::Float(x), RollupValue::Int(y)) | (RollupValue::Int(y), RollupValue::Float(x)) => *x == *y as f64 && x.fract() == 0.0,
        (RollupValue::Float(x), RollupValue::Float(y)) => x.to_bits() == y.to_bits(),
        _ => false,
    }
}

pub const ENCODINGS: [(&str, Option<Encoding>); 4] = [("probe", None), ("nested-set", Some(Encoding::NestedSet)), ("near-tree", Some(Encoding::NearTree)), ("chain", Some(Encoding::Chain))];

pub fn build(d: &Dag, enc: Option<Encoding>) -> Result<Result<OehIndex, HierarchyError>, String> {
    guarded(|| {
        let p = d.poset()?;
        match enc {
            None => OehIndex::build(p),
            Some(e) => OehIndex::build_forced(p, e),
        }
    })
}

fn wit(d: &Dag, enc: &str, m: Option<&[Option<i128>]>, extra: Value) -> Value {
    json!({"kind": "index", "dag": d.json(), "encoding": enc, "measure": m.map(|m| m.iter().map(|x| x.map(|v| v as i64)).collect::<Vec<_>>()), "detail": extra})
}

/// Rollups of every node under every op against brute force.
fn check_rollups(ix: &OehIndex, d: &Dag, desc: &[Vec<usize>], m: &[Option<i128>], enc: &str, phase: &str, hist: &Value, acc: &mut Acc) {
    for y in 0..d.n {
        let yi = match ix.poset().idx(Dag::node(y)) {
            Some(i) => i,
            None => {
                acc.hit(format!("index:{enc}:{phase}:node-missing-from-poset"), || format!("node {y} has no dense index"), || wit(d, enc, Some(m), hist.clone()));
                continue;
            }
        };
        for op in OPS {
            let want = brute_rollup(&desc[y], m, op);
            match guarded(|| ix.rollup(yi, op)) {
                Ok(Some(got)) => {
                    if !same_value(&got, &want) {
                        acc.hit(format!("index:{enc}:{phase}:rollup-{}", op.name()), || format!("rollup({y}, {}) = {got:?}, brute force over descendants {:?} = {want:?}", op.name(), desc[y]), || wit(d, enc, Some(m), hist.clone()));
                    }
                }
                Ok(None) => acc.hit(format!("index:{enc}:{phase}:rollup-{}-unavailable", op.name()), || format!("rollup({y}, {}) = None although the op was declared", op.name()), || wit(d, enc, Some(m), hist.clone())),
                Err(p) => acc.hit(format!("index:{enc}:{phase}:panic"), || format!("rollup({y}, {}) panicked: {p}", op.name()), || wit(d, enc, Some(m), hist.clone())),
            }
        }
    }
}

fn to_measure(m: &[Option<i128>]) -> Vec<Option<RollupValue>> {
    m.iter().map(|x| x.map(RollupValue::Int)).collect()
}

/// Everything for one DAG: all encodings, structural queries, all measure assignments.
pub fn check_dag(d: &Dag, all_measures_for_probe: bool, acc: &mut Acc) {
    let reach = d.closure();
    let n = d.n;
    let desc: Vec<Vec<usize>> = (0..n).map(|y| (0..n).filter(|x| reach[*x][y]).collect()).collect();
    for (ename, enc) in ENCODINGS {
        acc.evals += 1;
        let ix = match build(d, enc) {
            Err(p) => {
                acc.hit(format!("index:{ename}:build:panic"), || format!("build panicked: {p}"), || wit(d, ename, None, Value::Null));
                continue;
            }
            Ok(Err(e)) => {
                // NestedSet on a non-forest is an impossibility and must be refused; a decline by the probe
                // (WidthTooHigh) is an admissible outcome; anything else on an acyclic relation is wrong
                match (&e, enc) {
                    (HierarchyError::NotATree, Some(Encoding::NestedSet)) if !d.is_forest() => {}
                    (HierarchyError::WidthTooHigh { .. }, None) => acc.refused += 1,
                    _ => acc.hit(format!("index:{ename}:build:refused"), || format!("build failed on an acyclic relation: {e}"), || wit(d, ename, None, Value::Null)),
                }
                continue;
            }
            Ok(Ok(ix)) => ix,
        };
        if enc == Some(Encoding::NestedSet) && !d.is_forest() {
            acc.hit("index:nested-set:build:accepted-non-forest".into(), || "nested-set built on a relation with a multi-parent node".into(), || wit(d, ename, None, Value::Null));
        }
        *acc.enc_counts.entry(format!("{ename}->{}", ix.encoding().name())).or_default() += 1;
        let idx: Vec<Option<u32>> = (0..n).map(|i| ix.poset().idx(Dag::node(i))).collect();
        if idx.iter().any(|i| i.is_none()) || ix.poset().n() != n {
            acc.hit(format!("index:{ename}:build:node-missing-from-poset"), || format!("poset has {} nodes, dense indices {idx:?}", ix.poset().n()), || wit(d, ename, None, Value::Null));
            continue;
        }
        let idx: Vec<u32> = idx.into_iter().map(|i| i.unwrap()).collect();
        let back = |i: u32| -> usize { (ix.poset().node_at(i).as_u64() - 100) as usize };
        // ---- structural queries
        let r = guarded(|| {
            let mut bad: Vec<(String, String)> = vec![];
            for x in 0..n {
                for y in 0..n {
                    let got = ix.subsumes(idx[x], idx[y]);
                    if got != reach[x][y] {
                        bad.push(("subsumes".into(), format!("subsumes({x},{y}) = {got}, closure says {}", reach[x][y])));
                    }
                    let got_id = ix.subsumes_ids(Dag::node(x), Dag::node(y));
                    if got_id != Some(reach[x][y]) {
                        bad.push(("subsumes_ids".into(), format!("subsumes_ids({x},{y}) = {got_id:?}, closure says {}", reach[x][y])));
                    }
                    // lowest common ancestors: minimal elements of the common upper bounds
                    let common: Vec<usize> = (0..n).filter(|c| reach[x][*c] && reach[y][*c]).collect();
                    let mut want: Vec<usize> = common.iter().copied().filter(|c| !common.iter().any(|e| e != c && reach[*e][*c])).collect();
                    want.sort();
                    let mut got: Vec<usize> = ix.lowest_common_ancestors(idx[x], idx[y]).into_iter().map(back).collect();
                    let dup = {
                        let mut g = got.clone();
                        g.sort();
                        g.windows(2).any(|w| w[0] == w[1])
                    };
                    got.sort();
                    if got != want || dup {
                        bad.push(("lca".into(), format!("lowest_common_ancestors({x},{y}) = {got:?}, brute force {want:?}")));
                    }
                }
                let mut got: Vec<usize> = ix.descendants(idx[x]).into_iter().map(back).collect();
                got.sort();
                if got != desc[x] {
                    bad.push(("descendants".into(), format!("descendants({x}) = {got:?} (sorted), brute force {:?}", desc[x])));
                }
                let c = ix.descendant_count(idx[x]);
                if c != desc[x].len() {
                    bad.push(("descendant_count".into(), format!("descendant_count({x}) = {c}, brute force {}", desc[x].len())));
                }
            }
            if ix.subsumes_ids(NodeId::new(7), Dag::node(0)).is_some() {
                bad.push(("subsumes_ids-unknown-node".into(), "subsumes_ids(node outside the hierarchy, ..) is not None".into()));
            }
            bad
        });
        match r {
            Ok(bad) => {
                for (view, msg) in bad {
                    acc.hit(format!("index:{ename}:build:{view}"), || msg, || wit(d, ename, None, Value::Null));
                }
            }
            Err(p) => acc.hit(format!("index:{ename}:build:panic"), || format!("a structural query panicked: {p}"), || wit(d, ename, None, Value::Null)),
        }
        // ---- every measure assignment (the probe's own choice re-runs one of the forced code paths:
        //      quick runs them all again, thorough only a diagonal of assignments for it)
        let mut ix = ix;
        let total = 4usize.pow(n as u32);
        for code in 0..total {
            if enc.is_none() && !all_measures_for_probe && code % 7 != 0 {
                continue;
            }
            let m: Vec<Option<i128>> = (0..n).map(|i| MEASURES[(code / 4usize.pow(i as u32)) % 4]).collect();
            acc.evals += 1;
            if !d.edges.is_empty() && m.iter().any(|x| x.is_some()) {
                acc.nontrivial += 1;
            }
            if let Err(p) = guarded(|| ix.set_measure(to_measure(&m), &OPS)) {
                acc.hit(format!("index:{ename}:set_measure:panic"), || format!("set_measure panicked: {p}"), || wit(d, ename, Some(&m), Value::Null));
                break;
            }
            check_rollups(&ix, d, &desc, &m, ename, "set_measure", &Value::Null, acc);
        }
    }
}

// ---------------------------------------------------------------- hx over update_measure

#[derive(Clone, Debug, PartialEq)]
pub struct Upd(pub usize, pub Option<i128>);

pub struct UpdModel<'a> {
    pub d: &'a Dag,
    pub base: &'a OehIndex,
    pub init: Vec<Option<i128>>,
    pub desc: Vec<Vec<usize>>,
    pub enc: &'static str,
}
pub struct UpdState {
    ix: OehIndex,
    m: Vec<Option<i128>>,
    hist: Vec<String>,
}
impl<'a> Model for UpdModel<'a> {
    type Op = Upd;
    type State = UpdState;
    type Key = Vec<Option<i128>>;
    fn init(&self) -> UpdState {
        let mut ix = self.base.clone();
        ix.set_measure(to_measure(&self.init), &OPS);
        UpdState { ix, m: self.init.clone(), hist: vec![] }
    }
    fn ops(&self, _st: &UpdState) -> Vec<Upd> {
        (0..self.d.n).flat_map(|i| MEASURES.iter().map(move |v| Upd(i, *v))).collect()
    }
    fn apply(&self, st: &mut UpdState, op: &Upd, check: bool) -> Step {
        let mut acc = Acc::default();
        st.hist.push(format!("update_measure({}, {:?})", op.0, op.1));
        let r = guarded(|| st.ix.update_measure(Dag::node(op.0), op.1.map(RollupValue::Int)));
        st.m[op.0] = op.1;
        let hist = json!({"initial_measure": self.init.iter().map(|x| x.map(|v| v as i64)).collect::<Vec<_>>(), "updates": st.hist});
        match r {
            Ok(true) => {}
            Ok(false) => acc.hit(format!("index:{}:update_measure:refused", self.enc), || format!("update_measure({}, {:?}) returned false for a node of the hierarchy", op.0, op.1), || wit(self.d, self.enc, Some(&st.m), hist.clone())),
            Err(p) => acc.hit(format!("index:{}:update_measure:panic", self.enc), || format!("update_measure panicked: {p}"), || wit(self.d, self.enc, Some(&st.m), hist.clone())),
        }
        if check {
            check_rollups(&st.ix, self.d, &self.desc, &st.m, self.enc, "update_measure", &hist, &mut acc);
        }
        Step { violations: acc.v.into_iter().map(|(sig, (_, msg, w))| (sig, format!("{msg} ## {}", w))).collect(), outcome: "ok".into() }
    }
    fn key(&self, st: &UpdState) -> Vec<Option<i128>> {
        st.m.clone()
    }
}

/// hx over <= depth update_measure calls for one DAG, every forced encoding, two initial measures.
pub fn check_updates(d: &Dag, depth: usize, acc: &mut Acc) {
    let reach = d.closure();
    let n = d.n;
    let desc: Vec<Vec<usize>> = (0..n).map(|y| (0..n).filter(|x| reach[*x][y]).collect()).collect();
    for (ename, enc) in ENCODINGS.iter().skip(1) {
        let base = match build(d, *enc) {
            Ok(Ok(ix)) => ix,
            _ => continue, // judged in check_dag
        };
        let ramp: Vec<Option<i128>> = (0..n).map(|i| MEASURES[(i + 1) % 4]).collect();
        // 5-node DAGs (thorough): one initial measure, to keep the tier within its budget
        let inits = if n <= 4 { vec![vec![None; n], ramp] } else { vec![ramp] };
        for init in inits {
            let m = UpdModel { d, base: &base, init, desc: desc.clone(), enc: ename };
            // near-tree keeps no range structure (roll-ups fold the descendant set from the measure
            // vector), so on 5-node DAGs its update histories stop at depth 1
            let depth = if n >= 5 && *enc == Some(Encoding::NearTree) { 1 } else { depth };
            let stats = hx::explore(&m, depth, 10_000_000, |v| {
                let (msg, w) = v.msg.split_once(" ## ").map(|(a, b)| (a.to_string(), serde_json::from_str(b).unwrap_or(Value::Null))).unwrap_or((v.msg.clone(), Value::Null));
                acc.hit(v.sig, || msg, || w);
            });
            acc.states += stats.states;
            acc.transitions += stats.transitions;
        }
    }
}

pub fn run(ctx: &Ctx) {
    let nmax = ctx.tier.pick(4, 5);
    let mut all = Acc::default();
    let mut n_dags = 0u64;
    let mut per_n = vec![];
    for n in 1..=nmax {
        let ds = dags(n);
        n_dags += ds.len() as u64;
        per_n.push(ds.len());
        let full_probe = ctx.tier == Tier::Quick || n < 5;
        let parts: Vec<Acc> = ds
            .par_iter()
            .map(|d| {
                let mut acc = Acc::default();
                check_dag(d, full_probe, &mut acc);
                // update histories: depth 3 up to 4 nodes, depth 2 on 5 nodes
                check_updates(d, if n <= 4 { 3 } else { 2 }, &mut acc);
                acc
            })
            .collect();
        for p in parts {
            all.merge(p);
        }
        if n == nmax {
            if let Some(d) = ds.iter().find(|d| d.edges.len() == n) {
                ctx.sample(json!({"index-level case": d.json(), "encodings": "probe, nested-set (forced), near-tree (forced), chain (forced)", "measure_assignments": 4u64.pow(n as u32)}));
            }
        }
    }
    all.flush(ctx);
    ctx.cov("index_dags", json!({"labelled_dags_per_node_count": per_n, "total": n_dags, "max_nodes": nmax}));
    ctx.cov("index_evaluations", all.evals);
    ctx.cov("index_builds_by_requested_to_selected_encoding", json!(all.enc_counts));
    ctx.cov("index_declined_by_probe", all.refused);
    ctx.cov("update_hx", json!({"states": all.states, "transitions": all.transitions, "alphabet": "update_measure(node, absent|1|2|-1)", "depth": "3 for <=4 nodes; 5 nodes: 2 (nested-set, chain), 1 (near-tree)", "initial_measures": "all absent and ramp [1,2,-1,absent,..] for <=4 nodes; ramp only for 5 nodes", "dedup_key": "measure vector"}));
    ctx.cov_add("evaluations", all.evals);
    ctx.cov_add("distinct_nontrivial", all.nontrivial);
    ctx.cov_add("states", all.states);
    ctx.cov_add("transitions", all.transitions);
    ctx.cov_add("traces_validated_against_impl", all.transitions);
}
