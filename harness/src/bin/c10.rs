//! C10 — property values are ordered by lawful total orders.
//!
//! Bounded-exhaustive: every pair and every triple over an enumerated boundary set V of
//! `PropertyValue`s is pushed through the REAL `Ord::cmp`, `PartialEq::eq`, `Hash::hash`
//! and `cypher_order`, and the order / equality / hash laws the property names are
//! checked on each. Consequence checks: every permutation of every 4-subset of V is
//! sorted (stable, unstable, `sort_by(cypher_order)`) and fed to a real `PropertyIndex`
//! in that insertion order; results must not depend on the order.
//!
//! The "reference model" is the law itself (a law over a finite set is decidable by
//! enumeration); no second implementation of the order is assumed, so any lawful total
//! order agreeing with `==` passes.
use rayon::prelude::*;
use samyama::graph::property::cypher_order;
use samyama::graph::{NodeId, PropertyValue as PV};
use samyama::index::PropertyIndex;
use serde_json::{json, Value};
use std::cmp::Ordering;
use std::collections::hash_map::DefaultHasher;
use std::collections::{BTreeMap, BTreeSet, HashMap};
use std::hash::{Hash, Hasher};
use std::ops::Bound;
use svmc::engine::ctx::guarded;
use svmc::engine::odometer::{permutations, Rng};
use svmc::{run_check, Ctx, Level, Tier};

// ---------------------------------------------------------------- value set

fn nan_neg() -> f64 {
    f64::from_bits(0xfff8_0000_0000_0000)
}
fn nan_payload() -> f64 {
    f64::from_bits(0x7ff8_0000_0000_0001)
}
fn map(kv: &[(&str, PV)]) -> PV {
    PV::Map(kv.iter().map(|(k, v)| (k.to_string(), v.clone())).collect::<HashMap<_, _>>())
}
fn dur(m: i64, d: i64, s: i64, n: i32) -> PV {
    PV::Duration { months: m, days: d, seconds: s, nanos: n }
}

const P53: i64 = 1 << 53;

fn floats_quick() -> Vec<f64> {
    vec![
        0.0,
        -0.0,
        f64::NAN,
        nan_neg(),
        nan_payload(),
        f64::INFINITY,
        f64::NEG_INFINITY,
        1.0,
        -1.0,
        0.5,
        1.5,
        5e-324,
        P53 as f64,
        (P53 + 2) as f64,
        -(P53 as f64),
        9.223372036854775807e18,
        -9.223372036854775808e18,
    ]
}
fn ints_quick() -> Vec<i64> {
    vec![0, 1, -1, 2, P53, P53 + 1, P53 - 1, -P53 - 1, i64::MAX, i64::MAX - 1, i64::MIN]
}

fn values(tier: Tier) -> Vec<PV> {
    let mut v: Vec<PV> = vec![];
    for f in floats_quick() {
        v.push(PV::Float(f));
    }
    for i in ints_quick() {
        v.push(PV::Integer(i));
    }
    v.push(PV::Boolean(false));
    v.push(PV::Boolean(true));
    for s in ["", "a", "A", "b", "aa", "true"] {
        v.push(PV::String(s.into()));
    }
    for t in [0, 1, -1] {
        v.push(PV::DateTime(t));
    }
    v.extend([dur(0, 0, 0, 0), dur(0, 0, 0, 1), dur(0, 0, 1, 0), dur(0, 1, 0, 0), dur(1, 0, 0, 0), dur(-1, 0, 0, 0), dur(0, 0, 0, -1)]);
    // unnormalised durations: the same physical length as another domain value, a different value
    // (1e9 ns vs 1 s, -1 s + 999 999 999 ns vs -1 ns, 86 400 s vs 1 day) — an order that folds fields
    // together calls them Equal although `==` does not
    v.extend([dur(0, 0, 0, 1_000_000_000), dur(0, 0, -1, 999_999_999), dur(0, 0, 86_400, 0)]);
    v.extend([
        PV::Array(vec![]),
        PV::Array(vec![PV::Null]),
        PV::Array(vec![PV::Array(vec![])]),
        PV::Array(vec![PV::Integer(0)]),
        PV::Array(vec![PV::Float(0.0)]),
        PV::Array(vec![PV::Float(-0.0)]),
        PV::Array(vec![PV::Float(f64::NAN)]),
        PV::Array(vec![PV::Float(nan_neg())]),
        PV::Array(vec![PV::Float(-1.0)]),
        PV::Array(vec![PV::Integer(1)]),
        PV::Array(vec![PV::Integer(1), PV::Integer(2)]),
        PV::Array(vec![PV::Array(vec![PV::Integer(1)])]),
    ]);
    v.extend([
        map(&[]),
        map(&[("a", PV::Integer(0))]),
        map(&[("a", PV::Float(nan_neg()))]),
        map(&[("a", PV::Float(-1.0))]),
        map(&[("a", PV::Float(0.0))]),
        map(&[("a", PV::Float(-0.0))]),
        map(&[("b", PV::Integer(0))]),
        map(&[("a", PV::Integer(0)), ("b", PV::Integer(0))]),
        map(&[("a", map(&[]))]),
        map(&[("a", PV::Null)]),
    ]);
    v.extend([
        PV::Vector(vec![]),
        PV::Vector(vec![0.0]),
        PV::Vector(vec![-0.0]),
        PV::Vector(vec![f32::NAN]),
        PV::Vector(vec![f32::from_bits(0xffc0_0000)]),
        PV::Vector(vec![1.0]),
        PV::Vector(vec![-1.0]),
        PV::Vector(vec![1.0, 2.0]),
        PV::Vector(vec![f32::INFINITY]),
    ]);
    v.push(PV::Null);
    if tier == Tier::Thorough {
        // more numbers around every rounding boundary, and every numeric boundary value
        // once more inside a list, a map and (floats) a vector
        for f in [2.0, -2.0, -0.5, -5e-324, f64::MAX, f64::MIN, f64::MIN_POSITIVE, (P53 - 1) as f64, (P53 + 4) as f64, 9.223372036854774784e18, f64::from_bits(0xfff0_0000_0000_0001)] {
            v.push(PV::Float(f));
        }
        for i in [-2, 3, P53 + 2, P53 + 3, -P53, -P53 + 1, i64::MIN + 1, i64::MAX - 512, i64::MAX - 1024] {
            v.push(PV::Integer(i));
        }
        for f in [f64::INFINITY, 1.0, P53 as f64, nan_payload()] {
            v.push(PV::Array(vec![PV::Float(f)]));
            v.push(map(&[("a", PV::Float(f))]));
        }
        for i in [P53, P53 + 1, -1] {
            v.push(PV::Array(vec![PV::Integer(i)]));
            v.push(map(&[("a", PV::Integer(i))]));
        }
        v.extend([
            PV::Array(vec![PV::Float(0.0), PV::Float(-0.0)]),
            PV::Array(vec![PV::Float(-0.0), PV::Float(0.0)]),
            PV::Array(vec![PV::Integer(0), PV::Float(nan_neg())]),
            PV::Array(vec![PV::Vector(vec![-0.0])]),
            PV::Array(vec![PV::Vector(vec![0.0])]),
            PV::Array(vec![map(&[("a", PV::Float(-0.0))])]),
            PV::Array(vec![map(&[("a", PV::Float(0.0))])]),
            map(&[("a", PV::Array(vec![PV::Float(nan_neg())]))]),
            map(&[("a", PV::Array(vec![PV::Float(-1.0)]))]),
            map(&[("a", PV::Array(vec![PV::Integer(0)]))]),
            map(&[("a", PV::Vector(vec![-0.0]))]),
            map(&[("a", PV::Vector(vec![0.0]))]),
            map(&[("b", PV::Float(f64::NAN))]),
            map(&[("a", PV::Float(f64::NAN))]),
            PV::Vector(vec![0.0, -0.0]),
            PV::Vector(vec![-0.0, 0.0]),
            PV::Vector(vec![f32::NEG_INFINITY]),
            PV::Vector(vec![-1.0, f32::NAN]),
            PV::Vector(vec![1.0, -0.0]),
            PV::Vector(vec![1.0, 0.0]),
            PV::String("\u{0}".into()),
            PV::String("é".into()),
            PV::DateTime(i64::MAX),
            PV::DateTime(i64::MIN),
            dur(i64::MAX, 0, 0, 0),
            dur(i64::MIN, 0, 0, i32::MIN),
        ]);
    }
    v
}

// ---------------------------------------------------------------- witness encoding (bit exact)

fn enc(v: &PV) -> Value {
    match v {
        PV::String(s) => json!({"S": s}),
        PV::Integer(i) => json!({"I": i.to_string()}),
        PV::Float(f) => json!({"F": format!("{:#018x}", f.to_bits()), "shown": format!("{:?}", f)}),
        PV::Boolean(b) => json!({"B": b}),
        PV::DateTime(t) => json!({"T": t.to_string()}),
        PV::Array(a) => json!({"A": a.iter().map(enc).collect::<Vec<_>>()}),
        PV::Map(m) => {
            let b: BTreeMap<_, _> = m.iter().map(|(k, v)| (k.clone(), enc(v))).collect();
            json!({ "M": b })
        }
        PV::Vector(x) => json!({"V": x.iter().map(|f| format!("{:#010x}", f.to_bits())).collect::<Vec<_>>(), "shown": format!("{:?}", x)}),
        PV::Duration { months, days, seconds, nanos } => json!({"D": [months.to_string(), days.to_string(), seconds.to_string(), nanos.to_string()]}),
        PV::Null => json!({"N": null}),
    }
}
fn hexu(s: &str) -> u64 {
    u64::from_str_radix(s.trim_start_matches("0x"), 16).expect("hex")
}
fn dec(j: &Value) -> PV {
    let o = j.as_object().expect("object");
    if let Some(s) = o.get("S") {
        PV::String(s.as_str().unwrap().into())
    } else if let Some(s) = o.get("I") {
        PV::Integer(s.as_str().unwrap().parse().unwrap())
    } else if let Some(s) = o.get("F") {
        PV::Float(f64::from_bits(hexu(s.as_str().unwrap())))
    } else if let Some(s) = o.get("B") {
        PV::Boolean(s.as_bool().unwrap())
    } else if let Some(s) = o.get("T") {
        PV::DateTime(s.as_str().unwrap().parse().unwrap())
    } else if let Some(s) = o.get("A") {
        PV::Array(s.as_array().unwrap().iter().map(dec).collect())
    } else if let Some(s) = o.get("M") {
        PV::Map(s.as_object().unwrap().iter().map(|(k, v)| (k.clone(), dec(v))).collect())
    } else if let Some(s) = o.get("V") {
        PV::Vector(s.as_array().unwrap().iter().map(|x| f32::from_bits(hexu(x.as_str().unwrap()) as u32)).collect())
    } else if let Some(s) = o.get("D") {
        let a: Vec<i64> = s.as_array().unwrap().iter().map(|x| x.as_str().unwrap().parse().unwrap()).collect();
        PV::Duration { months: a[0], days: a[1], seconds: a[2], nanos: a[3] as i32 }
    } else {
        PV::Null
    }
}
fn show(v: &PV) -> String {
    match v {
        PV::Float(f) if f.is_nan() => format!("Float({}NaN#{:x})", if f.is_sign_negative() { "-" } else { "+" }, f.to_bits() & 0x000f_ffff_ffff_ffff),
        PV::Map(m) => {
            let b: BTreeMap<_, _> = m.iter().map(|(k, v)| (k.clone(), show(v))).collect();
            format!("Map{:?}", b)
        }
        PV::Array(a) => format!("Array[{}]", a.iter().map(show).collect::<Vec<_>>().join(", ")),
        other => format!("{:?}", other),
    }
}

// ---------------------------------------------------------------- triggers (region predicates)

fn any_float(v: &PV, f64p: &dyn Fn(f64) -> bool, f32p: &dyn Fn(f32) -> bool) -> bool {
    match v {
        PV::Float(f) => f64p(*f),
        PV::Vector(x) => x.iter().any(|f| f32p(*f)),
        PV::Array(a) => a.iter().any(|e| any_float(e, f64p, f32p)),
        PV::Map(m) => m.values().any(|e| any_float(e, f64p, f32p)),
        _ => false,
    }
}
fn has_nan(v: &PV) -> bool {
    any_float(v, &|f| f.is_nan(), &|f| f.is_nan())
}
fn has_negnan(v: &PV) -> bool {
    any_float(v, &|f| f.is_nan() && f.is_sign_negative(), &|f| f.is_nan() && f.is_sign_negative())
}
fn has_negzero(v: &PV) -> bool {
    any_float(v, &|f| f == 0.0 && f.is_sign_negative(), &|f| f == 0.0 && f.is_sign_negative())
}
fn has_float(v: &PV) -> bool {
    any_float(v, &|_| true, &|_| true)
}
fn has_bigint(v: &PV) -> bool {
    match v {
        PV::Integer(i) => i.unsigned_abs() > (1u64 << 53),
        PV::Array(a) => a.iter().any(has_bigint),
        PV::Map(m) => m.values().any(has_bigint),
        _ => false,
    }
}
/// Region of a case = the most specific numeric-boundary feature present among its values.
fn trigger(vals: &[&PV]) -> &'static str {
    if vals.iter().any(|v| has_negnan(v)) {
        "negnan"
    } else if vals.iter().any(|v| has_nan(v)) {
        "nan"
    } else if vals.iter().any(|v| has_negzero(v)) {
        "negzero"
    } else if vals.iter().any(|v| has_bigint(v)) && vals.iter().any(|v| has_float(v)) {
        "bigint-float"
    } else {
        "plain"
    }
}
/// Bit-exact identity after replacing every NaN by one canonical NaN (payload and sign dropped).
fn nan_canon(v: &PV) -> Value {
    match v {
        PV::Float(f) if f.is_nan() => json!("NaN"),
        PV::Vector(x) => json!({"V": x.iter().map(|f| if f.is_nan() { "NaN".to_string() } else { format!("{:x}", f.to_bits()) }).collect::<Vec<_>>()}),
        PV::Array(a) => json!({"A": a.iter().map(nan_canon).collect::<Vec<_>>()}),
        PV::Map(m) => {
            let b: BTreeMap<_, _> = m.iter().map(|(k, v)| (k.clone(), nan_canon(v))).collect();
            json!({ "M": b })
        }
        other => enc(other),
    }
}

// ---------------------------------------------------------------- accumulator (deterministic merge)

#[derive(Default)]
struct Acc {
    v: BTreeMap<String, (u64, String, Value)>,
    evals: u64,
    nontrivial: u64,
}
impl Acc {
    fn hit(&mut self, sig: String, msg: impl FnOnce() -> String, wit: impl FnOnce() -> Value) {
        match self.v.get_mut(&sig) {
            Some(e) => e.0 += 1,
            None => {
                self.v.insert(sig, (1, msg(), wit()));
            }
        }
    }
    fn merge(&mut self, o: Acc) {
        self.evals += o.evals;
        self.nontrivial += o.nontrivial;
        for (k, (n, m, w)) in o.v {
            match self.v.get_mut(&k) {
                Some(e) => e.0 += n,
                None => {
                    self.v.insert(k, (n, m, w));
                }
            }
        }
    }
    fn flush(self, ctx: &Ctx) -> (u64, u64) {
        for (sig, (n, msg, wit)) in self.v {
            ctx.violation(&sig, msg, wit);
            for _ in 1..n {
                ctx.violation(&sig, "", Value::Null);
            }
        }
        (self.evals, self.nontrivial)
    }
}
fn wit(kind: &str, vals: &[&PV]) -> Value {
    json!({"kind": kind, "values": vals.iter().map(|v| enc(v)).collect::<Vec<_>>(), "shown": vals.iter().map(|v| show(v)).collect::<Vec<_>>()})
}

// ---------------------------------------------------------------- the laws

type Cmp = fn(&PV, &PV) -> Ordering;
fn ord_cmp(a: &PV, b: &PV) -> Ordering {
    a.cmp(b)
}
fn h(v: &PV) -> u64 {
    let mut s = DefaultHasher::new();
    v.hash(&mut s);
    s.finish()
}
/// Same rank in the subject's order means the comparison is decided by value, not by type.
fn same_family(a: &PV, b: &PV) -> bool {
    fn fam(v: &PV) -> u8 {
        match v {
            PV::Boolean(_) => 0,
            PV::Integer(_) | PV::Float(_) => 1,
            PV::String(_) => 2,
            PV::DateTime(_) => 3,
            PV::Array(_) => 4,
            PV::Map(_) => 5,
            PV::Vector(_) => 6,
            PV::Duration { .. } => 7,
            PV::Null => 8,
        }
    }
    fam(a) == fam(b)
}

/// Pair laws for (a, b); `same` = a and b are the same element of V.
fn pair_laws(a: &PV, b: &PV, same: bool, acc: &mut Acc) {
    acc.evals += 1;
    let r = guarded(|| (a.cmp(b), b.cmp(a), a == b, b == a, a.partial_cmp(b), h(a), h(b), cypher_order(a, b), cypher_order(b, a)));
    let (ab, ba, eq, eq_rev, pab, ha, hb, cab, cba) = match r {
        Ok(x) => x,
        Err(p) => {
            acc.hit(format!("panic:pair:{}", trigger(&[a, b])), || format!("comparison of {} and {} panicked: {p}", show(a), show(b)), || wit("pair", &[a, b]));
            return;
        }
    };
    let t = || trigger(&[a, b]);
    if same && ab != Ordering::Equal {
        acc.hit(format!("ord:irreflexive:{}", t()), || format!("cmp({0},{0}) = {ab:?}", show(a)), || wit("pair", &[a, b]));
    }
    if same && cab != Ordering::Equal {
        acc.hit(format!("cypher:irreflexive:{}", t()), || format!("cypher_order({0},{0}) = {cab:?}", show(a)), || wit("pair", &[a, b]));
    }
    if ab != ba.reverse() {
        acc.hit(format!("ord:antisymmetry:{}", t()), || format!("cmp(a,b) = {ab:?} but cmp(b,a) = {ba:?} for a={} b={}", show(a), show(b)), || wit("pair", &[a, b]));
    }
    if cab != cba.reverse() {
        acc.hit(format!("cypher:antisymmetry:{}", t()), || format!("cypher_order(a,b) = {cab:?} but (b,a) = {cba:?} for a={} b={}", show(a), show(b)), || wit("pair", &[a, b]));
    }
    if pab != Some(ab) {
        acc.hit(format!("ord:partial_cmp-differs:{}", t()), || format!("partial_cmp = {pab:?}, cmp = {ab:?} for a={} b={}", show(a), show(b)), || wit("pair", &[a, b]));
    }
    if eq != eq_rev {
        acc.hit(format!("eq:asymmetric:{}", t()), || format!("a==b is {eq} but b==a is {eq_rev} for a={} b={}", show(a), show(b)), || wit("pair", &[a, b]));
    }
    if ab == Ordering::Equal && !eq {
        // the one class with a precise region: the two values are the same value up to NaN
        // payload/sign, i.e. IEEE `NaN != NaN` seen through the derived PartialEq
        let sig = if has_nan(a) && has_nan(b) && nan_canon(a) == nan_canon(b) { "ord:equal-but-ne:nan-vs-same-nan".to_string() } else { format!("ord:equal-but-ne:{}", t()) };
        acc.hit(sig, || format!("cmp(a,b) = Equal but a != b for a={} b={}", show(a), show(b)), || wit("pair", &[a, b]));
    }
    if eq && ab != Ordering::Equal {
        acc.hit(format!("ord:eq-but-not-equal:{}", t()), || format!("a == b but cmp(a,b) = {ab:?} for a={} b={}", show(a), show(b)), || wit("pair", &[a, b]));
    }
    if eq && ha != hb {
        acc.hit(format!("hash:eq-but-hash-differs:{}", t()), || format!("a == b but hash(a) = {ha:#x}, hash(b) = {hb:#x} for a={} b={}", show(a), show(b)), || wit("pair", &[a, b]));
    }
}

fn le(o: Ordering) -> bool {
    o != Ordering::Greater
}
/// Transitivity for the ordered triple (a,b,c) given the three comparisons.
fn triple_law(name: &str, a: &PV, b: &PV, c: &PV, ab: Ordering, bc: Ordering, ac: Ordering, acc: &mut Acc) {
    if le(ab) && le(bc) {
        let strict = ab == Ordering::Less || bc == Ordering::Less;
        let bad = if strict { ac != Ordering::Less } else { ac != Ordering::Equal };
        if bad {
            acc.hit(
                format!("{name}:transitivity:{}", trigger(&[a, b, c])),
                || format!("{name}: a vs b = {ab:?}, b vs c = {bc:?}, but a vs c = {ac:?} for a={} b={} c={}", show(a), show(b), show(c)),
                || wit("triple", &[a, b, c]),
            );
        }
    }
}

/// All pair laws and all triple laws over `vals` (every ordered pair, every ordered triple).
fn laws_over(vals: &[PV]) -> Acc {
    let n = vals.len();
    // comparison matrices from the real code (each entry guarded)
    let mat = |f: Cmp| -> Vec<Vec<Option<Ordering>>> { (0..n).into_par_iter().map(|i| (0..n).map(|j| guarded(|| f(&vals[i], &vals[j])).ok()).collect()).collect() };
    let mo = mat(ord_cmp);
    let mc = mat(cypher_order);
    let eqm: Vec<Vec<bool>> = (0..n).map(|i| (0..n).map(|j| guarded(|| vals[i] == vals[j]).unwrap_or(false)).collect()).collect();
    let parts: Vec<Acc> = (0..n)
        .into_par_iter()
        .map(|i| {
            let mut acc = Acc::default();
            for j in 0..n {
                pair_laws(&vals[i], &vals[j], i == j, &mut acc);
            }
            for j in 0..n {
                for k in 0..n {
                    acc.evals += 1;
                    let (a, b, c) = (&vals[i], &vals[j], &vals[k]);
                    if i != j && j != k && i != k && same_family(a, b) && same_family(b, c) {
                        acc.nontrivial += 1;
                    }
                    if let (Some(ab), Some(bc), Some(ac)) = (mo[i][j], mo[j][k], mo[i][k]) {
                        triple_law("ord", a, b, c, ab, bc, ac, &mut acc);
                    }
                    if let (Some(ab), Some(bc), Some(ac)) = (mc[i][j], mc[j][k], mc[i][k]) {
                        triple_law("cypher", a, b, c, ab, bc, ac, &mut acc);
                    }
                    if eqm[i][j] && eqm[j][k] && !eqm[i][k] {
                        acc.hit(format!("eq:transitivity:{}", trigger(&[a, b, c])), || format!("a==b, b==c, a!=c for a={} b={} c={}", show(a), show(b), show(c)), || wit("triple", &[a, b, c]));
                    }
                }
            }
            acc
        })
        .collect();
    let mut all = Acc::default();
    for p in parts {
        all.merge(p);
    }
    all
}

// ---------------------------------------------------------------- consequences

/// Position-wise agreement of two sorted sequences, as lenient as the property allows:
/// two elements at the same position agree if the subject calls them equal by `==` OR by the order.
fn seq_agree(x: &[&PV], y: &[&PV], f: Cmp) -> bool {
    x.iter().zip(y.iter()).all(|(a, b)| *a == *b || f(a, b) == Ordering::Equal)
}

fn ids(mut v: Vec<NodeId>) -> Vec<u64> {
    let mut o: Vec<u64> = v.drain(..).map(|n| n.as_u64()).collect();
    o.sort();
    o
}

/// Everything a `PropertyIndex` over `vals` (node i+1 holds vals[i]) answers, built in `order`.
fn index_observe(vals: &[&PV], order: &[usize]) -> Result<(Vec<Vec<u64>>, Vec<u64>), String> {
    guarded(|| {
        let mut ix = PropertyIndex::new();
        for &i in order {
            ix.insert(vals[i].clone(), NodeId::new(i as u64 + 1));
        }
        let mut obs: Vec<Vec<u64>> = vec![];
        for v in vals {
            obs.push(ids(ix.get(v)));
            obs.push(vec![ix.count(v) as u64]);
        }
        for lo in vals {
            obs.push(ids(ix.range((Bound::Included(*lo), Bound::Unbounded))));
            obs.push(ids(ix.range((Bound::Unbounded, Bound::Excluded(*lo)))));
            for hi in vals {
                if lo.cmp(hi) != Ordering::Greater {
                    obs.push(ids(ix.range((Bound::Included(*lo), Bound::Included(*hi)))));
                    obs.push(ids(ix.range((Bound::Included(*lo), Bound::Excluded(*hi)))));
                }
            }
        }
        // remove everything again, in insertion order: nothing may stay behind
        for &i in order {
            ix.remove(vals[i], NodeId::new(i as u64 + 1));
        }
        let left = ids(ix.range::<(Bound<&PV>, Bound<&PV>)>((Bound::Unbounded, Bound::Unbounded)));
        (obs, left)
    })
}

/// Sorting every permutation of `vals` (|vals| ≤ 5).
fn sort_cons(vals: &[&PV], perms: &[Vec<usize>], acc: &mut Acc) {
    let t = || trigger(vals);
    let mut first: Option<[Vec<&PV>; 3]> = None;
    for p in perms {
        acc.evals += 1;
        let input: Vec<&PV> = p.iter().map(|&i| vals[i]).collect();
        let r = guarded(|| {
            let mut s1 = input.clone();
            s1.sort();
            let mut s2 = input.clone();
            s2.sort_unstable();
            let mut s3 = input.clone();
            s3.sort_by(|a, b| cypher_order(a, b));
            [s1, s2, s3]
        });
        let sorted = match r {
            Ok(s) => s,
            Err(e) => {
                acc.hit(format!("sort:panic:{}", t()), || format!("sorting {:?} panicked: {e}", input.iter().map(|v| show(v)).collect::<Vec<_>>()), || wit("subset", vals));
                continue;
            }
        };
        for (k, (name, f)) in [("sort", ord_cmp as Cmp), ("sort_unstable", ord_cmp as Cmp), ("sort_by-cypher_order", cypher_order as Cmp)].iter().enumerate() {
            if sorted[k].windows(2).any(|w| f(w[0], w[1]) == Ordering::Greater) {
                acc.hit(format!("{name}:result-not-sorted:{}", t()), || format!("{name} of {:?} gave {:?}, which has a descending adjacent pair", input.iter().map(|v| show(v)).collect::<Vec<_>>(), sorted[k].iter().map(|v| show(v)).collect::<Vec<_>>()), || wit("subset", vals));
            }
        }
        match &first {
            None => first = Some(sorted),
            Some(f0) => {
                for (k, (name, f)) in [("sort", ord_cmp as Cmp), ("sort_unstable", ord_cmp as Cmp), ("sort_by-cypher_order", cypher_order as Cmp)].iter().enumerate() {
                    if !seq_agree(&f0[k], &sorted[k], *f) {
                        acc.hit(
                            format!("{name}:depends-on-input-order:{}", t()),
                            || format!("{name} gives {:?} for one input order and {:?} for another", f0[k].iter().map(|v| show(v)).collect::<Vec<_>>(), sorted[k].iter().map(|v| show(v)).collect::<Vec<_>>()),
                            || wit("subset", vals),
                        );
                    }
                }
            }
        }
    }
}

/// A real `PropertyIndex` built in every insertion order of `vals` (|vals| ≤ 5).
fn index_cons(vals: &[&PV], perms: &[Vec<usize>], acc: &mut Acc) {
    let t = || trigger(vals);
    let mut first: Option<Vec<Vec<u64>>> = None;
    for p in perms {
        acc.evals += 1;
        match index_observe(vals, p) {
            Err(e) => acc.hit(format!("index:panic:{}", t()), || format!("PropertyIndex over {:?} panicked: {e}", vals.iter().map(|v| show(v)).collect::<Vec<_>>()), || wit("subset", vals)),
            Ok((obs, left)) => {
                if !left.is_empty() {
                    acc.hit(format!("index:remove-leaves-entry:{}", t()), || format!("after removing every inserted (value,node) pair the index still holds nodes {left:?}; values {:?} inserted in order {p:?}", vals.iter().map(|v| show(v)).collect::<Vec<_>>()), || wit("subset", vals));
                }
                // get(v) against value equality: every node whose value == v must come back, and
                // nothing may come back whose value is neither == v nor Equal to v in the order
                for (i, v) in vals.iter().enumerate() {
                    let got = &obs[2 * i];
                    for (j, w) in vals.iter().enumerate() {
                        let id = j as u64 + 1;
                        let has = got.contains(&id);
                        if *v == *w && !has {
                            acc.hit(format!("index:get-misses-equal-value:{}", if i == j { t() } else { trigger(&[v, w]) }), || format!("get({}) = {got:?} misses node {id} holding {} although the two values are ==", show(v), show(w)), || wit("subset", vals));
                        }
                        // An index lookup answers Cypher's `=`, under which an Integer and a Float of the
                        // same numeric value are equal (1 = 1.0): a numeric twin coming back is admissible.
                        let numeric_twin = match (*v, *w) {
                            (PV::Integer(i), PV::Float(f)) | (PV::Float(f), PV::Integer(i)) => (*i as f64) == *f,
                            _ => false,
                        };
                        if has && !(*v == *w || v.cmp(w) == Ordering::Equal || numeric_twin) {
                            acc.hit(format!("index:get-returns-unequal-value:{}", trigger(&[v, w])), || format!("get({}) returned node {id} holding {}", show(v), show(w)), || wit("subset", vals));
                        }
                    }
                    if obs[2 * i + 1][0] as usize != got.len() {
                        acc.hit(format!("index:count-differs-from-get:{}", t()), || format!("count({}) = {} but get returns {got:?}", show(v), obs[2 * i + 1][0]), || wit("subset", vals));
                    }
                }
                match &first {
                    None => first = Some(obs),
                    Some(f0) => {
                        if *f0 != obs {
                            let k = f0.iter().zip(obs.iter()).position(|(a, b)| a != b).unwrap_or(0);
                            acc.hit(
                                format!("index:depends-on-insertion-order:{}", t()),
                                || format!("PropertyIndex over {:?}: observation #{k} (get/count/range in enumeration order) is {:?} when inserted in index order and {:?} when inserted in order {p:?}", vals.iter().map(|v| show(v)).collect::<Vec<_>>(), f0[k], obs[k]),
                                || wit("subset", vals),
                            );
                        }
                    }
                }
            }
        }
    }
}

fn binom(n: u64, k: u64) -> u64 {
    (0..k).fold(1u64, |acc, i| acc * (n - i) / (i + 1))
}

// ---------------------------------------------------------------- labelled sampling tail

fn rand_float(r: &mut Rng, pool: &[f64]) -> f64 {
    match r.below(3) {
        0 => pool[r.below(pool.len())],
        1 => f64::from_bits(r.next()),
        _ => (r.next() as i64 >> r.below(64)) as f64,
    }
}
fn rand_value(r: &mut Rng, depth: usize, fpool: &[f64], ipool: &[i64]) -> PV {
    let kinds = if depth == 0 { 8 } else { 10 };
    match r.below(kinds) {
        0 | 1 => PV::Float(rand_float(r, fpool)),
        2 | 3 => PV::Integer(if r.below(2) == 0 { ipool[r.below(ipool.len())] } else { r.next() as i64 >> r.below(64) }),
        4 => PV::Boolean(r.below(2) == 0),
        5 => PV::String(["", "a", "b", "aa"][r.below(4)].into()),
        6 => PV::Vector((0..r.below(3)).map(|_| rand_float(r, fpool) as f32).collect()),
        7 => match r.below(3) {
            0 => PV::Null,
            1 => PV::DateTime(r.below(3) as i64 - 1),
            _ => dur(r.below(2) as i64, r.below(2) as i64, r.below(2) as i64, r.below(2) as i32),
        },
        8 => PV::Array((0..r.below(3)).map(|_| rand_value(r, depth - 1, fpool, ipool)).collect()),
        _ => PV::Map((0..r.below(3)).map(|i| (["a", "b"][i % 2].to_string(), rand_value(r, depth - 1, fpool, ipool))).collect()),
    }
}

// ---------------------------------------------------------------- main

fn main() {
    run_check("C10", Level::Exploration, |ctx| {
        if let Some(p) = &ctx.replay {
            replay(ctx, p);
            return;
        }
        let vals = values(ctx.tier);
        let n = vals.len() as u64;
        // the enumerated set must not contain the same value twice (bit-exact), or "distinct" counts lie
        let distinct: BTreeSet<String> = vals.iter().map(|v| enc(v).to_string()).collect();
        if distinct.len() != vals.len() {
            ctx.machinery("boundary value set contains a duplicate");
        }
        // 1. pair + triple laws
        let laws = laws_over(&vals);
        let (law_evals, nontrivial) = laws.flush(ctx);
        // 2. consequences. Sorting: every permutation of every 4-subset of V. Index: every insertion
        //    order of every 3-subset of V; thorough additionally every 4-subset of the quick V.
        fn merge_all(parts: Vec<Acc>) -> Acc {
            let mut all = Acc::default();
            for p in parts {
                all.merge(p);
            }
            all
        }
        let perms4 = permutations(4);
        let perms3 = permutations(3);
        let pairs_of = |m: usize| -> Vec<(usize, usize)> { (0..m).flat_map(|a| (a + 1..m).map(move |b| (a, b))).collect() };
        let sort_acc = merge_all(
            pairs_of(vals.len())
                .par_iter()
                .map(|&(a, b)| {
                    let mut acc = Acc::default();
                    for c in b + 1..vals.len() {
                        for d in c + 1..vals.len() {
                            sort_cons(&[&vals[a], &vals[b], &vals[c], &vals[d]], &perms4, &mut acc);
                        }
                    }
                    acc
                })
                .collect(),
        );
        let (sort_evals, _) = sort_acc.flush(ctx);
        let ix3_acc = merge_all(
            pairs_of(vals.len())
                .par_iter()
                .map(|&(a, b)| {
                    let mut acc = Acc::default();
                    for c in b + 1..vals.len() {
                        index_cons(&[&vals[a], &vals[b], &vals[c]], &perms3, &mut acc);
                    }
                    acc
                })
                .collect(),
        );
        let (ix3_evals, _) = ix3_acc.flush(ctx);
        let qn = values(Tier::Quick).len(); // the quick V is a prefix of the thorough V
        let mut ix4_evals = 0;
        let mut ix4_card = 0;
        if ctx.tier == Tier::Thorough {
            let ix4_acc = merge_all(
                pairs_of(qn)
                    .par_iter()
                    .map(|&(a, b)| {
                        let mut acc = Acc::default();
                        for c in b + 1..qn {
                            for d in c + 1..qn {
                                index_cons(&[&vals[a], &vals[b], &vals[c], &vals[d]], &perms4, &mut acc);
                            }
                        }
                        acc
                    })
                    .collect(),
            );
            ix4_evals = ix4_acc.flush(ctx).0;
            ix4_card = binom(qn as u64, 4) * 24;
        }
        let cons_evals = sort_evals + ix3_evals + ix4_evals;
        let card = n * n + n * n * n + binom(n, 4) * 24 + binom(n, 3) * 6 + ix4_card;
        ctx.cov("values", n);
        ctx.cov("pairs", n * n);
        ctx.cov("triples", n * n * n);
        ctx.cov("sort_inputs", json!({"four_subsets": binom(n, 4), "permutations_each": 24, "sorts_each": "sort, sort_unstable, sort_by(cypher_order)"}));
        ctx.cov("index_builds", json!({"three_subsets_x_6_orders": binom(n, 3) * 6, "four_subsets_of_quick_set_x_24_orders": ix4_card}));
        ctx.cov("evaluations", law_evals + cons_evals);
        ctx.cov("generator_cardinality", card);
        ctx.cov("exhaustive", law_evals + cons_evals == card);
        ctx.cov("distinct_nontrivial", nontrivial);
        ctx.cov("rule", "an ordered triple of three different elements of V whose members all share one type family of the order (boolean / number / string / datetime / list / map / vector / duration), so none of its comparisons is decided by the type rank alone");
        for t in [[3usize, 8, 17], [0, 1, 17], [2, 2, 2]] {
            ctx.sample(json!({"triple": t.iter().map(|&i| show(&vals[i])).collect::<Vec<_>>(), "cmp_ab_bc_ac": [format!("{:?}", vals[t[0]].cmp(&vals[t[1]])), format!("{:?}", vals[t[1]].cmp(&vals[t[2]])), format!("{:?}", vals[t[0]].cmp(&vals[t[2]]))]}));
        }
        ctx.sample(json!({"value_set": vals.iter().map(show).collect::<Vec<_>>()}));
        ctx.assume("laws are checked on the subject's own answers only: any lawful total order that agrees with == passes; numeric exactness of Integer-vs-Float comparison beyond 2^53 is not demanded (the property does not state it)");
        ctx.assume("sorted sequences / index answers from different input orders are compared position-wise up to the subject's own equality (== or cmp Equal), the most lenient reading");
        ctx.assume("hash law checked with std DefaultHasher (fixed keys)");
        // 3. labelled sampling tail (thorough only): can add a violation, never a reason to pass
        if ctx.tier == Tier::Thorough {
            let fpool = floats_quick();
            let ipool = ints_quick();
            let rounds = 400u64;
            let per = 40usize;
            let parts: Vec<Acc> = (0..rounds)
                .into_par_iter()
                .map(|k| {
                    let mut r = Rng(ctx.seed ^ (k.wrapping_mul(0x9E37_79B9_7F4A_7C15)).wrapping_add(0xC10));
                    let vs: Vec<PV> = (0..per).map(|_| rand_value(&mut r, 2, &fpool, &ipool)).collect();
                    laws_over_seq(&vs)
                })
                .collect();
            let mut tail = Acc::default();
            for p in parts {
                tail.merge(p);
            }
            let mut renamed = Acc::default();
            renamed.evals = tail.evals;
            for (k, v) in tail.v {
                // same signature as the exhaustive part: a sampled case of a known class is that class
                renamed.v.insert(k, v);
            }
            let (e, _) = renamed.flush(ctx);
            ctx.cov("sampling_tail", json!({"evaluations": e, "seed": ctx.seed, "what": "400 random sets of 40 random values (depth <= 2), all pairs and triples of each set"}));
        }
    });
}

/// Non-parallel variant of laws_over for use inside a parallel loop.
fn laws_over_seq(vals: &[PV]) -> Acc {
    let n = vals.len();
    let mut acc = Acc::default();
    let mo: Vec<Vec<Option<Ordering>>> = (0..n).map(|i| (0..n).map(|j| guarded(|| vals[i].cmp(&vals[j])).ok()).collect()).collect();
    let mc: Vec<Vec<Option<Ordering>>> = (0..n).map(|i| (0..n).map(|j| guarded(|| cypher_order(&vals[i], &vals[j])).ok()).collect()).collect();
    for i in 0..n {
        for j in 0..n {
            // two sampled values may coincide; "same element" = bit-identical
            pair_laws(&vals[i], &vals[j], i == j, &mut acc);
            for k in 0..n {
                acc.evals += 1;
                if let (Some(ab), Some(bc), Some(ac)) = (mo[i][j], mo[j][k], mo[i][k]) {
                    triple_law("ord", &vals[i], &vals[j], &vals[k], ab, bc, ac, &mut acc);
                }
                if let (Some(ab), Some(bc), Some(ac)) = (mc[i][j], mc[j][k], mc[i][k]) {
                    triple_law("cypher", &vals[i], &vals[j], &vals[k], ab, bc, ac, &mut acc);
                }
            }
        }
    }
    acc
}

fn replay(ctx: &Ctx, p: &std::path::Path) {
    let doc: Value = serde_json::from_str(&std::fs::read_to_string(p).expect("read replay")).expect("json");
    let vals: Vec<PV> = doc["witness"]["values"].as_array().expect("witness.values").iter().map(dec).collect();
    println!("replaying {} value(s): {:?}", vals.len(), vals.iter().map(show).collect::<Vec<_>>());
    for (i, a) in vals.iter().enumerate() {
        for (j, b) in vals.iter().enumerate() {
            println!("  cmp(v{i},v{j}) = {:?}   cypher_order = {:?}   == {}   hash {} ", a.cmp(b), cypher_order(a, b), a == b, if h(a) == h(b) { "same" } else { "differs" });
        }
    }
    let mut acc = laws_over_seq(&vals);
    if vals.len() >= 2 && vals.len() <= 5 {
        let refs: Vec<&PV> = vals.iter().collect();
        sort_cons(&refs, &permutations(vals.len()), &mut acc);
        index_cons(&refs, &permutations(vals.len()), &mut acc);
    }
    if acc.v.is_empty() {
        println!("expected: every law holds; observed: every law holds on these values");
    }
    for (sig, (n, msg, _)) in &acc.v {
        println!("  MISMATCH [{sig}] x{n}: expected the law to hold; observed: {msg}");
    }
    acc.flush(ctx);
}
