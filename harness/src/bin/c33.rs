//! C33 — cluster health claims quorum only with a majority of distinct voters.
//! hx over the REAL `ClusterManager` (async API on a current-thread tokio runtime); the invariant
//! is evaluated on the manager's own observable state after every operation. Second phase: for
//! every configuration reached, every subset of ids is made the active set and all pairs of
//! subsets the manager calls healthy are intersected. Third phase: the same through
//! `ClusterConfig::add_node` + `ClusterManager::new`. Engine cross-check under stateright's BFS.
#[path = "c31/sr.rs"]
mod sr;

use samyama::raft::cluster::{ClusterConfig, ClusterManager, NodeConfig, NodeRole};
use serde_json::json;
use std::collections::{BTreeMap, BTreeSet};
use std::sync::Arc;
use svmc::engine::ctx::guarded;
use svmc::engine::hx::{self, Model, Step};
use svmc::engine::odometer::{permutations, sequences};
use svmc::{run_check, Level, Tier};

thread_local! {
    static RT: tokio::runtime::Runtime = tokio::runtime::Builder::new_current_thread().build().expect("tokio runtime");
}
fn block<F: std::future::Future>(f: F) -> F::Output {
    RT.with(|rt| rt.block_on(f))
}

#[derive(Clone, Debug, PartialEq, Eq, Hash, PartialOrd, Ord)]
enum Op {
    AddVoter(u64),
    AddLearner(u64),
    Remove(u64),
    MarkActive(u64),
    MarkInactive(u64),
    RoleLeader(u64),
    RoleFollower(u64),
}

/// What the manager lets anyone observe that health depends on.
#[derive(Clone, Debug, PartialEq, Eq, Hash, PartialOrd, Ord)]
struct Obs {
    /// config.nodes as a sorted multiset of (id, voter)
    nodes: Vec<(u64, bool)>,
    active: Vec<u64>,
    /// role per id 1..=k: None = no metadata, 0 Leader, 1 Follower, 2 Candidate, 3 Learner
    roles: Vec<Option<u8>>,
}
impl Obs {
    fn voters(&self) -> BTreeSet<u64> {
        self.nodes.iter().filter(|n| n.1).map(|n| n.0).collect()
    }
    fn has_dup(&self) -> bool {
        let ids: BTreeSet<u64> = self.nodes.iter().map(|n| n.0).collect();
        ids.len() != self.nodes.len()
    }
    fn leader_known(&self) -> bool {
        // the leader must be a node of the current configuration: the role record of a node
        // that has since been removed does not make a leader known
        self.roles.iter().enumerate().any(|(i, r)| *r == Some(0) && self.nodes.iter().any(|n| n.0 == i as u64 + 1))
    }
    fn rename(&self, p: &[usize]) -> Obs {
        // id i (1-based) becomes p[i-1]+1
        let f = |i: u64| p[i as usize - 1] as u64 + 1;
        let mut nodes: Vec<(u64, bool)> = self.nodes.iter().map(|n| (f(n.0), n.1)).collect();
        nodes.sort();
        let mut active: Vec<u64> = self.active.iter().map(|a| f(*a)).collect();
        active.sort();
        let mut roles = vec![None; self.roles.len()];
        for (i, r) in self.roles.iter().enumerate() {
            roles[p[i]] = *r;
        }
        Obs { nodes, active, roles }
    }
}

struct St {
    m: ClusterManager,
    hist_len: usize,
    /// the membership the acknowledged requests describe: id -> voter flag of the LAST add_node
    /// answered Ok, minus the ids removed since (reference model; the health oracle counts voters
    /// in the implementation's configuration, which must therefore be this one)
    refm: BTreeMap<u64, bool>,
}
fn ref_apply(refm: &mut BTreeMap<u64, bool>, op: &Op) {
    match op {
        Op::AddVoter(i) => {
            refm.insert(*i, true);
        }
        Op::AddLearner(i) => {
            refm.insert(*i, false);
        }
        Op::Remove(i) => {
            refm.remove(i);
        }
        _ => {}
    }
}
/// The configuration must list exactly the acknowledged membership (an id listed twice is judged
/// by the health oracle, not here).
fn judge_config(o: &Obs, refm: &BTreeMap<u64, bool>) -> Option<(String, String)> {
    let mut listed: Vec<(u64, bool)> = o.nodes.clone();
    listed.dedup();
    let want: Vec<(u64, bool)> = refm.iter().map(|(k, v)| (*k, *v)).collect();
    if listed != want && !o.has_dup() {
        return Some(("membership:configuration-differs-from-acknowledged-requests".to_string(), format!("configuration lists {listed:?} (id, voter) but the acknowledged add_node / remove_node requests give {want:?}: health counts voters the operator did not configure")));
    }
    None
}

struct M {
    k: u64,
    symmetry: bool,
    perms: Vec<Vec<usize>>,
}

fn role_code(r: &NodeRole) -> u8 {
    match r {
        NodeRole::Leader => 0,
        NodeRole::Follower => 1,
        NodeRole::Candidate => 2,
        NodeRole::Learner => 3,
    }
}

fn observe(m: &ClusterManager, k: u64) -> Obs {
    block(async {
        let cfg = m.get_config().await;
        let mut nodes: Vec<(u64, bool)> = cfg.nodes.iter().map(|n| (n.id, n.voter)).collect();
        nodes.sort();
        let mut active = m.get_active_nodes().await;
        active.sort();
        let mut roles = vec![];
        for id in 1..=k {
            roles.push(m.get_node_metadata(id).await.map(|md| role_code(&md.role)));
        }
        Obs { nodes, active, roles }
    })
}

/// An empty manager: the constructor refuses an empty configuration, so build one voter and remove it.
fn empty_manager() -> ClusterManager {
    let mut c = ClusterConfig::new("c33".to_string(), 1);
    c.add_node(1, "a1".to_string(), true);
    let m = ClusterManager::new(c).expect("ClusterManager::new");
    block(m.remove_node(1)).expect("remove_node");
    m
}

fn run_op(m: &ClusterManager, op: &Op) -> Result<(), String> {
    block(async {
        match op {
            Op::AddVoter(i) => m.add_node(*i, format!("a{i}"), true).await.map_err(|e| e.to_string()),
            Op::AddLearner(i) => m.add_node(*i, format!("a{i}"), false).await.map_err(|e| e.to_string()),
            Op::Remove(i) => m.remove_node(*i).await.map_err(|e| e.to_string()),
            Op::MarkActive(i) => {
                m.mark_active(*i).await;
                Ok(())
            }
            Op::MarkInactive(i) => {
                m.mark_inactive(*i).await;
                Ok(())
            }
            Op::RoleLeader(i) => {
                m.update_node_role(*i, NodeRole::Leader).await;
                Ok(())
            }
            Op::RoleFollower(i) => {
                m.update_node_role(*i, NodeRole::Follower).await;
                Ok(())
            }
        }
    })
}

/// The property's invariant on one observed state. Returns (signature, message) if broken.
fn judge(o: &Obs, healthy: bool) -> Option<(String, String)> {
    if !healthy {
        return None;
    }
    let v = o.voters();
    let av = o.active.iter().filter(|a| v.contains(a)).count();
    let region = if o.has_dup() { "id-listed-more-than-once" } else { "ids-listed-once" };
    if !o.leader_known() {
        return Some((format!("{region}:healthy-without-leader"), format!("healthy although no node has role Leader; state {o:?}")));
    }
    if 2 * av <= v.len() {
        return Some((
            format!("{region}:healthy-without-majority-of-distinct-voters"),
            format!("healthy with {av} active of {} distinct voters {v:?}; config entries {:?}, active {:?}", v.len(), o.nodes, o.active),
        ));
    }
    None
}

impl Model for M {
    type Op = Op;
    type State = St;
    type Key = Obs;
    fn init(&self) -> St {
        St { m: empty_manager(), hist_len: 0, refm: BTreeMap::new() }
    }
    fn ops(&self, _st: &St) -> Vec<Op> {
        let mut v = vec![];
        for i in 1..=self.k {
            v.push(Op::AddVoter(i));
            v.push(Op::AddLearner(i));
        }
        for i in 1..=self.k {
            v.push(Op::Remove(i));
        }
        for i in 1..=self.k {
            v.push(Op::MarkActive(i));
            v.push(Op::MarkInactive(i));
        }
        for i in 1..=self.k {
            v.push(Op::RoleLeader(i));
            v.push(Op::RoleFollower(i));
        }
        v
    }
    fn apply(&self, st: &mut St, op: &Op, check: bool) -> Step {
        let mut vio = vec![];
        st.hist_len += 1;
        let m = &st.m;
        let outcome = match guarded(|| run_op(m, op)) {
            Ok(Ok(())) => "ok".to_string(),
            Ok(Err(e)) => format!("err:{e}"),
            Err(p) => {
                vio.push(("panic".to_string(), format!("{op:?} panicked: {p}")));
                "panic".into()
            }
        };
        if outcome == "ok" {
            ref_apply(&mut st.refm, op);
        }
        if !check {
            return Step { violations: vio, outcome };
        }
        match guarded(|| (observe(m, self.k), block(m.health_status()))) {
            Ok((o, h)) => {
                if let Some(v) = judge(&o, h.healthy) {
                    vio.push(v);
                }
                if let Some(v) = judge_config(&o, &st.refm) {
                    vio.push(v);
                }
                Step { violations: vio, outcome: format!("{outcome}/healthy={}", h.healthy) }
            }
            Err(p) => {
                vio.push(("panic".to_string(), format!("health_status/observation panicked after {op:?}: {p}")));
                Step { violations: vio, outcome }
            }
        }
    }
    fn key(&self, st: &St) -> Obs {
        let o = observe(&st.m, self.k);
        if !self.symmetry {
            return o;
        }
        self.perms.iter().map(|p| o.rename(p)).min().unwrap()
    }
}

fn subset_ids(mask: u32, k: u64) -> Vec<u64> {
    (1..=k).filter(|i| mask & (1 << (i - 1)) != 0).collect()
}

/// All active subsets on one manager (already holding the configuration and a leader, if it can have one).
/// Returns (subsets evaluated, healthy subsets, pairs intersected, violations).
fn all_active_subsets(m: &ClusterManager, k: u64, vio: &mut Vec<(String, String)>) -> (u64, u64, u64) {
    let mut healthy_sets: Vec<(u32, BTreeSet<u64>)> = vec![];
    let mut evals = 0;
    let mut voters = BTreeSet::new();
    let mut dup = false;
    for mask in 0..(1u32 << k) {
        let a = subset_ids(mask, k);
        let r = guarded(|| {
            block(async {
                for id in 1..=k {
                    if a.contains(&id) {
                        m.mark_active(id).await;
                    } else {
                        m.mark_inactive(id).await;
                    }
                }
                m.health_status().await
            })
        });
        evals += 1;
        let h = match r {
            Ok(h) => h,
            Err(p) => {
                vio.push(("panic".into(), format!("health_status panicked: {p}")));
                continue;
            }
        };
        let o = observe(m, k);
        voters = o.voters();
        dup = o.has_dup();
        if let Some(v) = judge(&o, h.healthy) {
            vio.push(v);
        }
        if h.healthy {
            healthy_sets.push((mask, a.iter().copied().filter(|i| voters.contains(i)).collect()));
        }
    }
    let mut pairs = 0;
    for x in 0..healthy_sets.len() {
        for y in x..healthy_sets.len() {
            pairs += 1;
            if healthy_sets[x].1.intersection(&healthy_sets[y].1).next().is_none() {
                let region = if dup { "id-listed-more-than-once" } else { "ids-listed-once" };
                vio.push((
                    format!("{region}:two-healthy-active-sets-share-no-voter"),
                    format!("active sets {:?} and {:?} are both reported healthy but share no voter (distinct voters {voters:?})", subset_ids(healthy_sets[x].0, k), subset_ids(healthy_sets[y].0, k)),
                ));
            }
        }
    }
    (evals, healthy_sets.len() as u64, pairs)
}

fn main() {
    run_check("C33", Level::ModelChecking, |ctx| {
        let (k, depth, symmetry) = match ctx.tier {
            Tier::Quick => (3u64, 6usize, false),
            Tier::Thorough => (5u64, 9usize, true),
        };
        let m = Arc::new(M { k, symmetry, perms: permutations(k as usize) });
        if let Some(p) = &ctx.replay {
            replay(ctx, &m, p);
            return;
        }
        // ---- phase 1: hx over the manager API
        // first history reaching each distinct configuration (multiset of config entries), for phase 2
        let mut configs: BTreeMap<Vec<(u64, bool)>, Vec<Op>> = BTreeMap::new();
        let stats = hx::explore(&*m, depth, 50_000_000, |v| {
            ctx.violation(&v.sig, v.msg, json!({"kind": "history", "history": v.history.iter().map(|o| format!("{:?}", o)).collect::<Vec<_>>()}));
        });
        hx::report(ctx, &stats, &format!("add_node(id,voter) add_node(id,learner) remove_node(id) mark_active(id) mark_inactive(id) update_node_role(id,Leader) update_node_role(id,Follower); ids 1..={k}; start: empty manager; symmetry reduction on ids: {symmetry}"));
        let c = sr::run(m.clone(), depth);
        ctx.cov("stateright", json!({"unique_states": c.unique_states, "transitions": c.transitions, "pruned_after_violation": c.pruned, "max_depth": c.max_depth, "checker": "stateright 0.31 spawn_bfs, 1 thread, target_max_depth = depth+1"}));
        ctx.cov("engine_cross_check", json!({"hx_states": stats.states, "stateright_states": c.unique_states, "hx_transitions": stats.transitions, "stateright_transitions": c.transitions, "equal": stats.states == c.unique_states && stats.transitions == c.transitions}));
        println!("hx: states={} transitions={} pruned={} | stateright: states={} transitions={} pruned={}", stats.states, stats.transitions, stats.pruned_after_violation, c.unique_states, c.transitions, c.pruned);
        if stats.states != c.unique_states || stats.transitions != c.transitions || stats.pruned_after_violation != c.pruned {
            ctx.machinery(&format!(
                "engine cross-check failed: hx states={} transitions={} pruned={}, stateright states={} transitions={} pruned={}",
                stats.states, stats.transitions, stats.pruned_after_violation, c.unique_states, c.transitions, c.pruned
            ));
        }
        // ---- phase 2: every configuration reachable by <= depth membership operations x every active subset
        // (membership operations only: the configuration does not depend on the others)
        let member_ops: Vec<Op> = (1..=k).flat_map(|i| [Op::AddVoter(i), Op::AddLearner(i), Op::Remove(i)]).collect();
        let cfg_depth = match ctx.tier {
            Tier::Quick => 4,
            Tier::Thorough => 5,
        };
        let mut frontier: Vec<Vec<Op>> = vec![vec![]];
        configs.insert(vec![], vec![]);
        for _ in 0..cfg_depth {
            let mut next = vec![];
            for h in &frontier {
                for op in &member_ops {
                    let mut h2 = h.clone();
                    h2.push(op.clone());
                    let mg = empty_manager();
                    let mut refm = BTreeMap::new();
                    for o in &h2 {
                        if matches!(guarded(|| run_op(&mg, o)), Ok(Ok(()))) {
                            ref_apply(&mut refm, o);
                        }
                    }
                    let obs = observe(&mg, k);
                    if let Some((sig, msg)) = judge_config(&obs, &refm) {
                        ctx.violation(&sig, msg, json!({"kind": "membership-history", "history": h2.iter().map(|o| format!("{:?}", o)).collect::<Vec<_>>()}));
                    }
                    let nodes = obs.nodes;
                    if !configs.contains_key(&nodes) {
                        configs.insert(nodes, h2.clone());
                        next.push(h2);
                    }
                }
            }
            frontier = next;
        }
        let (mut sub_evals, mut healthy_n, mut pairs_n) = (0u64, 0u64, 0u64);
        for (nodes, h) in &configs {
            // a leader must be known for anything to be healthy: every listed id in turn
            let ids: BTreeSet<u64> = nodes.iter().map(|n| n.0).collect();
            for leader in ids {
                let mg = empty_manager();
                for o in h {
                    let _ = guarded(|| run_op(&mg, o));
                }
                let _ = guarded(|| run_op(&mg, &Op::RoleLeader(leader)));
                let mut vio = vec![];
                let (e, hn, p) = all_active_subsets(&mg, k, &mut vio);
                sub_evals += e;
                healthy_n += hn;
                pairs_n += p;
                for (sig, msg) in vio {
                    let mut hist: Vec<String> = h.iter().map(|o| format!("{:?}", o)).collect();
                    hist.push(format!("{:?}", Op::RoleLeader(leader)));
                    ctx.violation(&sig, msg, json!({"kind": "config-x-active-subsets", "history": hist}));
                }
            }
        }
        ctx.cov("phase2_active_subsets", json!({"configurations": configs.len(), "membership_depth": cfg_depth, "subset_evaluations": sub_evals, "healthy_subsets": healthy_n, "healthy_pairs_intersected": pairs_n}));
        // ---- phase 3: the constructor path (ClusterConfig::add_node repeated, then ClusterManager::new)
        let n_max = match ctx.tier {
            Tier::Quick => 3,
            Tier::Thorough => 4,
        };
        let (mut c_evals, mut c_built, mut c_sub, mut c_pairs) = (0u64, 0u64, 0u64, 0u64);
        // `direct` = the entries are pushed into the public `nodes` field (what a deserialized or
        // hand-built configuration looks like) instead of going through ClusterConfig::add_node
        for direct in [false, true] {
            for n in 1..=n_max {
                for seq in sequences(2 * k as usize, n) {
                    c_evals += 1;
                    let adds: Vec<(u64, bool)> = seq.iter().map(|x| ((x / 2) as u64 + 1, x % 2 == 0)).collect();
                    let mut cfg = ClusterConfig::new("c33".into(), 1);
                    for (id, voter) in &adds {
                        if direct {
                            cfg.nodes.push(NodeConfig { id: *id, address: format!("a{id}"), voter: *voter });
                        } else {
                            cfg.add_node(*id, format!("a{id}"), *voter);
                        }
                    }
                    let wit = json!({"kind": "constructor", "adds": adds, "leader": adds[0].0, "direct": direct});
                    let mg = match guarded(|| ClusterManager::new(cfg)) {
                        Ok(Ok(mg)) => mg,
                        Ok(Err(_)) => continue, // refused configuration (no voter)
                        Err(p) => {
                            ctx.violation("panic", format!("ClusterManager::new panicked: {p}"), wit);
                            continue;
                        }
                    };
                    c_built += 1;
                    let _ = guarded(|| run_op(&mg, &Op::RoleLeader(adds[0].0)));
                    let mut vio = vec![];
                    let (e, _, p) = all_active_subsets(&mg, k, &mut vio);
                    c_sub += e;
                    c_pairs += p;
                    for (sig, msg) in vio {
                        ctx.violation(&sig, msg, wit.clone());
                    }
                }
            }
        }
        ctx.cov("phase3_constructor", json!({"entry_sequences_x2_paths(add_node, direct nodes.push)": c_evals, "max_len": n_max, "managers_built": c_built, "subset_evaluations": c_sub, "healthy_pairs_intersected": c_pairs}));
        ctx.assume("distinct voters = ids with at least one voter entry in the manager's own get_config(); active set = get_active_nodes(); leader known = some id listed in get_config() has get_node_metadata(id).role == Leader (the role record of a removed node does not count)");
        ctx.assume("only the stated direction is demanded (healthy => leader known and strict majority of distinct voters active); the reported counters are not judged");
        ctx.assume("NOT claimed: the all-sizes lemma that any two strict majorities of a finite set intersect (a proof obligation outside this technique); the check establishes the premise on the real code for <= 5 ids and intersects all pairs of healthy active sets directly for every configuration reached");
        ctx.note("dedup key = the manager's full observable state relevant to health (config entries as a multiset, active set, role per id); address strings, heartbeat timestamps and the reachable flag cannot influence health_status and are dropped");
    });
}

fn replay(ctx: &svmc::Ctx, m: &M, p: &std::path::Path) {
    let doc: serde_json::Value = serde_json::from_str(&std::fs::read_to_string(p).expect("read replay")).expect("json");
    let w = &doc["witness"];
    let k = m.k;
    let mg;
    if w["kind"] == "constructor" {
        let mut cfg = ClusterConfig::new("c33".into(), 1);
        for a in w["adds"].as_array().unwrap() {
            let id = a[0].as_u64().unwrap();
            if w["direct"] == true {
                cfg.nodes.push(NodeConfig { id, address: format!("a{id}"), voter: a[1].as_bool().unwrap() });
                println!("config.nodes.push(id {id}, voter={})", a[1]);
            } else {
                cfg.add_node(id, format!("a{id}"), a[1].as_bool().unwrap());
                println!("ClusterConfig::add_node({id}, voter={})", a[1]);
            }
        }
        mg = ClusterManager::new(cfg).expect("new");
        let _ = run_op(&mg, &Op::RoleLeader(w["leader"].as_u64().unwrap()));
    } else {
        mg = empty_manager();
        let all = m.ops(&St { m: empty_manager(), hist_len: 0, refm: BTreeMap::new() });
        for (i, want) in w["history"].as_array().unwrap().iter().enumerate() {
            let want = want.as_str().unwrap();
            let op = all.iter().find(|o| format!("{:?}", o) == want).unwrap_or_else(|| ctx.machinery(&format!("replay: unknown op {want}")));
            let r = run_op(&mg, op);
            let o = observe(&mg, k);
            let h = block(mg.health_status());
            println!("step {i}: {want} -> {r:?}; config {:?} active {:?} roles {:?}; health_status: healthy={} active_voters={} total_voters={} has_leader={}", o.nodes, o.active, o.roles, h.healthy, h.active_voters, h.total_voters, h.has_leader);
            if let Some((sig, msg)) = judge(&o, h.healthy) {
                println!("  MISMATCH [{sig}] expected: not healthy; observed: {msg}");
                ctx.violation(&sig, msg, w.clone());
            }
        }
        if w["kind"] == "history" {
            return;
        }
    }
    let mut vio = vec![];
    let (e, hn, pn) = all_active_subsets(&mg, k, &mut vio);
    println!("all {e} active subsets: {hn} reported healthy, {pn} pairs intersected");
    for (sig, msg) in vio {
        println!("  MISMATCH [{sig}] {msg}");
        ctx.violation(&sig, msg, w.clone());
    }
}
