//! stateright as a second, independent engine over the same `hx::Model` (used by C31 and C33).
//!
//! A stateright state is (canonical key, a history reaching it); identity (Eq/Hash, hence
//! stateright's fingerprint) is the key alone. `next_state` rebuilds the REAL subject from the
//! history, applies the operation to subject and reference with all comparisons switched on, and
//! returns no successor for a violating transition — the same pruning rule as `hx`. Run with one
//! thread stateright's BFS is a strict FIFO search, so with a depth bound its unique-state and
//! transition counts must equal those of `hx::explore`.
use stateright::{Checker, Model as SrModel, Property};
use std::fmt::Debug;
use std::hash::{Hash, Hasher};
use std::sync::atomic::{AtomicU64, Ordering};
use std::sync::Arc;
use svmc::engine::hx;

pub struct SrState<M: hx::Model> {
    pub key: M::Key,
    pub hist: Vec<M::Op>,
}
impl<M: hx::Model> Clone for SrState<M>
where
    M::Key: Clone,
{
    fn clone(&self) -> Self {
        SrState { key: self.key.clone(), hist: self.hist.clone() }
    }
}
impl<M: hx::Model> PartialEq for SrState<M> {
    fn eq(&self, o: &Self) -> bool {
        self.key == o.key
    }
}
impl<M: hx::Model> Hash for SrState<M> {
    fn hash<H: Hasher>(&self, h: &mut H) {
        self.key.hash(h)
    }
}
impl<M: hx::Model> Debug for SrState<M>
where
    M::Key: Debug,
{
    fn fmt(&self, f: &mut std::fmt::Formatter<'_>) -> std::fmt::Result {
        write!(f, "{:?} via {:?}", self.key, self.hist)
    }
}

pub struct Adapter<M: hx::Model> {
    pub m: Arc<M>,
    pub pruned: Arc<AtomicU64>,
}

impl<M> SrModel for Adapter<M>
where
    M: hx::Model + Send + Sync + 'static,
    M::Key: Clone + Debug + Sync + 'static,
    M::Op: PartialEq + 'static,
{
    type State = SrState<M>;
    type Action = M::Op;
    fn init_states(&self) -> Vec<Self::State> {
        vec![SrState { key: self.m.key(&self.m.init()), hist: vec![] }]
    }
    fn actions(&self, state: &Self::State, actions: &mut Vec<Self::Action>) {
        let st = hx::rebuild(&*self.m, &state.hist);
        actions.extend(self.m.ops(&st));
    }
    fn next_state(&self, last: &Self::State, action: Self::Action) -> Option<Self::State> {
        let mut st = hx::rebuild(&*self.m, &last.hist);
        let step = self.m.apply(&mut st, &action, true);
        if !step.violations.is_empty() {
            self.pruned.fetch_add(1, Ordering::Relaxed);
            return None;
        }
        let mut hist = last.hist.clone();
        hist.push(action);
        Some(SrState { key: self.m.key(&st), hist })
    }
    fn properties(&self) -> Vec<Property<Self>> {
        // stateright stops expanding when no property is awaiting a discovery: keep one that never fires
        vec![Property::always("explore", |_, _| true)]
    }
}

pub struct Counts {
    pub unique_states: u64,
    pub transitions: u64,
    pub pruned: u64,
    pub max_depth: u64,
}

/// Explore to `depth` operations (hx depth) under stateright's BFS checker.
pub fn run<M>(m: Arc<M>, depth: usize) -> Counts
where
    M: hx::Model + Send + Sync + 'static,
    M::Key: Clone + Debug + Sync + 'static,
    M::Op: PartialEq + 'static,
{
    let pruned = Arc::new(AtomicU64::new(0));
    // stateright numbers the initial state depth 1 and does not expand states at the target depth
    let checker = Adapter { m, pruned: pruned.clone() }.checker().threads(1).target_max_depth(depth + 1).spawn_bfs().join();
    let p = pruned.load(Ordering::Relaxed);
    Counts {
        unique_states: checker.unique_state_count() as u64,
        // state_count = initial states + every generated successor (duplicates included)
        transitions: checker.state_count() as u64 - 1 + p,
        pruned: p,
        max_depth: checker.max_depth() as u64 - 1,
    }
}
