//! C31 — Raft log storage keeps one entry per index and never loses the tail.
//! hx over the REAL `RaftStorage` (async API on a current-thread tokio runtime) against a
//! reference Raft log; the same model is explored a second time under stateright's BFS
//! checker and the two engines' state / transition counts must agree.
mod sr;

use samyama::raft::storage::{LogEntry, RaftStorage};
use serde_json::json;
use std::sync::Arc;
use svmc::engine::ctx::guarded;
use svmc::engine::hx::{self, Model, Step};
use svmc::{run_check, Level, Tier};

const MAX_INDEX: u64 = 5;
const MAX_TERM: u64 = 3;

thread_local! {
    static RT: tokio::runtime::Runtime = tokio::runtime::Builder::new_current_thread().build().expect("tokio runtime");
}
fn block<F: std::future::Future>(f: F) -> F::Output {
    RT.with(|rt| rt.block_on(f))
}

#[derive(Clone, Debug, PartialEq, Eq, Hash, PartialOrd, Ord)]
enum Op {
    /// append_entries([(index, term)])
    Append(u64, u64),
    /// append_entries([(index, t1), (index+1, t2)])
    Append2(u64, u64, u64),
    /// append_entries([(index, t1), (index, t2)]), t1 != t2: one batch that names an index twice
    /// (the second entry is an append at an index that exists by then, so it replaces the first)
    AppendDup(u64, u64, u64),
    DeleteFrom(u64),
    Snapshot(u64, u64),
}

/// Reference: a Raft log as (index, term) pairs in ascending index order + last snapshot.
#[derive(Clone, Debug, PartialEq, Eq, Hash, Default)]
struct Ref {
    log: Vec<(u64, u64)>,
    snap: Option<(u64, u64)>,
}
impl Ref {
    fn last(&self) -> (u64, u64) {
        self.log.last().copied().or(self.snap).unwrap_or((0, 0))
    }
    /// The property's rule: an append at index i replaces the entry at i and every later one.
    fn append_replace(&mut self, es: &[(u64, u64)]) {
        for &(i, t) in es {
            self.log.retain(|e| e.0 < i);
            self.log.push((i, t));
        }
    }
    /// Raft's AppendEntries rule proper: an entry already present with the same term is the same
    /// entry and is skipped (later entries stay); a conflicting one is deleted with all that follow.
    fn append_raft(&mut self, es: &[(u64, u64)]) {
        for &(i, t) in es {
            match self.log.iter().find(|e| e.0 == i) {
                Some(e) if e.1 == t => {}
                _ => {
                    self.log.retain(|e| e.0 < i);
                    self.log.push((i, t));
                }
            }
        }
    }
}

struct St {
    s: RaftStorage,
    r: Ref,
}

struct M {
    dir: String,
}

fn entry(i: u64, t: u64) -> LogEntry {
    LogEntry { index: i, term: t, data: vec![t as u8, i as u8] }
}
fn entries_of(op: &Op) -> Vec<(u64, u64)> {
    match op {
        Op::Append(i, t) => vec![(*i, *t)],
        Op::Append2(i, t1, t2) => vec![(*i, *t1), (*i + 1, *t2)],
        Op::AppendDup(i, t1, t2) => vec![(*i, *t1), (*i, *t2)],
        _ => vec![],
    }
}

impl Model for M {
    type Op = Op;
    type State = St;
    type Key = Ref;
    fn init(&self) -> St {
        St { s: RaftStorage::new(&self.dir).expect("RaftStorage::new"), r: Ref::default() }
    }
    fn ops(&self, st: &St) -> Vec<Op> {
        let r = &st.r;
        let snap_i = r.snap.map(|s| s.0).unwrap_or(0);
        let last = r.last().0;
        let mut v = vec![];
        // appends the storage can legally be handed: at an index it still holds or at last+1
        for i in 1..=MAX_INDEX {
            if i > snap_i && i <= last + 1 {
                for t in 1..=MAX_TERM {
                    v.push(Op::Append(i, t));
                }
            }
        }
        for i in 1..MAX_INDEX {
            if i > snap_i && i <= last + 1 {
                for t1 in 1..=MAX_TERM {
                    for t2 in 1..=MAX_TERM {
                        v.push(Op::Append2(i, t1, t2));
                    }
                }
            }
        }
        for i in 1..=MAX_INDEX {
            if i > snap_i && i <= last + 1 {
                for t1 in 1..=MAX_TERM {
                    for t2 in 1..=MAX_TERM {
                        if t1 != t2 {
                            v.push(Op::AppendDup(i, t1, t2));
                        }
                    }
                }
            }
        }
        for i in 1..=MAX_INDEX {
            v.push(Op::DeleteFrom(i));
        }
        // a snapshot at any index: above the current one, the same index again, or a stale one
        // below it ("a snapshot at index i removes only entries at or below i" whatever i is)
        for i in 1..=MAX_INDEX {
            for t in 1..=MAX_TERM {
                v.push(Op::Snapshot(i, t));
            }
        }
        v
    }
    fn apply(&self, st: &mut St, op: &Op, check: bool) -> Step {
        let mut vio: Vec<(String, String)> = vec![];
        let before = st.r.clone();
        // admissible reference post-states, and the region of the case
        let (cands, region): (Vec<Ref>, &str) = match op {
            Op::Append(..) | Op::Append2(..) | Op::AppendDup(..) => {
                let es = entries_of(op);
                let over = before.log.iter().any(|e| e.0 >= es[0].0);
                let mut b = before.clone();
                b.append_replace(&es);
                let mut a = before.clone();
                a.append_raft(&es);
                (if a == b { vec![b] } else { vec![b, a] }, if over { "append-at-existing-index" } else { "append-at-end" })
            }
            Op::DeleteFrom(i) => {
                let mut b = before.clone();
                b.log.retain(|e| e.0 < *i);
                (vec![b], "delete_entries_from")
            }
            Op::Snapshot(i, t) => {
                let tail = before.log.iter().any(|e| e.0 > *i);
                // "removes only entries at or below i": compacting the covered prefix is the point of a
                // snapshot, but a storage that keeps some or all of it removes nothing it must not.
                // Admissible: every entry above i stays; any sub-sequence of the entries <= i may stay.
                // b = everything <= i compacted; k = whatever of the prefix the implementation kept.
                let mut b = before.clone();
                b.snap = Some((*i, *t));
                b.log.retain(|e| e.0 > *i);
                let mut k = before.clone();
                k.snap = Some((*i, *t));
                (if k == b { vec![b] } else { vec![b, k] }, if tail { "snapshot-below-log-end" } else { "snapshot-at-or-past-log-end" })
            }
        };
        let s = &st.s;
        let res = guarded(|| {
            block(async {
                match op {
                    Op::Append(..) | Op::Append2(..) | Op::AppendDup(..) => s.append_entries(entries_of(op).into_iter().map(|(i, t)| entry(i, t)).collect()).await,
                    Op::DeleteFrom(i) => s.delete_entries_from(*i).await,
                    Op::Snapshot(i, t) => s.create_snapshot(*i, *t, vec![]).await,
                }
            })
        });
        let outcome = match res {
            Ok(Ok(())) => format!("ok:{region}:log-len-before={}", before.log.len()),
            Ok(Err(e)) => {
                vio.push((format!("{region}:refused"), format!("{op:?} returned Err({e})")));
                "err".into()
            }
            Err(p) => {
                vio.push((format!("{region}:panic"), format!("{op:?} panicked: {p}")));
                "panic".into()
            }
        };
        // the reference follows whichever admissible post-state the implementation chose
        let seen: Vec<(u64, u64)> = guarded(|| block(s.get_entries(0, u64::MAX))).map(|v| v.iter().map(|e| (e.index, e.term)).collect()).unwrap_or_default();
        let mut cands = cands;
        if let Op::Snapshot(i, _) = op {
            // the kept-prefix candidate: entries <= i the implementation still shows (if they were there before), all entries > i
            if let Some(k) = cands.get_mut(1) {
                k.log.retain(|e| e.0 > *i || seen.contains(e));
            }
        }
        // no admissible post-state matches: judge against the one closest to what the implementation did
        let fallback = if matches!(op, Op::Snapshot(..)) { cands.last().unwrap() } else { &cands[0] };
        st.r = cands.iter().find(|c| c.log == seen).unwrap_or(fallback).clone();
        if check {
            compare(s, &st.r, region, &mut vio);
        }
        Step { violations: vio, outcome }
    }
    fn key(&self, st: &St) -> Ref {
        st.r.clone()
    }
}

fn compare(s: &RaftStorage, r: &Ref, region: &str, vio: &mut Vec<(String, String)>) {
    let obs = guarded(|| {
        block(async {
            let mut get = vec![];
            for i in 0..=MAX_INDEX + 1 {
                get.push(s.get_entry(i).await.map(|e| (e.index, e.term, e.data)));
            }
            let mut ranges = vec![];
            for a in 0..=MAX_INDEX + 2 {
                for b in a..=MAX_INDEX + 2 {
                    ranges.push((a, b, s.get_entries(a, b).await.iter().map(|e| (e.index, e.term)).collect::<Vec<_>>()));
                }
            }
            let all: Vec<u64> = s.get_entries(0, u64::MAX).await.iter().map(|e| e.index).collect();
            (get, ranges, all, s.get_last_log_index_term().await, s.get_snapshot_metadata().await)
        })
    });
    let (get, ranges, all, last, snap) = match obs {
        Ok(o) => o,
        Err(p) => {
            vio.push((format!("{region}:read-panic"), format!("a read call panicked: {p}")));
            return;
        }
    };
    let mut sorted = all.clone();
    sorted.sort();
    if sorted.windows(2).any(|w| w[0] == w[1]) {
        vio.push((format!("{region}:two-entries-share-an-index"), format!("log holds indices {all:?}; reference {:?}", r.log)));
    }
    for (i, g) in get.iter().enumerate() {
        let i = i as u64;
        let want = r.log.iter().find(|e| e.0 == i).map(|e| (e.0, e.1, vec![e.1 as u8, e.0 as u8]));
        if *g != want {
            vio.push((format!("{region}:get_entry"), format!("get_entry({i}) = {g:?}, reference {want:?} (reference log {:?})", r.log)));
        }
    }
    for (a, b, got) in &ranges {
        let want: Vec<(u64, u64)> = r.log.iter().filter(|e| e.0 >= *a && e.0 < *b).copied().collect();
        if *got != want {
            let mut gs = got.clone();
            gs.sort();
            let view = if gs == want { "get_entries-order" } else { "get_entries" };
            vio.push((format!("{region}:{view}"), format!("get_entries({a},{b}) = {got:?}, reference {want:?}")));
        }
    }
    if last != r.last() {
        vio.push((format!("{region}:last_index_term"), format!("get_last_log_index_term() = {last:?}, reference {:?} (log {:?}, snapshot {:?})", r.last(), r.log, r.snap)));
    }
    if snap != r.snap {
        vio.push((format!("{region}:snapshot_metadata"), format!("get_snapshot_metadata() = {snap:?}, reference {:?}", r.snap)));
    }
}

fn main() {
    run_check("C31", Level::ModelChecking, |ctx| {
        let dir = format!("/verif/target/tmp/c31-{}", std::process::id());
        std::fs::create_dir_all(&dir).expect("tmp dir");
        let m = Arc::new(M { dir: dir.clone() });
        if let Some(p) = &ctx.replay {
            replay(ctx, &m, p);
            let _ = std::fs::remove_dir_all(&dir);
            return;
        }
        let depth = match ctx.tier {
            Tier::Quick => 4,
            Tier::Thorough => 6,
        };
        let stats = hx::explore(&*m, depth, 50_000_000, |v| {
            ctx.violation(&v.sig, v.msg, json!({"history": v.history.iter().map(|o| format!("{:?}", o)).collect::<Vec<_>>()}));
        });
        hx::report(
            ctx,
            &stats,
            "append_entries([(i,t)]) and append_entries([(i,t1),(i+1,t2)]) and append_entries([(i,t1),(i,t2)]) (t1 != t2, one batch naming an index twice) for snapshot_index < i <= last_index+1; delete_entries_from(i); create_snapshot(i,t) for i > snapshot_index; i in 1..=5, t in 1..=3",
        );
        // engine cross-check under stateright's BFS
        let c = sr::run(m.clone(), depth);
        ctx.cov("stateright", json!({"unique_states": c.unique_states, "transitions": c.transitions, "pruned_after_violation": c.pruned, "max_depth": c.max_depth, "checker": "stateright 0.31 spawn_bfs, 1 thread, target_max_depth = depth+1"}));
        ctx.cov("engine_cross_check", json!({"hx_states": stats.states, "stateright_states": c.unique_states, "hx_transitions": stats.transitions, "stateright_transitions": c.transitions, "equal": stats.states == c.unique_states && stats.transitions == c.transitions}));
        println!("hx: states={} transitions={} pruned={} | stateright: states={} transitions={} pruned={}", stats.states, stats.transitions, stats.pruned_after_violation, c.unique_states, c.transitions, c.pruned);
        let _ = std::fs::remove_dir_all(&dir);
        if stats.states != c.unique_states || stats.transitions != c.transitions || stats.pruned_after_violation != c.pruned {
            ctx.machinery(&format!(
                "engine cross-check failed: hx states={} transitions={} pruned={}, stateright states={} transitions={} pruned={}",
                stats.states, stats.transitions, stats.pruned_after_violation, c.unique_states, c.transitions, c.pruned
            ));
        }
        ctx.assume("appends are generated only at indices the log still holds or at last_index+1 (and above the snapshot index): what a storage should do with an append that leaves a gap or lies inside the snapshot is not stated by the property");
        ctx.assume("an append at an index that already holds an entry of the SAME term may either truncate the later entries (the property's wording) or keep them (Raft's AppendEntries rule); both are accepted and the reference follows the implementation's choice");
        ctx.assume("create_snapshot(i) may compact the entries at or below i or keep any of them (the property only forbids removing anything above i); all accepted, the reference follows the implementation");
        ctx.assume("snapshots are generated with strictly increasing index; entry terms are not required to be monotone (the storage does not look at them)");
        ctx.assume("reference: Vec of (index, term) ascending + last snapshot; nothing of the implementation is kept in the dedup key");
    });
}

fn replay(ctx: &svmc::Ctx, m: &M, p: &std::path::Path) {
    let doc: serde_json::Value = serde_json::from_str(&std::fs::read_to_string(p).expect("read replay")).expect("json");
    let hist: Vec<String> = doc["witness"]["history"].as_array().unwrap().iter().map(|s| s.as_str().unwrap().to_string()).collect();
    let mut st = m.init();
    for (i, want) in hist.iter().enumerate() {
        let ops = m.ops(&st);
        let op = ops.iter().find(|o| &format!("{:?}", o) == want).unwrap_or_else(|| ctx.machinery(&format!("replay: op {want} not enabled at step {i}")));
        let step = m.apply(&mut st, op, true);
        let seen: Vec<(u64, u64)> = block(st.s.get_entries(0, u64::MAX)).iter().map(|e| (e.index, e.term)).collect();
        println!("step {i}: {want} -> {}; expected log {:?} snapshot {:?} last {:?}; observed log {:?} snapshot {:?} last {:?}", step.outcome, st.r.log, st.r.snap, st.r.last(), seen, block(st.s.get_snapshot_metadata()), block(st.s.get_last_log_index_term()));
        for (sig, msg) in step.violations {
            println!("  MISMATCH [{sig}] {msg}");
            ctx.violation(&sig, msg, json!({"history": hist[..=i]}));
        }
    }
}
