//! C02 — query results do not depend on indexes, storage tier, planner mode,
//! parallel-filter threshold or process (DESIGN §C02).
//!
//! Explicit-state exploration of GraphStore write histories (hx-style BFS with
//! canonical-state dedup, on the real store); on every newly reached state a fixed
//! query set runs under the configuration cross product and all result bags must be
//! equal. The threshold / process dimension runs the whole exploration in two
//! worker children (env is process-global) whose per-state digests the parent compares.
use rayon::prelude::*;
use samyama::graph::{EdgeId, EdgeType, GraphStore, Label, NodeId, PropertyMap, PropertyValue};
use samyama::query::executor::planner::{PlannerConfig, QueryPlanner};
use samyama::query::{parse_query, MutQueryExecutor, Query, QueryExecutor, RecordBatch, Value};
use serde_json::{json, Value as J};
use std::collections::{BTreeMap, BTreeSet, HashMap, HashSet};
use std::hash::{Hash, Hasher};
use svmc::engine::ctx::guarded;
use svmc::engine::hx;
use svmc::engine::subproc;
use svmc::{run_check, Ctx, Level};

const LABELS: [&str; 2] = ["A", "B"];
const TYPES: [&str; 2] = ["R", "S"];
const NVALS: u8 = 4;

fn pval(v: u8) -> PropertyValue {
    match v {
        0 => PropertyValue::Integer(1),
        1 => PropertyValue::Float(1.0),
        2 => PropertyValue::Integer(2),
        _ => PropertyValue::String("x".into()),
    }
}
fn pval_name(v: u8) -> &'static str {
    match v {
        0 => "1",
        1 => "1.0",
        2 => "2",
        _ => "'x'",
    }
}
fn lab(i: u8) -> Label {
    Label::new(LABELS[i as usize])
}
fn ety(i: u8) -> EdgeType {
    EdgeType::new(TYPES[i as usize])
}

// ---------------------------------------------------------------- operations

#[derive(Clone, Debug, PartialEq, Eq, Hash, PartialOrd, Ord)]
enum Op {
    CreateNode(u8, u8),
    SetProp(u64, u8),
    RemoveProp(u64),
    AddLabel(u64, u8),
    RemoveLabel(u64, u8),
    CreateEdge(u64, u64, u8),
    DeleteEdge(u64),
    DeleteNode(u64),
    Compact,
}
impl Op {
    fn name(&self) -> &'static str {
        match self {
            Op::CreateNode(..) => "create_node",
            Op::SetProp(..) => "set_property",
            Op::RemoveProp(..) => "remove_property",
            Op::AddLabel(..) => "add_label",
            Op::RemoveLabel(..) => "remove_label",
            Op::CreateEdge(..) => "create_edge",
            Op::DeleteEdge(..) => "delete_edge",
            Op::DeleteNode(..) => "delete_node",
            Op::Compact => "compact_adjacency",
        }
    }
    fn show(&self) -> String {
        match self {
            Op::CreateNode(l, v) => format!("create_node(:{} {{p: {}}})", LABELS[*l as usize], pval_name(*v)),
            Op::SetProp(n, v) => format!("set_node_property({n}, p, {})", pval_name(*v)),
            Op::RemoveProp(n) => format!("remove_node_property({n}, p)"),
            Op::AddLabel(n, l) => format!("add_label_to_node({n}, :{})", LABELS[*l as usize]),
            Op::RemoveLabel(n, l) => format!("remove_label_from_node({n}, :{})", LABELS[*l as usize]),
            Op::CreateEdge(s, d, t) => format!("create_edge({s}, {d}, :{})", TYPES[*t as usize]),
            Op::DeleteEdge(e) => format!("delete_edge({e})"),
            Op::DeleteNode(n) => format!("delete_node({n})"),
            Op::Compact => "compact_adjacency()".into(),
        }
    }
    fn to_json(&self) -> J {
        json!(format!("{:?}", self))
    }
}

fn parse_op(s: &str) -> Option<Op> {
    let s = s.trim();
    if s == "Compact" {
        return Some(Op::Compact);
    }
    let (name, rest) = s.split_once('(')?;
    let args: Vec<u64> = rest.trim_end_matches(')').split(',').map(|x| x.trim().parse::<u64>()).collect::<Result<_, _>>().ok()?;
    Some(match (name, args.as_slice()) {
        ("CreateNode", [a, b]) => Op::CreateNode(*a as u8, *b as u8),
        ("SetProp", [a, b]) => Op::SetProp(*a, *b as u8),
        ("RemoveProp", [a]) => Op::RemoveProp(*a),
        ("AddLabel", [a, b]) => Op::AddLabel(*a, *b as u8),
        ("RemoveLabel", [a, b]) => Op::RemoveLabel(*a, *b as u8),
        ("CreateEdge", [a, b, c]) => Op::CreateEdge(*a, *b, *c as u8),
        ("DeleteEdge", [a]) => Op::DeleteEdge(*a),
        ("DeleteNode", [a]) => Op::DeleteNode(*a),
        _ => return None,
    })
}

// ---------------------------------------------------------------- reference model

#[derive(Clone, Debug, PartialEq, Eq, Hash, PartialOrd, Ord)]
struct RNode {
    labels: BTreeSet<u8>,
    p: Option<u8>,
}
#[derive(Clone, Debug, Default)]
struct Ref {
    nodes: BTreeMap<u64, RNode>,
    edges: BTreeMap<u64, (u64, u64, u8)>,
    free_nodes: Vec<u64>,
    free_edges: Vec<u64>,
    next_node: u64,
    next_edge: u64,
    alloc_diverged: bool,
    op_errors: Vec<String>,
}
impl Ref {
    fn new() -> Self {
        Ref { next_node: 1, next_edge: 1, ..Default::default() }
    }
    fn alloc_node(&mut self) -> u64 {
        if let Some(id) = self.free_nodes.pop() {
            id
        } else {
            self.next_node += 1;
            self.next_node - 1
        }
    }
    fn alloc_edge(&mut self) -> u64 {
        if let Some(id) = self.free_edges.pop() {
            id
        } else {
            self.next_edge += 1;
            self.next_edge - 1
        }
    }
    fn del_edge(&mut self, e: u64) {
        if self.edges.remove(&e).is_some() {
            self.free_edges.push(e);
        }
    }
    /// logical graph without relationship ids (they are not comparable across tier variants)
    fn logical(&self) -> (BTreeMap<u64, RNode>, Vec<(u64, u64, u8)>) {
        let mut e: Vec<_> = self.edges.values().cloned().collect();
        e.sort();
        (self.nodes.clone(), e)
    }
}

struct Bounds {
    max_nodes: usize,
    max_edges: usize,
    /// how many of the alphabet's property values the write operations use (1, 1.0, 2, 'x')
    nvals: u8,
}

fn enabled(r: &Ref, b: &Bounds) -> Vec<Op> {
    let mut v = vec![];
    let nvals = b.nvals;
    if r.nodes.len() < b.max_nodes {
        for l in 0..2 {
            for p in 0..nvals {
                v.push(Op::CreateNode(l, p));
            }
        }
    }
    let ids: Vec<u64> = r.nodes.keys().copied().collect();
    for &n in &ids {
        for p in 0..nvals {
            v.push(Op::SetProp(n, p));
        }
        v.push(Op::RemoveProp(n));
        for l in 0..2 {
            v.push(Op::AddLabel(n, l));
            v.push(Op::RemoveLabel(n, l));
        }
    }
    if r.edges.len() < b.max_edges {
        for &s in &ids {
            for &d in &ids {
                for t in 0..2 {
                    v.push(Op::CreateEdge(s, d, t));
                }
            }
        }
    }
    for &e in r.edges.keys() {
        v.push(Op::DeleteEdge(e));
    }
    for &n in &ids {
        v.push(Op::DeleteNode(n));
    }
    v.push(Op::Compact);
    v
}

/// Apply `op` to the store and the reference. Returns outcome label.
fn apply(g: &mut GraphStore, r: &mut Ref, op: &Op, skip_compact: bool) -> &'static str {
    match op {
        Op::CreateNode(l, v) => {
            let want = r.alloc_node();
            let mut pm = PropertyMap::new();
            pm.insert("p".to_string(), pval(*v));
            let id = g.create_node_with_properties("default", vec![lab(*l)], pm).as_u64();
            if id != want {
                r.alloc_diverged = true;
                r.free_nodes.retain(|x| *x != id);
                if id >= r.next_node {
                    r.next_node = id + 1;
                }
            }
            if r.nodes.contains_key(&id) {
                r.op_errors.push(format!("create_node returned live id {id}"));
            }
            r.nodes.insert(id, RNode { labels: [*l].into_iter().collect(), p: Some(*v) });
            "ok"
        }
        Op::SetProp(n, v) => {
            let res = g.set_node_property("default", NodeId::new(*n), "p", pval(*v));
            r.nodes.get_mut(n).unwrap().p = Some(*v);
            if let Err(e) = res {
                r.op_errors.push(format!("set_node_property refused: {e}"));
                return "err";
            }
            "ok"
        }
        Op::RemoveProp(n) => {
            g.remove_node_property(NodeId::new(*n), "p");
            let had = r.nodes.get_mut(n).unwrap().p.take();
            if had.is_some() {
                "removed"
            } else {
                "absent"
            }
        }
        Op::AddLabel(n, l) => {
            let res = g.add_label_to_node("default", NodeId::new(*n), lab(*l));
            let new = r.nodes.get_mut(n).unwrap().labels.insert(*l);
            if let Err(e) = res {
                r.op_errors.push(format!("add_label_to_node refused: {e}"));
                return "err";
            }
            if new {
                "added"
            } else {
                "present"
            }
        }
        Op::RemoveLabel(n, l) => {
            let res = g.remove_label_from_node(NodeId::new(*n), &lab(*l));
            let had = r.nodes.get_mut(n).unwrap().labels.remove(l);
            match res {
                Ok(b) => {
                    if b != had {
                        r.op_errors.push(format!("remove_label_from_node returned {b}, node had label: {had}"));
                    }
                    if had {
                        "removed"
                    } else {
                        "absent"
                    }
                }
                Err(e) => {
                    r.op_errors.push(format!("remove_label_from_node refused: {e}"));
                    "err"
                }
            }
        }
        Op::CreateEdge(s, d, t) => {
            let want = r.alloc_edge();
            match g.create_edge(NodeId::new(*s), NodeId::new(*d), ety(*t)) {
                Ok(e) => {
                    let id = e.as_u64();
                    if id != want {
                        r.alloc_diverged = true;
                        r.free_edges.retain(|x| *x != id);
                        if id >= r.next_edge {
                            r.next_edge = id + 1;
                        }
                    }
                    if r.edges.contains_key(&id) {
                        r.op_errors.push(format!("create_edge returned live id {id}"));
                    }
                    r.edges.insert(id, (*s, *d, *t));
                    "ok"
                }
                Err(e) => {
                    r.op_errors.push(format!("create_edge refused: {e}"));
                    "err"
                }
            }
        }
        Op::DeleteEdge(e) => {
            let res = g.delete_edge(EdgeId::new(*e));
            r.del_edge(*e);
            if let Err(er) = res {
                r.op_errors.push(format!("delete_edge refused: {er}"));
                return "err";
            }
            "ok"
        }
        Op::DeleteNode(n) => {
            // order in which incident relationship ids reach the free list: frozen-out, buffer-out,
            // frozen-in, buffer-in (read from the raw tiers before the call), as delete_node does
            let nid = NodeId::new(*n);
            let mut order: Vec<u64> = vec![];
            order.extend(g.frozen_outgoing_neighbors(*n as usize).iter().map(|x| x.1.as_u64()));
            order.extend(g.get_outgoing_neighbor_slice(nid).iter().map(|x| x.1.as_u64()));
            order.extend(g.frozen_incoming_neighbors(*n as usize).iter().map(|x| x.1.as_u64()));
            order.extend(g.get_incoming_neighbor_slice(nid).iter().map(|x| x.1.as_u64()));
            let res = g.delete_node("default", nid);
            if r.nodes.remove(n).is_some() {
                r.free_nodes.push(*n);
                for e in order {
                    let incident = r.edges.get(&e).map(|x| x.0 == *n || x.1 == *n).unwrap_or(false);
                    if incident {
                        r.del_edge(e);
                    }
                }
                let rest: Vec<u64> = r.edges.iter().filter(|(_, e)| e.0 == *n || e.1 == *n).map(|(k, _)| *k).collect();
                for e in rest {
                    r.edges.remove(&e);
                    r.alloc_diverged = true;
                }
            }
            if let Err(er) = res {
                r.op_errors.push(format!("delete_node refused: {er}"));
                return "err";
            }
            "ok"
        }
        Op::Compact => {
            if !skip_compact {
                g.compact_adjacency();
            }
            "ok"
        }
    }
}

fn run_ddl(g: &mut GraphStore, q: &str) -> Result<(), String> {
    let ast = parse_query(q).map_err(|e| format!("parse: {e}"))?;
    let mut ex = MutQueryExecutor::new(g, "default".to_string());
    ex.execute(&ast).map(|_| ()).map_err(|e| format!("{e}"))
}
fn create_indexes(g: &mut GraphStore) -> Result<(), String> {
    run_ddl(g, "CREATE INDEX ON :A(p)")?;
    run_ddl(g, "CREATE INDEX ON :B(p)")
}

fn build(h: &[Op], index_before: bool, skip_compact: bool) -> (GraphStore, Ref) {
    let mut g = GraphStore::new();
    if index_before {
        create_indexes(&mut g).expect("CREATE INDEX on an empty store");
    }
    let mut r = Ref::new();
    for op in h {
        apply(&mut g, &mut r, op, skip_compact);
    }
    (g, r)
}

// ---------------------------------------------------------------- canonical key

fn probe_index(g: &GraphStore, l: u8) -> String {
    // contents of the :L(p) index restricted to the alphabet's values + everything it holds
    match g.property_index.get_index(&lab(l), "p") {
        None => "-".into(),
        Some(ix) => {
            let ix = ix.read().unwrap();
            let mut s = String::new();
            for v in 0..NVALS {
                let mut ids: Vec<u64> = ix.get(&pval(v)).iter().map(|n| n.as_u64()).collect();
                ids.sort();
                s.push_str(&format!("{}={:?};", pval_name(v), ids));
            }
            let mut all: Vec<u64> = ix.range::<(std::ops::Bound<PropertyValue>, std::ops::Bound<PropertyValue>)>((std::ops::Bound::Unbounded, std::ops::Bound::Unbounded)).iter().map(|n| n.as_u64()).collect();
            all.sort();
            s.push_str(&format!("all={:?}", all));
            s
        }
    }
}

fn pv_key(v: &PropertyValue) -> String {
    format!("{:?}", norm_pv(v))
}

fn store_key(g: &GraphStore, r: &Ref) -> String {
    let mut s = String::new();
    for i in 1..r.next_node {
        let nid = NodeId::new(i);
        s.push_str(&format!(
            "{}:{:?}|{:?}|{:?}|{:?}",
            i,
            g.frozen_outgoing_neighbors(i as usize),
            g.frozen_incoming_neighbors(i as usize),
            g.get_outgoing_neighbor_slice(nid),
            g.get_incoming_neighbor_slice(nid)
        ));
        // row map and column store views of p (reads consult either)
        let row = g.get_node(nid).and_then(|n| n.properties.get("p").map(pv_key));
        let col = pv_key(&g.node_columns.get_property(i as usize, "p"));
        s.push_str(&format!("|row={:?}|col={};", row, col));
    }
    s.push_str(&format!("segs{}", g.adjacency_stats().frozen_segments));
    for l in 0..2 {
        s.push_str(&format!("|cnt{}={}", LABELS[l as usize], g.label_node_count(&lab(l))));
        s.push_str(&format!("|ix{}={}", LABELS[l as usize], probe_index(g, l)));
    }
    for t in 0..2 {
        s.push_str(&format!("|tc{}={}", TYPES[t as usize], g.edge_type_count(&ety(t))));
    }
    let mut cat: Vec<String> = g.catalog().format().lines().map(|x| x.to_string()).collect();
    cat.sort();
    s.push_str(&format!("|cat={:?}", cat));
    s
}

fn state_key(h: &[Op], main: &(GraphStore, Ref), pre: &(GraphStore, Ref)) -> String {
    let r = &main.1;
    if r.alloc_diverged || pre.1.alloc_diverged {
        return format!("H{:?}", h);
    }
    format!(
        "{:?}|{:?}|{:?}|{:?}|{}|{}|M:{}|P:{}",
        r.nodes,
        r.edges,
        r.free_nodes,
        r.free_edges,
        r.next_node,
        r.next_edge,
        store_key(&main.0, r),
        store_key(&pre.0, &pre.1)
    )
}

fn h128(s: &str) -> u128 {
    let mut a = std::collections::hash_map::DefaultHasher::new();
    s.hash(&mut a);
    let mut b = std::collections::hash_map::DefaultHasher::new();
    0xC02u64.hash(&mut b);
    s.hash(&mut b);
    ((a.finish() as u128) << 64) | b.finish() as u128
}

// ---------------------------------------------------------------- logical values

#[derive(Clone, Debug, PartialEq, Eq, PartialOrd, Ord, Hash)]
enum LV {
    Null,
    Bool(bool),
    Int(i64),
    Float(u64),
    Str(String),
    List(Vec<LV>),
    Map(BTreeMap<String, LV>),
    Node(u64),
    Edge(u64),
    Path(Vec<u64>, Vec<u64>),
    Other(String),
}
fn norm_pv(v: &PropertyValue) -> LV {
    match v {
        PropertyValue::Null => LV::Null,
        PropertyValue::Boolean(b) => LV::Bool(*b),
        PropertyValue::Integer(i) => LV::Int(*i),
        PropertyValue::Float(f) => LV::Float(f.to_bits()),
        PropertyValue::String(s) => LV::Str(s.clone()),
        PropertyValue::Array(a) => LV::List(a.iter().map(norm_pv).collect()),
        PropertyValue::Map(m) => LV::Map(m.iter().map(|(k, v)| (k.clone(), norm_pv(v))).collect()),
        other => LV::Other(format!("{:?}", other)),
    }
}
fn norm_value(v: &Value) -> LV {
    match v {
        Value::Null => LV::Null,
        Value::Node(id, _) | Value::NodeRef(id) => LV::Node(id.as_u64()),
        Value::Edge(id, _) | Value::EdgeRef(id, ..) => LV::Edge(id.as_u64()),
        Value::Property(p) => norm_pv(p),
        Value::Path { nodes, edges } => LV::Path(nodes.iter().map(|n| n.as_u64()).collect(), edges.iter().map(|e| e.as_u64()).collect()),
        Value::List(l) => LV::List(l.iter().map(norm_value).collect()),
        Value::Map(m) => LV::Map(m.iter().map(|(k, v)| (k.clone(), norm_value(v))).collect()),
    }
}
fn show_lv(v: &LV) -> String {
    match v {
        LV::Null => "null".into(),
        LV::Bool(b) => b.to_string(),
        LV::Int(i) => i.to_string(),
        LV::Float(b) => format!("{:?}", f64::from_bits(*b)),
        LV::Str(s) => format!("'{s}'"),
        LV::List(l) => format!("[{}]", l.iter().map(show_lv).collect::<Vec<_>>().join(", ")),
        LV::Map(m) => format!("{{{}}}", m.iter().map(|(k, v)| format!("{k}: {}", show_lv(v))).collect::<Vec<_>>().join(", ")),
        LV::Node(n) => format!("(#{n})"),
        LV::Edge(e) => format!("[#{e}]"),
        LV::Path(n, e) => format!("path(n{:?},e{:?})", n, e),
        LV::Other(s) => s.clone(),
    }
}

#[derive(Clone, Debug, PartialEq, Eq)]
enum Outcome {
    Rows { columns: Vec<String>, bag: Vec<Vec<LV>> },
    Refused(String),
}
impl Outcome {
    fn same(&self, o: &Outcome) -> bool {
        match (self, o) {
            (Outcome::Rows { columns: c1, bag: b1 }, Outcome::Rows { columns: c2, bag: b2 }) => c1 == c2 && b1 == b2,
            (Outcome::Refused(_), Outcome::Refused(_)) => true, // refusal everywhere is admissible; messages are not compared
            _ => false,
        }
    }
    fn show(&self) -> String {
        match self {
            Outcome::Rows { columns, bag } => format!(
                "{} row(s) {:?}: {}",
                bag.len(),
                columns,
                bag.iter().map(|r| format!("<{}>", r.iter().map(show_lv).collect::<Vec<_>>().join(", "))).collect::<Vec<_>>().join(" ")
            ),
            Outcome::Refused(e) => format!("refused ({e})"),
        }
    }
    fn canon(&self) -> String {
        match self {
            Outcome::Rows { columns, bag } => format!("R{:?}{:?}", columns, bag),
            Outcome::Refused(_) => "E".into(),
        }
    }
}

fn normalise(b: &RecordBatch) -> Outcome {
    let mut bag: Vec<Vec<LV>> = b
        .records
        .iter()
        .map(|rec| b.columns.iter().map(|c| rec.get(c).map(norm_value).unwrap_or(LV::Other("<unbound>".into()))).collect())
        .collect();
    bag.sort();
    Outcome::Rows { columns: b.columns.clone(), bag }
}

fn run_query(g: &GraphStore, q: &Query, native: bool) -> Outcome {
    let r = guarded(|| {
        let ex = if native {
            QueryExecutor::with_planner(g, QueryPlanner::with_config(PlannerConfig { graph_native: true, max_candidate_plans: 64 }))
        } else {
            QueryExecutor::new(g)
        };
        ex.execute(q)
    });
    match r {
        Ok(Ok(b)) => normalise(&b),
        Ok(Err(e)) => Outcome::Refused(format!("{e}")),
        Err(p) => Outcome::Refused(format!("PANIC: {p}")),
    }
}

// ---------------------------------------------------------------- query set

struct QSpec {
    text: &'static str,
    class: &'static str,
}
const fn q(class: &'static str, text: &'static str) -> QSpec {
    QSpec { text, class }
}
/// Fixed read-query set. No relationship identities are returned (relationship ids
/// legitimately differ between tier variants of one history: delete_node frees incident
/// ids tier by tier); no grouping / DISTINCT on `p` (1 and 1.0 may coexist and which
/// representative survives is open).
const QUERIES: &[QSpec] = &[
    // equality anchors on p
    q("eq", "MATCH (n:A) WHERE n.p = 1 RETURN n"),
    q("eq", "MATCH (n:A) WHERE n.p = 1.0 RETURN n"),
    q("eq", "MATCH (n:A) WHERE n.p = 2 RETURN n"),
    q("eq", "MATCH (n:A) WHERE n.p = 'x' RETURN n"),
    q("eq", "MATCH (n:B) WHERE n.p = 1 RETURN n"),
    q("eq", "MATCH (n:B) WHERE n.p = 1.0 RETURN n, n.p"),
    q("eq", "MATCH (n:A) WHERE 1 = n.p RETURN n"),
    q("eq", "MATCH (n:A) WHERE n.p = 2.0 RETURN n"),
    q("eq", "MATCH (n) WHERE n.p = 1 RETURN n"),
    q("eq", "MATCH (n:A:B) WHERE n.p = 1 RETURN n"),
    // inline-property anchors
    q("inline", "MATCH (n:A {p: 1}) RETURN n"),
    q("inline", "MATCH (n:A {p: 1.0}) RETURN n"),
    q("inline", "MATCH (n:A {p: 2}) RETURN n"),
    q("inline", "MATCH (n:B {p: 'x'}) RETURN n"),
    q("inline", "MATCH (n:B {p: 1}) RETURN n, n.p"),
    q("inline", "MATCH (n:A:B {p: 1}) RETURN n"),
    q("inline", "MATCH (n {p: 1}) RETURN n"),
    // range anchors
    q("range", "MATCH (n:A) WHERE n.p > 1 RETURN n"),
    q("range", "MATCH (n:A) WHERE n.p >= 1 RETURN n"),
    q("range", "MATCH (n:A) WHERE n.p < 2 RETURN n"),
    q("range", "MATCH (n:A) WHERE n.p <= 1 RETURN n"),
    q("range", "MATCH (n:A) WHERE n.p > 1.0 RETURN n"),
    q("range", "MATCH (n:A) WHERE n.p >= 1.0 RETURN n"),
    q("range", "MATCH (n:A) WHERE n.p < 1.0 RETURN n"),
    q("range", "MATCH (n:A) WHERE n.p <= 1.0 RETURN n"),
    q("range", "MATCH (n:A) WHERE n.p > 'a' RETURN n"),
    q("range", "MATCH (n:A) WHERE n.p < 'y' RETURN n"),
    q("range", "MATCH (n:B) WHERE n.p < 2 RETURN n"),
    q("range", "MATCH (n:B) WHERE 1 < n.p RETURN n"),
    q("range", "MATCH (n:A) WHERE n.p >= 1 AND n.p <= 2 RETURN n"),
    // IN and other predicates on p
    q("in", "MATCH (n:A) WHERE n.p IN [1, 'x'] RETURN n"),
    q("in", "MATCH (n:A) WHERE n.p IN [1.0, 2] RETURN n"),
    q("in", "MATCH (n:B) WHERE n.p IN [2] RETURN n"),
    q("pred", "MATCH (n:A) WHERE n.p <> 1 RETURN n"),
    q("pred", "MATCH (n:A) WHERE n.p IS NULL RETURN n"),
    q("pred", "MATCH (n:B) WHERE n.p IS NOT NULL RETURN n"),
    q("pred", "MATCH (n:A) WHERE n.p = 1 OR n.p = 'x' RETURN n"),
    q("pred", "MATCH (n:A) WHERE id(n) = 1 RETURN n, n.p"),
    // expansions, both directions
    q("expand", "MATCH (a:A)-[:R]->(b) RETURN a, b"),
    q("expand", "MATCH (a:A)<-[:R]-(b) RETURN a, b"),
    q("expand", "MATCH (a)-[r]->(b) RETURN a, type(r), b"),
    q("expand", "MATCH (a)-[r]-(b) RETURN a, type(r), b"),
    q("expand", "MATCH (a:A)-[:R|S]->(b:B) RETURN a, b"),
    q("expand", "MATCH (a)-[:R]->(b)-[:R]->(c) RETURN a, b, c"),
    q("expand", "MATCH (a)-[:R]->(b)<-[:S]-(c) RETURN a, b, c"),
    q("expand", "MATCH (a)-[:S]->(a) RETURN a"),
    q("expand", "MATCH (a:B)-[r:S]-(b) RETURN a, b, b.p"),
    q("expand_anchor", "MATCH (a:A {p: 1})-[:R]->(b) RETURN a, b"),
    q("expand_anchor", "MATCH (a)-[:S]->(b:B {p: 1}) RETURN a, b"),
    q("expand_anchor", "MATCH (a:A)-[:R]->(b:A) WHERE b.p = 1 RETURN a, b"),
    q("expand_anchor", "MATCH (a:A)-[r]->(b) WHERE a.p >= 1 RETURN a, type(r), b"),
    q("expand_anchor", "MATCH (a:A) WHERE a.p = 1.0 MATCH (a)-[r]-(b) RETURN a, type(r), b"),
    q("expand_anchor", "MATCH (a)-[:R]->(b) WHERE b.p = 1 RETURN a, b"),
    q("expand_anchor", "MATCH (a)-[:R]->(b:B) WHERE b.p = 1.0 RETURN a, b"),
    q("exists", "MATCH (a:A) WHERE (a)-[:R]->() RETURN a"),
    // degree aggregates and count shortcuts
    q("degree", "MATCH (a)-[:R]->(b) RETURN a, count(b)"),
    q("degree", "MATCH (a:A)-[r]->() RETURN a, count(r)"),
    q("degree", "MATCH (a)<-[r:S]-() RETURN a, count(r)"),
    q("degree", "MATCH (a:A) OPTIONAL MATCH (a)-[r:R]->() RETURN a, count(r)"),
    q("count", "MATCH ()-[r]->() RETURN count(r)"),
    q("count", "MATCH ()-[r:R]->() RETURN count(r)"),
    q("count", "MATCH (n:A) RETURN count(n)"),
    q("count", "MATCH (n:B) RETURN count(*)"),
    q("count", "MATCH (n) RETURN count(n)"),
    q("count", "MATCH (n:A {p: 1}) RETURN count(n)"),
    q("count", "MATCH (n:A:B) RETURN count(n)"),
    // variable length
    q("varlen", "MATCH (a)-[:R*1..2]->(b) RETURN a, b"),
    q("varlen", "MATCH (a:A)-[*1..3]->(b) RETURN a, b"),
    q("varlen", "MATCH (a)-[:R*0..1]->(b) RETURN a, b"),
    q("varlen", "MATCH (a)<-[:S*1..2]-(b) RETURN a, b"),
    q("varlen", "MATCH (a:A {p: 1})-[*]->(b) RETURN a, b"),
    q("varlen", "MATCH (a)-[*1..2]->(b) WHERE b.p = 1 RETURN a, b"),
    q("varlen", "MATCH (a)-[:R*1..2]->(b {p: 2}) RETURN a, b"),
    q("varlen", "MATCH p = shortestPath((a:A)-[*]->(b:B)) RETURN a, b, length(p)"),
    // label scans
    q("scan", "MATCH (n:A) RETURN n"),
    q("scan", "MATCH (n:B) RETURN n, n.p"),
    q("scan", "MATCH (n:A:B) RETURN n"),
    q("scan", "MATCH (n) RETURN n, n.p"),
    q("scan", "MATCH (n) RETURN n, labels(n)"),
];

fn qclass_of(text: &str) -> &'static str {
    QUERIES.iter().find(|s| s.text == text).map(|s| query_family(s.text, s.class)).unwrap_or("adhoc")
}

struct ParsedQ {
    text: &'static str,
    class: &'static str,
    family: &'static str,
    ast: Query,
}
fn parsed_queries() -> (Vec<ParsedQ>, Vec<(String, String)>) {
    let mut ok = vec![];
    let mut bad = vec![];
    for s in QUERIES {
        match guarded(|| parse_query(s.text)) {
            Ok(Ok(ast)) => ok.push(ParsedQ { text: s.text, class: s.class, family: query_family(s.text, s.class), ast }),
            Ok(Err(e)) => bad.push((s.text.to_string(), format!("{e}"))),
            Err(p) => bad.push((s.text.to_string(), format!("PANIC {p}"))),
        }
    }
    (ok, bad)
}

// ---------------------------------------------------------------- per-state check

const VIEWS: [&str; 8] = ["noindex/legacy", "noindex/native", "index_before/legacy", "index_before/native", "index_after/legacy", "index_after/native", "uncompacted/legacy", "rebuilt/legacy"];

/// Rebuild a fresh store from a dump of the final logical graph taken through the public read
/// API of `g`; node ids are preserved (filler nodes are created and deleted), relationship ids are not.
fn rebuild_from_dump(g: &GraphStore, r: &Ref) -> Result<GraphStore, String> {
    // dump
    let mut nodes: BTreeMap<u64, (Vec<String>, PropertyMap)> = BTreeMap::new();
    for n in g.all_nodes() {
        let mut labels: Vec<String> = n.labels.iter().map(|l| l.as_str().to_string()).collect();
        labels.sort();
        let props: PropertyMap = g.node_properties_full(n.id).into_iter().filter(|(_, v)| !v.is_null()).collect();
        nodes.insert(n.id.as_u64(), (labels, props));
    }
    let mut edges: Vec<(u64, u64, String)> = g.all_edges().iter().map(|e| (e.source.as_u64(), e.target.as_u64(), e.edge_type.as_str().to_string())).collect();
    edges.sort();
    // the dump must be the reference graph (anything else is a store read-view defect, C06 territory)
    let want_nodes: BTreeMap<u64, (Vec<String>, Vec<(String, LV)>)> = r
        .nodes
        .iter()
        .map(|(k, n)| (*k, (n.labels.iter().map(|l| LABELS[*l as usize].to_string()).collect(), n.p.map(|v| ("p".to_string(), norm_pv(&pval(v)))).into_iter().collect())))
        .collect();
    let got_nodes: BTreeMap<u64, (Vec<String>, Vec<(String, LV)>)> = nodes
        .iter()
        .map(|(k, (l, p))| {
            let mut pp: Vec<(String, LV)> = p.iter().map(|(k, v)| (k.clone(), norm_pv(v))).collect();
            pp.sort();
            (*k, (l.clone(), pp))
        })
        .collect();
    let mut want_edges: Vec<(u64, u64, String)> = r.edges.values().map(|(s, d, t)| (*s, *d, TYPES[*t as usize].to_string())).collect();
    want_edges.sort();
    if got_nodes != want_nodes || edges != want_edges {
        return Err(format!("dump of the store differs from the reference graph: nodes {:?} vs {:?}; edges {:?} vs {:?}", got_nodes, want_nodes, edges, want_edges));
    }
    // rebuild
    let mut f = GraphStore::new();
    let max_id = nodes.keys().copied().max().unwrap_or(0);
    let mut fillers = vec![];
    for id in 1..=max_id {
        let got = match nodes.get(&id) {
            Some((labels, props)) => f.create_node_with_properties("default", labels.iter().map(|l| Label::new(l.as_str())).collect(), props.clone()),
            None => {
                let x = f.create_node("Filler");
                fillers.push(x);
                x
            }
        };
        if got.as_u64() != id {
            return Err(format!("rebuild: expected node id {id}, store allocated {}", got.as_u64()));
        }
    }
    for x in fillers {
        f.delete_node("default", x).map_err(|e| format!("rebuild: {e}"))?;
    }
    for (s, d, t) in &edges {
        f.create_edge(NodeId::new(*s), NodeId::new(*d), EdgeType::new(t.as_str())).map_err(|e| format!("rebuild: {e}"))?;
    }
    Ok(f)
}

struct Vio {
    sig: String,
    /// (query index, observed view, reference view); None for setup anomalies
    at: Option<(usize, usize, usize)>,
    msg: String,
}
struct StateCheck {
    violations: Vec<Vio>,
    digest: u64,
    /// per query: canonical outcome of the baseline view (for non-vacuity statistics)
    base: Vec<u64>,
    nonempty: Vec<bool>,
    refused: u64,
    evaluations: u64,
}

struct Stores {
    main: (GraphStore, Ref),
    pre: (GraphStore, Ref),
    after: GraphStore,
    shadow: Option<(GraphStore, Ref)>,
    rebuilt: Result<GraphStore, String>,
    setup_errors: Vec<(String, String)>,
}

fn build_stores(h: &[Op]) -> Stores {
    let mut setup_errors = vec![];
    let main = build(h, false, false);
    let pre = build(h, true, false);
    let (mut after, _) = build(h, false, false);
    if let Err(e) = create_indexes(&mut after) {
        setup_errors.push(("setup:create_index_after_history_refused".to_string(), e));
    }
    let shadow = if h.contains(&Op::Compact) {
        let s = build(h, false, true);
        if s.1.logical() != main.1.logical() {
            setup_errors.push(("setup:shadow_logical_graph_differs".to_string(), format!("{:?} vs {:?}", s.1.logical(), main.1.logical())));
            None
        } else {
            Some(s)
        }
    } else {
        None
    };
    let rebuilt = rebuild_from_dump(&main.0, &main.1);
    Stores { main, pre, after, shadow, rebuilt, setup_errors }
}

/// Static family of a query: the construct a difference is attributed to, most specific first.
fn query_family(text: &str, class: &'static str) -> &'static str {
    let rels = text.matches("-[").count();
    if text.contains(":A:B") {
        "multi_label_pattern"
    } else if text.contains("shortestPath") {
        "shortest_path"
    } else if text.contains("*0..") {
        "varlen_zero_length"
    } else if text.contains("[*") || text.contains("[:R*") || text.contains("[:S*") {
        "varlen"
    } else if text.contains("(a)-[:S]->(a)") {
        "repeated_node_variable"
    } else if has_undirected_relationship(text) {
        "undirected_relationship"
    } else if text.contains("OPTIONAL") {
        "optional_match"
    } else if text.contains("WHERE (a)-") {
        "pattern_predicate"
    } else if rels >= 2 {
        "two_relationships"
    } else if rels == 1 && (text.contains("(b:") || text.contains("(b {")) {
        "labelled_far_node"
    } else if rels == 1 {
        match class {
            "degree" => "degree_aggregate",
            "count" => "relationship_count",
            "expand_anchor" => "anchored_expand",
            _ => "single_expand",
        }
    } else {
        class
    }
}

/// `-[..]-` with neither arrow head.
fn has_undirected_relationship(text: &str) -> bool {
    let b = text.as_bytes();
    let mut i = 0;
    while let Some(off) = text[i..].find("-[") {
        let start = i + off;
        let Some(close) = text[start..].find(']') else { break };
        let end = start + close; // index of ']'
        let left_arrow = start > 0 && b[start - 1] == b'<';
        let right_arrow = text[end + 1..].starts_with("->");
        if !left_arrow && !right_arrow && text[end + 1..].starts_with('-') {
            return true;
        }
        i = end + 1;
    }
    false
}

/// Literals on `p` named by the query, as alphabet tokens (i1 f1 i2 f2 s).
fn query_literals(text: &str) -> Vec<&'static str> {
    let mut v = vec![];
    let t = text.replace("*1..", "").replace("*0..", "").replace("id(n) = 1", "");
    if t.contains("1.0") {
        v.push("f1");
    }
    if t.contains("2.0") {
        v.push("f2");
    }
    let t2 = t.replace("1.0", "").replace("2.0", "");
    if t2.contains('1') {
        v.push("i1");
    }
    if t2.contains('2') {
        v.push("i2");
    }
    if t2.contains('\'') {
        v.push("s");
    }
    v
}

#[derive(Default)]
struct CaseTags {
    /// graph features
    self_loop: bool,
    parallel: bool,
    /// numeric twin: the graph stores a value equal to a query literal in the other representation
    twin: bool,
    /// the graph stores a value of another type family than a range literal
    cross_family: bool,
    /// index of the index-before store holds an entry for a node that no longer has the label / the value
    stale_label: bool,
    stale_property: bool,
}

fn graph_tags(r: &Ref) -> (bool, bool) {
    let self_loop = r.edges.values().any(|e| e.0 == e.1);
    let mut pairs: Vec<(u64, u64)> = r.edges.values().map(|e| (e.0.min(e.1), e.0.max(e.1))).collect();
    pairs.sort();
    let parallel = pairs.windows(2).any(|w| w[0] == w[1]);
    (self_loop, parallel)
}

fn stale_index_tags(pre: &(GraphStore, Ref)) -> (bool, bool) {
    let (g, r) = pre;
    let (mut sl, mut sp) = (false, false);
    for l in 0..2u8 {
        if let Some(ix) = g.property_index.get_index(&lab(l), "p") {
            let ix = ix.read().unwrap();
            for v in 0..NVALS {
                // exact key probe: entries under this exact representation
                let exact: Vec<u64> = ix
                    .range((std::ops::Bound::Included(pval(v)), std::ops::Bound::Included(pval(v))))
                    .iter()
                    .map(|n| n.as_u64())
                    .collect();
                for n in exact {
                    match r.nodes.get(&n) {
                        Some(node) => {
                            if !node.labels.contains(&l) {
                                sl = true;
                            } else if node.p.map(|x| numeric_class(x)) != Some(numeric_class(v)) {
                                sp = true;
                            }
                        }
                        None => sp = true,
                    }
                }
            }
        }
    }
    (sl, sp)
}
/// 1 and 1.0 are the same number: a range probe over [v, v] may return either representation
fn numeric_class(v: u8) -> u8 {
    if v == 1 {
        0
    } else {
        v
    }
}

fn case_tags(text: &str, st: &Stores) -> CaseTags {
    let r = &st.main.1;
    let (self_loop, parallel) = graph_tags(r);
    let lits = query_literals(text);
    let has = |v: u8| r.nodes.values().any(|n| n.p == Some(v));
    let twin = (lits.contains(&"i1") && has(1)) || (lits.contains(&"f1") && has(0)) || (lits.contains(&"f2") && has(2));
    let is_range = text.contains('<') && !text.contains("<>") && !text.contains("<-") || text.contains('>') && !text.contains("<>") && !text.contains("->");
    let num_lit = lits.iter().any(|l| *l != "s");
    let str_lit = lits.contains(&"s");
    let cross_family = is_range && ((num_lit && has(3)) || (str_lit && (has(0) || has(1) || has(2))));
    let (stale_label, stale_property) = stale_index_tags(&st.pre);
    CaseTags { self_loop, parallel, twin, cross_family, stale_label, stale_property }
}

fn symptom_of(base: &Outcome, other: &Outcome) -> &'static str {
    match (base, other) {
        (Outcome::Rows { .. }, Outcome::Refused(_)) => "refused_in_one",
        (Outcome::Refused(_), Outcome::Rows { .. }) => "answered_in_one",
        (Outcome::Rows { columns: c1, bag: b1 }, Outcome::Rows { columns: c2, bag: b2 }) => {
            if c1 != c2 {
                "columns"
            } else {
                let missing = b1.iter().any(|x| !b2.contains(x));
                let extra = b2.iter().any(|x| !b1.contains(x));
                match (missing, extra) {
                    (true, false) => "missing_rows",
                    (false, true) => "extra_rows",
                    (true, true) => "different_rows",
                    _ => {
                        if b2.len() < b1.len() {
                            "fewer_duplicates"
                        } else {
                            "more_duplicates"
                        }
                    }
                }
            }
        }
        _ => "none",
    }
}

/// Signature = cause (which configuration dimension differs) : query family : symptom : region tags.
/// Region tags are predicates over the case that the known defects need: graph shape for planner
/// differences, numeric twins / foreign type families / stale index entries for index differences,
/// and the operation kinds of the history for tier and rebuild differences.
fn classify(cause: &str, pq: &ParsedQ, base: &Outcome, other: &Outcome, h: &[Op], st: &Stores) -> String {
    let symptom = symptom_of(base, other);
    let t = case_tags(pq.text, st);
    let mut tags: Vec<&str> = vec![];
    if cause == "index_before" || cause == "index_after" {
        if t.twin {
            tags.push("numeric_twin");
        }
        if t.cross_family {
            tags.push("foreign_type_in_range");
        }
        if t.stale_label {
            tags.push("stale_entry_after_remove_label");
        }
        if t.stale_property {
            tags.push("stale_entry_after_remove_property");
        }
    }
    // graph shape only where the family's answer depends on how relationships repeat
    let shape_matters = matches!(pq.family, "two_relationships" | "varlen" | "varlen_zero_length" | "repeated_node_variable" | "undirected_relationship" | "single_expand" | "anchored_expand" | "degree_aggregate" | "optional_match" | "pattern_predicate" | "relationship_count");
    if (cause == "planner" || cause == "native_plan_changes_with_index") && shape_matters {
        if t.self_loop {
            tags.push("self_loop");
        }
        if t.parallel {
            tags.push("parallel_relationships");
        }
    }
    if cause == "tier" || cause == "rebuilt" {
        let mut kinds: Vec<&str> = h.iter().map(|o| o.name()).collect();
        kinds.sort();
        kinds.dedup();
        return format!("{cause}:{}:{symptom}:{}", pq.family, kinds.join("+"));
    }
    format!("{cause}:{}:{symptom}:{}", pq.family, if tags.is_empty() { "any_graph".to_string() } else { tags.join("+") })
}

/// shortestPath between identical end nodes is left open by openCypher (DESIGN Appendix A): such
/// rows are dropped from every view before the comparison.
fn drop_identical_endpoints(o: Outcome) -> Outcome {
    match o {
        Outcome::Rows { columns, bag } => Outcome::Rows { columns, bag: bag.into_iter().filter(|r| r.len() < 2 || r[0] != r[1]).collect() },
        other => other,
    }
}

fn eval_views(st: &Stores, pq: &ParsedQ) -> Vec<Option<Outcome>> {
    let v = eval_views_raw(st, pq);
    if pq.family == "shortest_path" {
        v.into_iter().map(|o| o.map(drop_identical_endpoints)).collect()
    } else {
        v
    }
}

fn eval_views_raw(st: &Stores, pq: &ParsedQ) -> Vec<Option<Outcome>> {
    let mut v: Vec<Option<Outcome>> = Vec::with_capacity(VIEWS.len());
    v.push(Some(run_query(&st.main.0, &pq.ast, false)));
    v.push(Some(run_query(&st.main.0, &pq.ast, true)));
    v.push(Some(run_query(&st.pre.0, &pq.ast, false)));
    v.push(Some(run_query(&st.pre.0, &pq.ast, true)));
    v.push(Some(run_query(&st.after, &pq.ast, false)));
    v.push(Some(run_query(&st.after, &pq.ast, true)));
    v.push(st.shadow.as_ref().map(|s| run_query(&s.0, &pq.ast, false)));
    v.push(st.rebuilt.as_ref().ok().map(|s| run_query(s, &pq.ast, false)));
    v
}

/// pairs (observed view, reference view, cause)
const PAIRS: [(usize, usize, &str); 7] = [
    (1, 0, "planner"),
    (2, 0, "index_before"),
    (4, 0, "index_after"),
    (3, 1, "native_plan_changes_with_index"),
    (5, 1, "native_plan_changes_with_index"),
    (6, 0, "tier"),
    (7, 0, "rebuilt"),
];

fn check_state(h: &[Op], qs: &[ParsedQ], with_messages: bool) -> StateCheck {
    let st = build_stores(h);
    let mut out = StateCheck { violations: vec![], digest: 0, base: vec![], nonempty: vec![], refused: 0, evaluations: 0 };
    for (sig, msg) in &st.setup_errors {
        out.violations.push(Vio { sig: sig.clone(), at: None, msg: msg.clone() });
    }
    if let Err(e) = &st.rebuilt {
        out.violations.push(Vio { sig: "setup:dump_differs_from_reference".into(), at: None, msg: e.clone() });
    }
    for e in st.main.1.op_errors.iter().chain(st.pre.1.op_errors.iter()) {
        out.violations.push(Vio { sig: "setup:operation_anomaly".into(), at: None, msg: e.clone() });
    }
    let mut hasher = std::collections::hash_map::DefaultHasher::new();
    for (qi, pq) in qs.iter().enumerate() {
        let views = eval_views(&st, pq);
        let base = views[0].as_ref().unwrap();
        out.evaluations += views.iter().filter(|x| x.is_some()).count() as u64;
        if matches!(base, Outcome::Refused(_)) {
            out.refused += 1;
        }
        let c = base.canon();
        c.hash(&mut hasher);
        let mut hh = std::collections::hash_map::DefaultHasher::new();
        c.hash(&mut hh);
        out.base.push(hh.finish());
        out.nonempty.push(matches!(base, Outcome::Rows { bag, .. } if !bag.is_empty()));
        let mut reported: Vec<usize> = vec![];
        for (obs, refv, cause) in PAIRS {
            // the native-planner index pairs only add information when the legacy pair agreed
            if (obs == 3 && reported.contains(&2)) || (obs == 5 && reported.contains(&4)) {
                continue;
            }
            let (Some(o), Some(b)) = (&views[obs], &views[refv]) else { continue };
            if !o.same(b) {
                reported.push(obs);
                let sig = classify(cause, pq, b, o, h, &st);
                // index created before / after the history change the native plan in the same way: one case
                if obs == 5 && out.violations.iter().any(|v| v.sig == sig && v.at.map(|a| a.0) == Some(qi)) {
                    continue;
                }
                let msg = if with_messages { format!("{} :: {} = {} BUT {} = {}", pq.text, VIEWS[refv], b.show(), VIEWS[obs], o.show()) } else { String::new() };
                out.violations.push(Vio { sig, at: Some((qi, obs, refv)), msg });
            }
        }
    }
    out.digest = hasher.finish();
    out
}

// ---------------------------------------------------------------- exploration (runs inside a worker child)

struct Explored {
    stats: hx::Stats,
    /// signature -> (cases, message, witness) — first witness in BFS order
    violations: BTreeMap<String, (u64, String, J)>,
    /// keyhash -> (digest, history)
    digests: Vec<(u128, u64, String)>,
    evaluations: u64,
    refused: u64,
    states_with_violation: u64,
    per_query_distinct: Vec<usize>,
    per_query_nonempty: Vec<u64>,
    checked_states: u64,
}

fn hist_compact(h: &[Op]) -> String {
    h.iter().map(|o| format!("{:?}", o)).collect::<Vec<_>>().join(";")
}

/// Exploration from the empty store plus a second pass from a NON-INITIAL start state: two nodes,
/// one relationship into the highest-numbered node, already compacted. Deleting a compacted
/// relationship and reusing its id needs six operations from the empty store -- more than the
/// tiers' depth -- so the tier-independence of that region was never reached (seeded change C02:
/// frozen-tier removal skipped for the last node slot).
fn explore(depth: usize, bounds: &Bounds, max_states: u64, qs: &[ParsedQ]) -> Explored {
    let mut ex = explore_from(&[], depth, bounds, max_states, qs);
    let extra = std::env::var("C02_PREFIX_DEPTH").ok().and_then(|s| s.parse().ok()).unwrap_or(3usize);
    // second non-initial start state: the indexed property holds values of two type families (a
    // string next to a number) under one label -- the quick tier's value alphabet has no string, so
    // an index range scan never had to step over keys of another family (seeded change C02b)
    let prefixes: Vec<Vec<Op>> = vec![
        vec![Op::CreateNode(0, 0), Op::CreateNode(1, 2), Op::CreateEdge(1, 2, 0), Op::Compact],
        vec![Op::CreateNode(0, 3), Op::CreateNode(0, 0)],
    ];
    for (pi, prefix) in prefixes.iter().enumerate() {
    let extra = if pi == 0 { extra } else { extra.min(2) };
    let ex2 = explore_from(prefix, extra, bounds, max_states, qs);
    ex.stats.states += ex2.stats.states;
    ex.stats.transitions += ex2.stats.transitions;
    ex.stats.cap_hit |= ex2.stats.cap_hit;
    ex.stats.pruned_after_violation += ex2.stats.pruned_after_violation;
    for (op, outs) in ex2.stats.outcomes_per_op {
        let e = ex.stats.outcomes_per_op.entry(op).or_default();
        for (o, c) in outs {
            *e.entry(o).or_default() += c;
        }
    }
    ex.stats.samples.extend(ex2.stats.samples.into_iter().take(1));
    for (sig, v) in ex2.violations {
        match ex.violations.get_mut(&sig) {
            Some(e) => e.0 += v.0,
            None => {
                ex.violations.insert(sig, v);
            }
        }
    }
    ex.digests.extend(ex2.digests);
    ex.evaluations += ex2.evaluations;
    ex.refused += ex2.refused;
    ex.states_with_violation += ex2.states_with_violation;
    ex.checked_states += ex2.checked_states;
    for (i, n) in ex2.per_query_nonempty.iter().enumerate() {
        ex.per_query_nonempty[i] += n;
    }
    }
    ex
}

fn explore_from(start: &[Op], depth: usize, bounds: &Bounds, max_states: u64, qs: &[ParsedQ]) -> Explored {
    let mut stats = hx::Stats::default();
    let mut seen: HashSet<u128> = HashSet::new();
    let mut ex = Explored { stats: hx::Stats::default(), violations: BTreeMap::new(), digests: vec![], evaluations: 0, refused: 0, states_with_violation: 0, per_query_distinct: vec![], per_query_nonempty: vec![0; qs.len()], checked_states: 0 };
    let mut distinct: Vec<HashSet<u64>> = vec![HashSet::new(); qs.len()];
    let absorb = |ex: &mut Explored, distinct: &mut Vec<HashSet<u64>>, h: &[Op], key: u128, c: StateCheck| -> bool {
        ex.checked_states += 1;
        ex.evaluations += c.evaluations;
        ex.refused += c.refused;
        for (i, b) in c.base.iter().enumerate() {
            distinct[i].insert(*b);
            if c.nonempty[i] {
                ex.per_query_nonempty[i] += 1;
            }
        }
        // Read queries do not change the state, so a state whose observations differ is still a
        // legitimate prefix of longer histories: it is expanded. Only a state the harness could
        // not set up faithfully (operation anomaly, dump differs from the reference) is pruned.
        let fatal = c.violations.iter().any(|v| v.sig.starts_with("setup:"));
        ex.digests.push((key, c.digest, hist_compact(h)));
        if !c.violations.is_empty() {
            ex.states_with_violation += 1;
        }
        for v in c.violations.iter() {
            match ex.violations.get_mut(&v.sig) {
                Some(e) => e.0 += 1,
                None => {
                    let mut w = json!({"history": h.iter().map(|o| o.to_json()).collect::<Vec<_>>(), "history_text": h.iter().map(|o| o.show()).collect::<Vec<_>>()});
                    if let Some((qi, obs, refv)) = v.at {
                        w["query"] = json!(qs[qi].text);
                        w["view"] = json!(VIEWS[obs]);
                        w["reference_view"] = json!(VIEWS[refv]);
                    }
                    ex.violations.insert(v.sig.clone(), (1, v.msg.clone(), w));
                }
            }
        }
        !fatal
    };
    // initial state
    {
        let main = build(start, false, false);
        let pre = build(start, true, false);
        let k = h128(&state_key(start, &main, &pre));
        seen.insert(k);
        let c = check_state(start, qs, true);
        absorb(&mut ex, &mut distinct, start, k, c);
    }
    stats.states = 1;
    stats.per_depth_states.push(1);
    let mut frontier: Vec<Vec<Op>> = vec![start.to_vec()];
    for d in 1..=depth {
        if frontier.is_empty() {
            break;
        }
        // phase 1: successors (real store, both index variants) and their canonical keys
        let succ: Vec<Vec<(Vec<Op>, u128, &'static str, &'static str)>> = frontier
            .par_iter()
            .map(|h| {
                let (_, r) = build(h, false, false);
                enabled(&r, bounds)
                    .into_iter()
                    .map(|op| {
                        let mut hh = h.clone();
                        hh.push(op.clone());
                        let mut main = build(h, false, false);
                        let outcome = apply(&mut main.0, &mut main.1, &op, false);
                        let pre = build(&hh, true, false);
                        let k = h128(&format!("d{}|{}", 0, state_key(&hh, &main, &pre)));
                        (hh, k, op.name(), outcome)
                    })
                    .collect()
            })
            .collect();
        let mut fresh: Vec<(Vec<Op>, u128)> = vec![];
        for v in succ {
            for (hh, k, name, outcome) in v {
                stats.transitions += 1;
                *stats.outcomes_per_op.entry(name.to_string()).or_default().entry(outcome.to_string()).or_default() += 1;
                if seen.insert(k) {
                    fresh.push((hh, k));
                }
            }
        }
        // phase 2: the query cross product on every new state
        let count_only = std::env::var("C02_COUNT_ONLY").is_ok(); // development aid: state counts without the query cross product
        let checks: Vec<StateCheck> = fresh
            .par_iter()
            .map(|(h, _)| if count_only { StateCheck { violations: vec![], digest: 0, base: vec![0; qs.len()], nonempty: vec![false; qs.len()], refused: 0, evaluations: 0 } } else { check_state(h, qs, true) })
            .collect();
        let mut next = vec![];
        let mut new_states = 0u64;
        for ((h, k), c) in fresh.into_iter().zip(checks) {
            stats.states += 1;
            new_states += 1;
            if stats.samples.len() < 3 && (d == 1 || d == depth) {
                stats.samples.push(json!({"depth": d, "history": h.iter().map(|o| o.show()).collect::<Vec<_>>()}));
            }
            if absorb(&mut ex, &mut distinct, &h, k, c) {
                next.push(h);
            } else {
                stats.pruned_after_violation += 1;
            }
        }
        stats.per_depth_states.push(new_states);
        stats.max_depth = d;
        if stats.states > max_states {
            stats.cap_hit = true;
            break;
        }
        frontier = next;
    }
    ex.per_query_distinct = distinct.iter().map(|s| s.len()).collect();
    ex.stats = stats;
    ex
}

fn tier_params(tier: &str) -> (usize, Bounds) {
    match tier {
        "thorough" => (5, Bounds { max_nodes: 3, max_edges: 3, nvals: NVALS }),
        // quick writes only 1, 1.0 and 2 (the queries still name 'x'); thorough writes all four
        _ => (4, Bounds { max_nodes: env_usize("C02_MAXN", 3), max_edges: env_usize("C02_MAXE", 2), nvals: env_usize("C02_NVALS", 3) as u8 }),
    }
}

fn env_usize(k: &str, d: usize) -> usize {
    std::env::var(k).ok().and_then(|s| s.parse().ok()).unwrap_or(d)
}

fn tmp_dir() -> std::path::PathBuf {
    let d = std::path::PathBuf::from(format!("/verif/target/tmp/c02-{}", std::process::id()));
    let _ = std::fs::create_dir_all(&d);
    d
}

fn silence_stderr() {
    unsafe {
        let fd = libc::open(b"/dev/null\0".as_ptr() as *const libc::c_char, libc::O_WRONLY);
        if fd >= 0 {
            libc::dup2(fd, 2);
        }
    }
}

/// Worker: one case = JSON {"mode":"explore","tier":..,"out":path} or {"mode":"replay","history":[..]}
fn worker(case: &str) -> String {
    silence_stderr();
    let c: J = match serde_json::from_str(case) {
        Ok(c) => c,
        Err(e) => return format!("ERR bad case {e}"),
    };
    let thr = std::env::var("SAMYAMA_FILTER_PARALLEL_COST").unwrap_or_default();
    let (qs, _bad) = parsed_queries();
    match c["mode"].as_str() {
        Some("explore") => {
            let tier = c["tier"].as_str().unwrap_or("quick");
            let (depth, bounds) = tier_params(tier);
            let depth = c["depth"].as_u64().map(|d| d as usize).unwrap_or(depth);
            let ex = explore(depth, &bounds, 20_000_000, &qs);
            let out = c["out"].as_str().unwrap();
            let mut lines = String::new();
            for (k, d, h) in &ex.digests {
                lines.push_str(&format!("{:032x} {:016x} {}\n", k, d, h));
            }
            if let Err(e) = std::fs::write(format!("{out}.states"), lines) {
                return format!("ERR write {e}");
            }
            let s = &ex.stats;
            let doc = json!({
                "threshold": thr,
                "states": s.states, "transitions": s.transitions, "max_depth": s.max_depth, "cap_hit": s.cap_hit,
                "per_depth_states": s.per_depth_states, "pruned_after_violation": s.pruned_after_violation,
                "outcomes_per_op": s.outcomes_per_op, "samples": s.samples,
                "violations": ex.violations.iter().map(|(sig, (n, msg, w))| json!([sig, msg, w, n])).collect::<Vec<_>>(),
                "states_with_violation": ex.states_with_violation,
                "evaluations": ex.evaluations, "refused": ex.refused, "checked_states": ex.checked_states,
                "per_query_distinct": ex.per_query_distinct, "per_query_nonempty": ex.per_query_nonempty,
            });
            if let Err(e) = std::fs::write(format!("{out}.json"), serde_json::to_string(&doc).unwrap()) {
                return format!("ERR write {e}");
            }
            "OK".into()
        }
        Some("replay") => {
            let h: Vec<Op> = c["history"].as_array().map(|a| a.iter().filter_map(|x| x.as_str().and_then(parse_op)).collect()).unwrap_or_default();
            let st = build_stores(&h);
            let mut table = vec![];
            for pq in &qs {
                let views = eval_views(&st, pq);
                table.push(json!({"query": pq.text, "views": views.iter().map(|o| o.as_ref().map(|o| json!({"canon": o.canon(), "show": o.show()}))).collect::<Vec<_>>()}));
            }
            let c = check_state(&h, &qs, true);
            json!({"threshold": thr, "table": table, "violations": c.violations.iter().map(|v| json!([v.sig, v.msg])).collect::<Vec<_>>(), "setup": st.setup_errors}).to_string()
        }
        _ => "ERR unknown mode".into(),
    }
}

const THRESHOLDS: [&str; 2] = ["0", "1000000"];

fn run_children(cases: Vec<String>, timeout_s: u64) -> Vec<subproc::Outcome> {
    // one worker process per threshold value (env is read at plan time and is process-global)
    let handles: Vec<_> = THRESHOLDS
        .iter()
        .zip(cases)
        .map(|(thr, case)| {
            let thr = thr.to_string();
            std::thread::spawn(move || {
                let opts = subproc::Opts {
                    concurrency: 1,
                    timeout: std::time::Duration::from_secs(timeout_s),
                    env: vec![("SAMYAMA_FILTER_PARALLEL_COST".into(), thr), ("RAYON_NUM_THREADS".into(), "8".into())],
                    rlimit_as: None,
                };
                subproc::run_cases("c02", &[case], &opts).remove(0)
            })
        })
        .collect();
    handles.into_iter().map(|h| h.join().unwrap()).collect()
}

/// `c02 --probe "<Op;Op;..>" "<query>" ["<query>"..]`: print every view's answer (diagnosis aid).
fn probe(args: &[String]) {
    silence_stderr();
    let h: Vec<Op> = if args[0].trim().is_empty() { vec![] } else { args[0].split(';').map(|s| parse_op(s).unwrap_or_else(|| panic!("bad op {s}"))).collect() };
    for o in &h {
        println!("  {}", o.show());
    }
    let st = build_stores(&h);
    for (a, b) in &st.setup_errors {
        println!("SETUP {a}: {b}");
    }
    for text in &args[1..] {
        let ast = match parse_query(text) {
            Ok(a) => a,
            Err(e) => {
                println!("{text}\n   parse error: {e}");
                continue;
            }
        };
        let pq = ParsedQ { text: Box::leak(text.clone().into_boxed_str()), class: "adhoc", family: query_family(text, "adhoc"), ast };
        println!("{text}");
        let explain = |g: &GraphStore, native: bool| -> String {
            let q = parse_query(&format!("EXPLAIN {text}")).ok();
            match q {
                Some(q) => match run_query(g, &q, native) {
                    Outcome::Rows { bag, .. } => bag.iter().map(|r| r.iter().map(show_lv).collect::<Vec<_>>().join(" ")).collect::<Vec<_>>().join(" ").replace("\\n", " / ").chars().take(300).collect(),
                    Outcome::Refused(e) => e,
                },
                None => String::new(),
            }
        };
        for (i, v) in eval_views(&st, &pq).iter().enumerate() {
            if let Some(v) = v {
                println!("   {:<22} {}", VIEWS[i], v.show());
            }
        }
        if std::env::var("C02_EXPLAIN").is_ok() {
            println!("   plan legacy: {}", explain(&st.main.0, false));
            println!("   plan native: {}", explain(&st.main.0, true));
            println!("   plan legacy+index: {}", explain(&st.pre.0, false));
        }
    }
}

fn main() {
    if subproc::worker_arg().is_some() {
        subproc::worker_main(worker);
    }
    let args: Vec<String> = std::env::args().collect();
    if args.len() >= 4 && args[1] == "--probe" {
        probe(&args[2..]);
        return;
    }
    run_check("C02", Level::ModelChecking, |ctx| {
        if let Some(p) = ctx.replay.clone() {
            replay(ctx, &p);
            return;
        }
        let (qs, bad) = parsed_queries();
        for (t, e) in &bad {
            println!("note: query not parsed (left out in every configuration): {t} :: {e}");
        }
        let dir = tmp_dir();
        let tier = ctx.tier.as_str();
        let depth_override = std::env::var("C02_DEPTH").ok().and_then(|s| s.parse::<u64>().ok());
        let cases: Vec<String> = THRESHOLDS
            .iter()
            .map(|t| json!({"mode": "explore", "tier": tier, "depth": depth_override, "out": dir.join(format!("thr{t}")).to_string_lossy()}).to_string())
            .collect();
        let outs = run_children(cases, 6 * 3600);
        for (i, o) in outs.iter().enumerate() {
            match o {
                subproc::Outcome::Done(s) if s == "OK" => {}
                other => {
                    let _ = std::fs::remove_dir_all(&dir);
                    ctx.machinery(&format!("worker for threshold {} failed: {:?}", THRESHOLDS[i], other));
                }
            }
        }
        let docs: Vec<J> = THRESHOLDS.iter().map(|t| serde_json::from_str(&std::fs::read_to_string(dir.join(format!("thr{t}.json"))).expect("child json")).expect("json")).collect();
        // in-process violations (identical in both children unless threshold-dependent)
        for (i, d) in docs.iter().enumerate() {
            for v in d["violations"].as_array().unwrap() {
                let sig = v[0].as_str().unwrap();
                let mut w = v[2].clone();
                w["threshold"] = json!(THRESHOLDS[i]);
                if i == 0 || !ctx.has_sig(sig) {
                    ctx.violation(sig, v[1].as_str().unwrap(), w);
                    // remaining cases of the same signature (only the first witness is kept)
                    for _ in 1..v[3].as_u64().unwrap_or(1) {
                        ctx.violation(sig, "", J::Null);
                    }
                }
            }
        }
        // cross-process / cross-threshold comparison of per-state digests
        let load = |t: &str| -> HashMap<String, (String, String)> {
            let s = std::fs::read_to_string(dir.join(format!("thr{t}.states"))).expect("states file");
            s.lines()
                .filter_map(|l| {
                    let mut it = l.splitn(3, ' ');
                    Some((it.next()?.to_string(), (it.next()?.to_string(), it.next().unwrap_or("").to_string())))
                })
                .collect()
        };
        let a = load(THRESHOLDS[0]);
        let b = load(THRESHOLDS[1]);
        let mut common = 0u64;
        let mut only_one = 0u64;
        let mut mismatches: Vec<&String> = vec![];
        for (k, (da, ha)) in &a {
            match b.get(k) {
                Some((db, _)) => {
                    common += 1;
                    if da != db {
                        mismatches.push(ha);
                    }
                }
                None => only_one += 1,
            }
        }
        only_one += b.keys().filter(|k| !a.contains_key(*k)).count() as u64;
        mismatches.sort_by_key(|h| (h.matches(';').count(), h.to_string()));
        for h in mismatches.iter().take(20) {
            // fetch full tables from two fresh children and name the query that differs
            let hist: Vec<&str> = if h.is_empty() { vec![] } else { h.split(';').collect() };
            let (sig, msg) = cross_process_diff(&hist);
            ctx.violation(&sig, msg, json!({"history": hist, "kind": "cross_process"}));
        }
        if mismatches.len() > 20 {
            ctx.violation("process:unclassified:more", format!("{} further states differ between the two processes", mismatches.len() - 20), json!({"history": mismatches[20].split(';').collect::<Vec<_>>(), "kind": "cross_process"}));
        }
        let d0 = &docs[0];
        let stats = hx::Stats {
            states: d0["states"].as_u64().unwrap(),
            transitions: d0["transitions"].as_u64().unwrap(),
            max_depth: d0["max_depth"].as_u64().unwrap() as usize,
            pruned_after_violation: d0["pruned_after_violation"].as_u64().unwrap(),
            cap_hit: d0["cap_hit"].as_bool().unwrap(),
            per_depth_states: d0["per_depth_states"].as_array().unwrap().iter().map(|x| x.as_u64().unwrap()).collect(),
            outcomes_per_op: serde_json::from_value(d0["outcomes_per_op"].clone()).unwrap(),
            samples: d0["samples"].as_array().unwrap().clone(),
        };
        let (depth, bounds) = tier_params(tier);
        hx::report(
            ctx,
            &stats,
            &format!(
                "create_node{{A,B}}x{{p:1,1.0,2,'x'}} set_node_property{{1,1.0,2,'x'}} remove_node_property add_label{{A,B}} remove_label{{A,B}} create_edge{{R,S}} delete_edge delete_node compact_adjacency; <= {} live nodes, <= {} live relationships, depth {}",
                bounds.max_nodes,
                bounds.max_edges,
                depth_override.map(|d| d as usize).unwrap_or(depth)
            ),
        );
        ctx.cov("queries", qs.len() as u64);
        ctx.cov("queries_not_parsed", json!(bad));
        ctx.cov("views_per_query", json!(VIEWS));
        ctx.cov("thresholds_each_in_own_process", json!(THRESHOLDS));
        ctx.cov("query_evaluations_per_process", d0["evaluations"].clone());
        ctx.cov("query_evaluations_total", d0["evaluations"].as_u64().unwrap_or(0) + docs[1]["evaluations"].as_u64().unwrap_or(0));
        ctx.cov("baseline_refusals", d0["refused"].clone());
        ctx.cov("states_with_a_difference", d0["states_with_violation"].clone());
        ctx.cov("states_checked_per_process", json!([d0["checked_states"], docs[1]["checked_states"]]));
        ctx.cov("cross_process_states_compared", common);
        ctx.cov("cross_process_states_only_in_one", only_one);
        ctx.cov("cross_process_digest_mismatches", mismatches.len() as u64);
        let pqd: Vec<u64> = d0["per_query_distinct"].as_array().unwrap().iter().map(|x| x.as_u64().unwrap()).collect();
        let pqn: Vec<u64> = d0["per_query_nonempty"].as_array().unwrap().iter().map(|x| x.as_u64().unwrap()).collect();
        ctx.cov("queries_with_2plus_distinct_bags", pqd.iter().filter(|x| **x >= 2).count() as u64);
        ctx.cov("per_query_distinct_bags", json!(qs.iter().zip(&pqd).map(|(q, d)| json!([q.text, d])).collect::<Vec<_>>()));
        ctx.cov("per_query_states_with_rows", json!(qs.iter().zip(&pqn).map(|(q, d)| json!([q.text, d])).collect::<Vec<_>>()));
        if docs[0]["states"] != docs[1]["states"] || docs[0]["transitions"] != docs[1]["transitions"] {
            ctx.note(format!("the two processes explored different state counts ({} vs {}): a violation pruned one of them", docs[0]["states"], docs[1]["states"]));
        }
        ctx.assume("relationship identities are never returned by the query set: delete_node frees incident relationship ids tier by tier, so ids legitimately differ between a compacted history and its uncompacted twin");
        ctx.assume("no DISTINCT / grouping on p: 1 and 1.0 may coexist and openCypher leaves open which representative of equal keys survives");
        ctx.assume("refusal (Err or panic) in every configuration is admissible; refusal in one configuration against rows in another is a difference");
        ctx.assume("the rebuilt-from-dump store preserves node ids (filler nodes created and deleted) so id(n) and node identities are comparable");
        ctx.assume("states are deduplicated on a 128-bit hash of the canonical key (reference graph, raw tiers, free lists, next ids, index contents probed per alphabet value, row/column copies of p, label/type counts, catalog)");
        let _ = std::fs::remove_dir_all(&dir);
    });
}

/// Re-run one history in two fresh children and report the first query whose baseline bag differs.
fn cross_process_diff(hist: &[&str]) -> (String, String) {
    let case = json!({"mode": "replay", "history": hist}).to_string();
    let outs = run_children(vec![case.clone(), case], 120);
    let docs: Vec<J> = outs
        .iter()
        .map(|o| match o {
            subproc::Outcome::Done(s) => serde_json::from_str(s).unwrap_or(J::Null),
            _ => J::Null,
        })
        .collect();
    if docs.iter().any(|d| d.is_null()) {
        return ("process:unclassified:replay_failed".into(), format!("digest mismatch for {:?}; replay children failed", hist));
    }
    let ta = docs[0]["table"].as_array().unwrap();
    let tb = docs[1]["table"].as_array().unwrap();
    for (x, y) in ta.iter().zip(tb) {
        let (va, vb) = (&x["views"][0], &y["views"][0]);
        if va["canon"] != vb["canon"] {
            let text = x["query"].as_str().unwrap_or("");
            return (
                format!("process:{}:threshold_or_process", qclass_of(text)),
                format!("{} :: SAMYAMA_FILTER_PARALLEL_COST={} gives {} BUT ={} gives {}", text, THRESHOLDS[0], va["show"], THRESHOLDS[1], vb["show"]),
            );
        }
    }
    ("process:unclassified:not_reproduced".into(), format!("digest mismatch for {:?} did not reproduce in fresh processes (nondeterminism)", hist))
}

fn replay(ctx: &Ctx, p: &std::path::Path) {
    let doc: J = serde_json::from_str(&std::fs::read_to_string(p).expect("read replay")).expect("json");
    let hist: Vec<String> = doc["witness"]["history"].as_array().map(|a| a.iter().filter_map(|s| s.as_str().map(|x| x.to_string())).collect()).unwrap_or_default();
    let only_query = doc["witness"]["query"].as_str().map(|s| s.to_string());
    println!("replaying history:");
    for (i, s) in hist.iter().enumerate() {
        match parse_op(s) {
            Some(op) => println!("  {i}: {}", op.show()),
            None => ctx.machinery(&format!("replay: cannot parse op {s}")),
        }
    }
    let case = json!({"mode": "replay", "history": hist}).to_string();
    let outs = run_children(vec![case.clone(), case], 300);
    let mut tables = vec![];
    for (i, o) in outs.iter().enumerate() {
        match o {
            subproc::Outcome::Done(s) => tables.push(serde_json::from_str::<J>(s).unwrap_or_else(|e| ctx.machinery(&format!("replay child output: {e}")))),
            other => ctx.machinery(&format!("replay worker {} failed: {:?}", THRESHOLDS[i], other)),
        }
    }
    let h: Vec<Op> = hist.iter().filter_map(|s| parse_op(s)).collect();
    let (_, r) = build(&h, false, false);
    for (ti, t) in tables.iter().enumerate() {
        for (sig, msg) in t["setup"].as_array().unwrap().iter().map(|x| (x[0].as_str().unwrap().to_string(), x[1].as_str().unwrap().to_string())) {
            println!("  MISMATCH [{sig}] {msg}");
            ctx.violation(&sig, msg, doc["witness"].clone());
        }
        for row in t["table"].as_array().unwrap() {
            let text = row["query"].as_str().unwrap();
            if let Some(oq) = &only_query {
                if oq != text {
                    continue;
                }
            }
            let views = row["views"].as_array().unwrap();
            let base = &views[0];
            println!("[SAMYAMA_FILTER_PARALLEL_COST={}] {}", THRESHOLDS[ti], text);
            println!("    expected (every view equals {}): {}", VIEWS[0], base["show"].as_str().unwrap_or(""));
            for (i, v) in views.iter().enumerate().skip(1) {
                if v.is_null() {
                    continue;
                }
                let same = v["canon"] == base["canon"];
                println!("    observed {:<22} {} {}", VIEWS[i], if same { "same     " } else { "DIFFERENT" }, if same { "" } else { v["show"].as_str().unwrap_or("") });
            }
        }
        // the violations as the explorer would attribute them
        for v in t["violations"].as_array().unwrap() {
            let sig = v[0].as_str().unwrap();
            let msg = v[1].as_str().unwrap();
            if only_query.as_ref().map(|q| msg.starts_with(q.as_str())).unwrap_or(true) {
                if ti == 0 || !ctx.has_sig(sig) {
                    println!("  MISMATCH [{sig}] {msg}");
                    ctx.violation(sig, msg, doc["witness"].clone());
                }
            }
        }
    }
    // cross-process
    let ta = tables[0]["table"].as_array().unwrap();
    let tb = tables[1]["table"].as_array().unwrap();
    for (x, y) in ta.iter().zip(tb) {
        if x["views"][0]["canon"] != y["views"][0]["canon"] {
            let text = x["query"].as_str().unwrap_or("");
            let sig = format!("process:{}:threshold_or_process", qclass_of(text));
            let msg = format!("{} :: threshold {} gives {} BUT {} gives {}", text, THRESHOLDS[0], x["views"][0]["show"], THRESHOLDS[1], y["views"][0]["show"]);
            println!("  MISMATCH [{sig}] {msg}");
            ctx.violation(&sig, msg, doc["witness"].clone());
        }
    }
    let _ = r;
}
