//! C09 — transactions commit first-committer-wins with increasing versions.
//! hx over the per-transaction steps of `GraphStore` (begin / record+apply a write / commit /
//! abort / gc_auto) for 2..3 transactions over {node a, node b, relationship e}. BFS over all
//! step sequences IS the schedule enumeration: the store API is `&mut self`, so an interleaving
//! of transactions is exactly a sequence of these calls. Reference: the abstract
//! first-committer-wins automaton (DESIGN §C09).
use samyama::graph::{EdgeId, EdgeType, GraphStore, IsolationLevel, Label, NodeId, PropertyValue, TxnStatus};
use serde_json::json;
use std::collections::BTreeSet;
use svmc::engine::ctx::guarded;
use svmc::engine::hx::{self, Model, Step};
use svmc::{run_check, Level};

/// entity 0 = node a (id 1), 1 = node b (id 2), 2 = relationship e (id 1, a->b)
const ENT: [&str; 3] = ["node a", "node b", "edge e"];

#[derive(Clone, Debug, PartialEq, Eq, Hash)]
enum Op {
    BeginRC(u8),
    BeginSI(u8),
    /// txn_write_node / txn_write_edge for entity .1, together with the data write
    /// (set_node_property / set_edge_property p := current version) that makes versions observable
    Write(u8, u8),
    Commit(u8),
    Abort(u8),
    GcAuto,
    /// gc_versions(current_version): an explicit collection at the newest version, possibly above the
    /// begin version of a transaction that is still active — it may retire finished transactions and
    /// prune history, it must not change what a later commit decides
    GcNow,
}

#[derive(Clone, Debug, PartialEq, Eq, Hash)]
enum RStatus {
    NotBegun,
    Active,
    Committed(u64),
    /// aborted explicitly or by a refused commit
    Aborted,
}

#[derive(Clone, Debug)]
struct RTxn {
    status: RStatus,
    si: bool,
    begin: u64,
    writes: BTreeSet<u8>,
    tid: u64,
    /// how the transaction was aborted ("" = not aborted / explicit abort, "r{writes}" = refused commit)
    how: String,
}

#[derive(Clone, Debug)]
struct Ref {
    /// latest committed version
    clock: u64,
    txns: Vec<RTxn>,
    /// per entity: stamp of the last successful commit that wrote it
    last_commit: [u64; 3],
    /// highest version ever returned by a commit
    max_commit: u64,
}

struct St {
    g: GraphStore,
    r: Ref,
}

struct M {
    ntx: usize,
    /// include the data write in Write (false = write-set bookkeeping only)
    data_writes: bool,
}

fn nid(e: u8) -> NodeId {
    NodeId::new(e as u64 + 1)
}
const EDGE: u64 = 1;

/// (version field, p) of an entity as the store reads it at `version`.
fn read_at(g: &GraphStore, e: u8, version: u64) -> Option<(u64, Option<i64>)> {
    let p = |v: Option<&PropertyValue>| match v {
        Some(PropertyValue::Integer(i)) => Some(*i),
        _ => None,
    };
    if e < 2 {
        g.get_node_at_version(nid(e), version).map(|n| (n.version, p(n.properties.get("p"))))
    } else {
        g.get_edge_at_version(EdgeId::new(EDGE), version).map(|x| (x.version, p(x.properties.get("p"))))
    }
}
fn read_txn(g: &GraphStore, tid: u64, e: u8) -> Option<(u64, Option<i64>)> {
    let p = |v: Option<&PropertyValue>| match v {
        Some(PropertyValue::Integer(i)) => Some(*i),
        _ => None,
    };
    if e < 2 {
        g.get_node_for_txn(tid, nid(e)).map(|n| (n.version, p(n.properties.get("p"))))
    } else {
        g.get_edge_for_txn(tid, EdgeId::new(EDGE)).map(|x| (x.version, p(x.properties.get("p"))))
    }
}

impl Model for M {
    type Op = Op;
    type State = St;
    type Key = String;
    fn init(&self) -> St {
        let mut g = GraphStore::new();
        let a = g.create_node(Label::new("N"));
        let b = g.create_node(Label::new("N"));
        let e = g.create_edge(a, b, EdgeType::new("R")).expect("create_edge");
        assert_eq!((a.as_u64(), b.as_u64(), e.as_u64()), (1, 2, EDGE));
        let clock = g.current_version;
        St {
            g,
            r: Ref {
                clock,
                txns: (0..self.ntx).map(|_| RTxn { status: RStatus::NotBegun, si: false, begin: 0, writes: BTreeSet::new(), tid: 0, how: String::new() }).collect(),
                last_commit: [0; 3],
                max_commit: 0,
            },
        }
    }
    fn ops(&self, st: &St) -> Vec<Op> {
        let mut v = vec![];
        let r = &st.r;
        for i in 0..self.ntx {
            let t = &r.txns[i];
            match t.status {
                RStatus::NotBegun => {
                    // slots are begun in order (they are interchangeable before they begin)
                    if i == 0 || r.txns[i - 1].status != RStatus::NotBegun {
                        v.push(Op::BeginRC(i as u8));
                        v.push(Op::BeginSI(i as u8));
                    }
                }
                RStatus::Active => {
                    for e in 0..3 {
                        v.push(Op::Write(i as u8, e));
                    }
                    v.push(Op::Commit(i as u8));
                    v.push(Op::Abort(i as u8));
                }
                _ => {
                    // finished: commit and abort must both be refused
                    v.push(Op::Commit(i as u8));
                    v.push(Op::Abort(i as u8));
                }
            }
        }
        v.push(Op::GcAuto);
        v.push(Op::GcNow);
        v
    }
    fn apply(&self, st: &mut St, op: &Op, check: bool) -> Step {
        let mut vio: Vec<(String, String)> = vec![];
        let g = &mut st.g;
        let r = &mut st.r;
        let outcome: String;
        match op {
            Op::BeginRC(i) | Op::BeginSI(i) => {
                let si = matches!(op, Op::BeginSI(_));
                let iso = if si { IsolationLevel::SnapshotIsolation } else { IsolationLevel::ReadCommitted };
                match guarded(|| g.begin_transaction(iso)) {
                    Ok(tid) => {
                        if r.txns.iter().any(|t| t.status != RStatus::NotBegun && t.tid == tid) {
                            vio.push(("begin:duplicate_txn_id".into(), format!("begin returned transaction id {tid} which is already in use")));
                        }
                        let t = &mut r.txns[*i as usize];
                        t.status = RStatus::Active;
                        t.si = si;
                        t.begin = r.clock;
                        t.tid = tid;
                        outcome = "ok".into();
                    }
                    Err(p) => {
                        vio.push(("panic:begin".into(), format!("begin_transaction panicked: {p}")));
                        outcome = "panic".into();
                    }
                }
            }
            Op::Write(i, e) => {
                let tid = r.txns[*i as usize].tid;
                let clock = r.clock;
                let dw = self.data_writes;
                let res = guarded(|| {
                    if *e < 2 {
                        g.txn_write_node(tid, nid(*e));
                        if dw {
                            g.set_node_property("default", nid(*e), "p", PropertyValue::Integer(clock as i64)).map_err(|x| x.to_string())
                        } else {
                            Ok(())
                        }
                    } else {
                        g.txn_write_edge(tid, EdgeId::new(EDGE));
                        if dw {
                            g.set_edge_property(EdgeId::new(EDGE), "p", PropertyValue::Integer(clock as i64)).map_err(|x| x.to_string())
                        } else {
                            Ok(())
                        }
                    }
                });
                match res {
                    Ok(Ok(())) => outcome = "ok".into(),
                    Ok(Err(x)) => {
                        vio.push(("write:refused".into(), format!("data write to {} refused: {x}", ENT[*e as usize])));
                        outcome = "err".into();
                    }
                    Err(p) => {
                        vio.push(("panic:write".into(), format!("write panicked: {p}")));
                        outcome = "panic".into();
                    }
                }
                r.txns[*i as usize].writes.insert(*e);
            }
            Op::Commit(i) => {
                let t = r.txns[*i as usize].clone();
                let res = guarded(|| g.commit_transaction(t.tid).map_err(|x| x.to_string()));
                let res = match res {
                    Ok(x) => x,
                    Err(p) => {
                        vio.push(("panic:commit".into(), format!("commit_transaction panicked: {p}")));
                        return Step { violations: vio, outcome: "panic".into() };
                    }
                };
                if t.status == RStatus::Active {
                    let conflict: Vec<u8> = t.writes.iter().copied().filter(|e| r.last_commit[*e as usize] > t.begin).collect();
                    match (&res, conflict.is_empty()) {
                        (Ok(v), true) => {
                            if *v <= r.max_commit || *v <= r.clock {
                                vio.push(("commit:version_not_increasing".into(), format!("commit returned version {v}; latest committed version was {}", r.clock)));
                            }
                            r.clock = *v;
                            r.max_commit = *v;
                            for e in &t.writes {
                                r.last_commit[*e as usize] = *v;
                            }
                            r.txns[*i as usize].status = RStatus::Committed(*v);
                            outcome = "committed".into();
                        }
                        (Err(_), false) => {
                            r.txns[*i as usize].how = format!("r{:?}", t.writes);
                            r.txns[*i as usize].status = RStatus::Aborted;
                            outcome = "refused:conflict".into();
                        }
                        (Ok(v), false) => {
                            let what: Vec<&str> = conflict.iter().map(|e| ENT[*e as usize]).collect();
                            vio.push((
                                format!("commit:conflict_missed:{}", if conflict.iter().any(|e| *e == 2) { "edge" } else { "node" }),
                                format!("commit of txn {} (began at {}) succeeded with version {v} although {what:?} was committed at {:?} after it began", t.tid, t.begin, conflict.iter().map(|e| r.last_commit[*e as usize]).collect::<Vec<_>>()),
                            ));
                            outcome = "committed(!)".into();
                        }
                        (Err(e), true) => {
                            vio.push(("commit:spurious_refusal".into(), format!("commit of txn {} (began at {}, writes {:?}, last commits {:?}) refused: {e}", t.tid, t.begin, t.writes, r.last_commit)));
                            outcome = "refused(!)".into();
                        }
                    }
                } else {
                    // finished transaction: must be refused and must change nothing
                    match res {
                        Ok(v) => {
                            vio.push(("commit:finished_txn_accepted".into(), format!("commit of finished txn {} ({:?}) succeeded with version {v}", t.tid, t.status)));
                            outcome = "committed(!)".into();
                        }
                        Err(_) => outcome = "refused:finished".into(),
                    }
                }
            }
            Op::Abort(i) => {
                let t = r.txns[*i as usize].clone();
                let res = guarded(|| g.abort_transaction(t.tid).map_err(|x| x.to_string()));
                let res = match res {
                    Ok(x) => x,
                    Err(p) => {
                        vio.push(("panic:abort".into(), format!("abort_transaction panicked: {p}")));
                        return Step { violations: vio, outcome: "panic".into() };
                    }
                };
                if t.status == RStatus::Active {
                    match res {
                        Ok(()) => outcome = "aborted".into(),
                        Err(e) => {
                            vio.push(("abort:refused".into(), format!("abort of active txn {} refused: {e}", t.tid)));
                            outcome = "refused(!)".into();
                        }
                    }
                    r.txns[*i as usize].status = RStatus::Aborted;
                } else {
                    match res {
                        Ok(()) => {
                            vio.push(("abort:finished_txn_accepted".into(), format!("abort of finished txn {} ({:?}) succeeded", t.tid, t.status)));
                            outcome = "aborted(!)".into();
                        }
                        Err(_) => outcome = "refused:finished".into(),
                    }
                }
            }
            Op::GcNow => {
                let at = g.current_version;
                match guarded(|| g.gc_versions(at)) {
                    Ok((n, e)) => outcome = if n + e > 0 { "pruned".into() } else { "nothing".into() },
                    Err(p) => {
                        vio.push(("panic:gc_versions".into(), format!("gc_versions({at}) panicked: {p}")));
                        outcome = "panic".into();
                    }
                }
            }
            Op::GcAuto => match guarded(|| g.gc_auto()) {
                Ok((n, e)) => outcome = if n + e > 0 { "pruned".into() } else { "nothing".into() },
                Err(p) => {
                    vio.push(("panic:gc_auto".into(), format!("gc_auto panicked: {p}")));
                    outcome = "panic".into();
                }
            },
        }
        if check {
            // every active transaction reads every entity at the version its level prescribes
            for t in r.txns.iter().filter(|t| t.status == RStatus::Active) {
                let want_version = if t.si { t.begin } else { r.clock };
                for e in 0..3u8 {
                    let tid = t.tid;
                    let got = guarded(|| read_txn(g, tid, e));
                    let want = guarded(|| read_at(g, e, want_version));
                    match (got, want) {
                        (Ok(got), Ok(want)) => {
                            if got != want {
                                vio.push((
                                    format!("read:{}:{}", if t.si { "SI" } else { "RC" }, if e == 2 { "edge" } else { "node" }),
                                    format!(
                                        "txn {} ({}, began at {}, latest committed {}) reads {} as (version,p)={got:?}; the store's own read at the prescribed version {want_version} is {want:?}",
                                        t.tid,
                                        if t.si { "SnapshotIsolation" } else { "ReadCommitted" },
                                        t.begin,
                                        r.clock,
                                        ENT[e as usize]
                                    ),
                                ));
                            }
                        }
                        _ => vio.push(("panic:read".into(), format!("a transactional read of {} panicked", ENT[e as usize]))),
                    }
                }
            }
            // RC must read the latest committed version: the store's counter has to be that version
            if g.current_version != r.clock {
                vio.push(("commit:version_not_current".into(), format!("store current_version = {}, latest version returned by a commit = {}", g.current_version, r.clock)));
            }
        }
        Step { violations: vio, outcome }
    }
    fn key(&self, st: &St) -> String {
        let r = &st.r;
        let g = &st.g;
        let mut s = format!("c{}|lc{:?}|", r.clock, r.last_commit);
        for t in &r.txns {
            // implementation-only: is a finished transaction still in the table (gc retires them)?
            let retained = match g.active_transactions.get(&t.tid) {
                None => "gone",
                Some(x) => match x.status {
                    TxnStatus::Active => "A",
                    TxnStatus::Committed => "C",
                    TxnStatus::Aborted => "X",
                },
            };
            let st = match &t.status {
                RStatus::NotBegun => "n".to_string(),
                RStatus::Active => format!("a{}{}{:?}", if t.si { "S" } else { "R" }, t.begin, t.writes),
                // a finished transaction's future is the same whatever it did: refused
                RStatus::Committed(_) => "c".to_string(),
                // ... except that *how* it was aborted is kept apart: a refused commit runs the
                // validation code over its write set, and whatever that leaves behind (hidden state
                // such as the last-commit stamps) must not be merged with an explicit abort, or a
                // defect there is never expanded (seeded change C09: stamps written before the
                // relationship validation fails)
                // ... and *what* the aborted transaction had written: an abort that touches hidden
                // per-entity state (the last-commit stamps) for its write set decides whether a later
                // commit of another transaction is refused (seeded change C09b: abort erases the
                // stamps of the entities it wrote)
                RStatus::Aborted => format!("x{}{:?}", t.how, t.writes),
            };
            s.push_str(&format!("{st}/{}|", if t.status == RStatus::NotBegun { "-" } else { retained }));
        }
        // stored data: what every entity reads as at every version so far (chains / logs after gc)
        for e in 0..3u8 {
            for v in 0..=r.clock {
                s.push_str(&format!("{:?};", read_at(g, e, v)));
            }
            s.push('|');
        }
        s
    }
}

fn alphabet(ntx: usize) -> String {
    format!("per transaction t in 0..{ntx}: begin(RC|SI), write(node a|node b|edge e) = txn_write_* + property write p:=current version, commit, abort (commit/abort also on finished transactions); gc_auto and gc_versions(current_version) at every point")
}

fn main() {
    run_check("C09", Level::ModelChecking, |ctx| {
        let ntx = ctx.tier.pick(2, 3);
        let m = M { ntx, data_writes: true };
        if let Some(p) = &ctx.replay {
            replay(ctx, p);
            return;
        }
        // the space is finite (versions <= 1 + ntx); explore to the fixpoint
        let max_depth = 64;
        let mut distinguishable = 0u64;
        let stats = hx::explore(&m, max_depth, 20_000_000, |v| {
            ctx.violation(&v.sig, v.msg, json!({"ntx": ntx, "history": v.history.iter().map(|o| format!("{:?}", o)).collect::<Vec<_>>()}));
        });
        hx::report(ctx, &stats, &alphabet(ntx));
        let fixpoint = !stats.cap_hit && stats.per_depth_states.last().copied() == Some(0);
        ctx.cov("fixpoint_reached", fixpoint);
        ctx.cov("transactions", ntx as u64);
        // second pass with one more transaction over the bookkeeping-only variant (no data writes):
        // the pure FCW automaton (results, versions, refusals), cheaper per state
        let ntx2 = ntx + 1;
        let m2 = M { ntx: ntx2, data_writes: false };
        let stats2 = hx::explore(&m2, max_depth, 20_000_000, |v| {
            ctx.violation(&format!("{}@nodata", v.sig), v.msg, json!({"ntx": ntx2, "data_writes": false, "history": v.history.iter().map(|o| format!("{:?}", o)).collect::<Vec<_>>()}));
        });
        ctx.cov("bookkeeping_only_pass", json!({"transactions": ntx2, "states": stats2.states, "transitions": stats2.transitions, "max_depth": stats2.max_depth, "cap_hit": stats2.cap_hit, "fixpoint_reached": !stats2.cap_hit && stats2.per_depth_states.last().copied() == Some(0)}));
        // how many of the explored outcomes were of each kind (non-vacuity)
        let oc = |op: &str, k: &str| stats.outcomes_per_op.get(op).and_then(|m| m.get(k)).copied().unwrap_or(0);
        ctx.cov(
            "commit_outcomes",
            json!({"committed": oc("Commit", "committed"), "refused_conflict": oc("Commit", "refused:conflict"), "refused_finished": oc("Commit", "refused:finished"),
                   "abort_ok": oc("Abort", "aborted"), "abort_refused_finished": oc("Abort", "refused:finished"), "gc_pruned": oc("GcAuto", "pruned"), "gc_now_pruned": oc("GcNow", "pruned")}),
        );
        // measure how often SI and RC prescriptions differ observably on the explored states
        // (cheap re-walk of a bounded prefix of the space: depth <= 7)
        {
            let m3 = M { ntx: 2, data_writes: true };
            let mut frontier: Vec<Vec<Op>> = vec![vec![]];
            for _ in 0..7 {
                let mut next = vec![];
                for h in &frontier {
                    let st = hx::rebuild(&m3, h);
                    for t in st.r.txns.iter().filter(|t| t.status == RStatus::Active && t.si) {
                        for e in 0..3u8 {
                            if read_at(&st.g, e, t.begin) != read_at(&st.g, e, st.r.clock) {
                                distinguishable += 1;
                            }
                        }
                    }
                    if h.len() < 6 {
                        for op in m3.ops(&st) {
                            if matches!(op, Op::GcAuto | Op::GcNow) {
                                continue;
                            }
                            let mut h2 = h.clone();
                            h2.push(op);
                            next.push(h2);
                        }
                    }
                }
                frontier = next;
                if frontier.len() > 300_000 {
                    break;
                }
            }
        }
        ctx.cov("si_reads_where_begin_version_and_current_version_differ_observably", distinguishable);
        ctx.assume("commit is judged by the abstract automaton: succeeds iff no entity in the write set has a commit stamp later than the transaction's begin stamp; a refused commit finishes the transaction");
        ctx.assume("'increasing versions': a successful commit must return a version greater than every earlier one and the store's current_version must equal it (RC reads 'the latest committed version')");
        ctx.assume("transactional reads are judged differentially: get_*_for_txn must equal the store's own get_*_at_version at the prescribed version (RC: latest committed, SI: begin). Whether a versioned read returns the right historical state is C07/C08, not C09; uncommitted writes being visible (they are applied in place) is outside the property text and not judged");
        ctx.assume("reads of finished or retired transactions are not judged (the property speaks about what a transaction reads while it runs)");
        ctx.assume("writes are issued only by active transactions; commit/abort are also issued on finished transactions and after gc_auto retired them (must be refused: TransactionNotFound and TransactionNotActive are both refusals)");
    });
}

fn replay(ctx: &svmc::Ctx, p: &std::path::Path) {
    let doc: serde_json::Value = serde_json::from_str(&std::fs::read_to_string(p).expect("read replay")).expect("json");
    let w = &doc["witness"];
    let ntx = w["ntx"].as_u64().unwrap_or(3) as usize;
    let m = M { ntx, data_writes: w["data_writes"].as_bool().unwrap_or(true) };
    let hist: Vec<String> = w["history"].as_array().unwrap().iter().map(|s| s.as_str().unwrap().to_string()).collect();
    let mut st = m.init();
    for (i, want) in hist.iter().enumerate() {
        let ops = m.ops(&st);
        let op = ops.iter().find(|o| &format!("{:?}", o) == want).unwrap_or_else(|| ctx.machinery(&format!("replay: op {want} not enabled at step {i}")));
        let step = m.apply(&mut st, op, true);
        println!("step {i}: {want} -> {}   [reference: clock={} last_commit={:?} txns={:?}]", step.outcome, st.r.clock, st.r.last_commit, st.r.txns.iter().map(|t| format!("{:?}@{}{:?}", t.status, t.begin, t.writes)).collect::<Vec<_>>());
        for (sig, msg) in step.violations {
            println!("  MISMATCH [{sig}] {msg}");
            ctx.violation(&sig, msg, json!({"ntx": ntx, "history": hist[..=i]}));
        }
    }
    if ctx.violation_count() == 0 {
        println!("replay: implementation and first-committer-wins automaton agree on every step");
    }
}
