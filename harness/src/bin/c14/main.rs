//! C14 — persisted snapshot imports survive restart and crashes during persistence.
//!
//! crashfs on `persist_snapshot` / `restore_persisted_snapshots` (DESIGN §C14).
//! Ground truth by syscall trace: a worker (`c14 --persist-worker <data_path> <file>`) performs the
//! k-th `persist_snapshot` under `strace`; the trace is parsed into file-system operations on
//! the snapshot directory; from them
//!   (a) process-crash states  = every prefix of the operation list (the OS keeps what it saw),
//!   (b) power-loss states     = prefix + file contents durable only up to the file's last
//!       fsync (every / three truncations of the unsynced tail) + every subset of the directory
//!       operations (create, rename, unlink — none is followed by a directory fsync) lost,
//! are materialised in fresh directories and handed to the real `restore_persisted_snapshots`
//! with a fresh store. Oracle: the restored graph is isomorphic to the live graph after import
//! k-1 or after import k (cumulative, as `restore_snapshot_handler` builds it), never anything
//! else, and never an error; a clean restart yields the graph after import k.
//! The eight `snap.*` hook points are a cross-check (every directory image seen at a hook must
//! be one of the trace's process-crash images) and the fallback when strace is unavailable.
#[path = "../c12/shared.rs"]
mod shared;

use samyama::graph::{GraphStore, PropertyValue};
use samyama::snapshot::persist::{persist_snapshot, restore_persisted_snapshots};
use serde_json::{json, Value as J};
use shared::*;
use std::collections::{BTreeMap, BTreeSet};
use std::path::{Path, PathBuf};
use std::sync::{Arc, Mutex};
use svmc::engine::ctx::guarded;
use svmc::{run_check, Ctx, Level, Tier};

const LABELS: [&str; 3] = ["A", "B", "C"];
const KEYS: [&str; 1] = ["k"];
const FINAL: &str = "default.sgsnap";
const TMP: &str = "default.sgsnap.tmp";
const MARKER: &str = "default.sgsnap.committed";

type Image = BTreeMap<String, Vec<u8>>;

// ---------------------------------------------------------------------------------------------
// file-system operations and the crash model
// ---------------------------------------------------------------------------------------------
#[derive(Clone, Debug, PartialEq)]
enum Op {
    Mkdir(String),
    /// open with O_CREAT (file name relative to the snapshot dir), fd, O_TRUNC?
    Create { name: String, fd: i64, trunc: bool },
    Write { fd: i64, n: usize },
    Fsync { fd: i64 },
    Close { fd: i64 },
    Rename { from: String, to: String },
    Unlink { name: String },
    FsyncDir,
}
impl Op {
    fn show(&self) -> String {
        match self {
            Op::Mkdir(p) => format!("mkdir({p})"),
            Op::Create { name, trunc, .. } => format!("open({name}, O_CREAT{})", if *trunc { "|O_TRUNC" } else { "" }),
            Op::Write { n, .. } => format!("write({n} bytes)"),
            Op::Fsync { .. } => "fsync(file)".into(),
            Op::Close { .. } => "close".into(),
            Op::Rename { from, to } => format!("rename({from} -> {to})"),
            Op::Unlink { name } => format!("unlink({name})"),
            Op::FsyncDir => "fsync(directory)".into(),
        }
    }
}

#[derive(Clone, Debug)]
struct Inode {
    content: Vec<u8>,
    synced: usize,
    /// existed (durably) before the traced persist
    old: bool,
}
#[derive(Clone, Debug)]
enum DirOp {
    Link(String, usize),
    Rename(String, String),
    Unlink(String),
}
#[derive(Clone, Debug, Default)]
struct Fs {
    names: BTreeMap<String, usize>,
    inodes: Vec<Inode>,
    fds: BTreeMap<i64, usize>,
    /// directory operations not yet covered by a directory fsync
    pending: Vec<DirOp>,
    /// durable directory (initial image + dir ops covered by a directory fsync)
    durable_names: BTreeMap<String, usize>,
}
impl Fs {
    fn from_image(img: &Image) -> Fs {
        let mut fs = Fs::default();
        for (n, c) in img {
            fs.inodes.push(Inode { content: c.clone(), synced: c.len(), old: true });
            fs.names.insert(n.clone(), fs.inodes.len() - 1);
        }
        fs.durable_names = fs.names.clone();
        fs
    }
    fn apply(&mut self, op: &Op, payload: &[u8]) {
        match op {
            Op::Mkdir(_) => {}
            Op::Create { name, fd, trunc } => {
                let ino = match self.names.get(name) {
                    Some(&i) => {
                        if *trunc {
                            self.inodes[i].content.clear();
                            self.inodes[i].synced = 0;
                        }
                        i
                    }
                    None => {
                        self.inodes.push(Inode { content: vec![], synced: 0, old: false });
                        let i = self.inodes.len() - 1;
                        self.names.insert(name.clone(), i);
                        self.pending.push(DirOp::Link(name.clone(), i));
                        i
                    }
                };
                self.fds.insert(*fd, ino);
            }
            Op::Write { fd, n } => {
                if let Some(&i) = self.fds.get(fd) {
                    let off = self.inodes[i].content.len();
                    let end = (off + n).min(payload.len());
                    let chunk = if off < end { payload[off..end].to_vec() } else { vec![0u8; *n] };
                    self.inodes[i].content.extend(chunk);
                }
            }
            Op::Fsync { fd } => {
                if let Some(&i) = self.fds.get(fd) {
                    self.inodes[i].synced = self.inodes[i].content.len();
                }
            }
            Op::Close { fd } => {
                self.fds.remove(fd);
            }
            Op::Rename { from, to } => {
                if let Some(i) = self.names.remove(from) {
                    self.names.insert(to.clone(), i);
                    self.pending.push(DirOp::Rename(from.clone(), to.clone()));
                }
            }
            Op::Unlink { name } => {
                if self.names.remove(name).is_some() {
                    self.pending.push(DirOp::Unlink(name.clone()));
                }
            }
            Op::FsyncDir => {
                self.durable_names = self.names.clone();
                self.pending.clear();
            }
        }
    }
    /// what a process crash leaves: everything the OS saw
    fn crash_image(&self) -> Image {
        self.names.iter().map(|(n, &i)| (n.clone(), self.inodes[i].content.clone())).collect()
    }
    /// power-loss images: every subset of pending directory operations kept, every admissible
    /// durable length of unsynced contents (`all_lengths`: every length, else synced / half / full)
    fn power_loss_images(&self, all_lengths: bool) -> Vec<(Image, String)> {
        let mut out = vec![];
        let p = self.pending.len();
        for mask in 0u32..(1 << p) {
            let mut names = self.durable_names.clone();
            for (j, d) in self.pending.iter().enumerate() {
                if mask & (1 << j) == 0 {
                    continue;
                }
                match d {
                    DirOp::Link(n, i) => {
                        names.insert(n.clone(), *i);
                    }
                    DirOp::Rename(a, b) => {
                        if let Some(i) = names.remove(a) {
                            names.insert(b.clone(), i);
                        }
                    }
                    DirOp::Unlink(n) => {
                        names.remove(n);
                    }
                }
            }
            // length choices per linked inode with an unsynced tail
            let linked: Vec<(String, usize)> = names.iter().map(|(n, &i)| (n.clone(), i)).collect();
            let mut choices: Vec<Vec<usize>> = vec![];
            for (_, i) in &linked {
                let ino = &self.inodes[*i];
                let (lo, hi) = (ino.synced.min(ino.content.len()), ino.content.len());
                let mut c: Vec<usize> = if all_lengths { (lo..=hi).collect() } else { vec![lo, (lo + hi) / 2, hi] };
                c.sort();
                c.dedup();
                choices.push(c);
            }
            let radices: Vec<usize> = choices.iter().map(|c| c.len()).collect();
            for pick in svmc::engine::odometer::mixed(radices) {
                let mut img = Image::new();
                let mut lens = vec![];
                for (idx, (n, i)) in linked.iter().enumerate() {
                    let len = choices[idx][pick[idx]];
                    img.insert(n.clone(), self.inodes[*i].content[..len].to_vec());
                    if len != self.inodes[*i].content.len() {
                        lens.push(format!("{n} durable to {len}/{}", self.inodes[*i].content.len()));
                    }
                }
                let kept: Vec<String> = self.pending.iter().enumerate().map(|(j, d)| format!("{}{:?}", if mask & (1 << j) != 0 { "kept " } else { "LOST " }, d)).collect();
                out.push((img, format!("dir ops: [{}]; {}", kept.join(", "), if lens.is_empty() { "contents complete".to_string() } else { lens.join(", ") })));
            }
        }
        out
    }
}

// ---------------------------------------------------------------------------------------------
// strace
// ---------------------------------------------------------------------------------------------
fn strace_available() -> bool {
    std::process::Command::new("strace").arg("-V").stdout(std::process::Stdio::null()).stderr(std::process::Stdio::null()).status().map(|s| s.success()).unwrap_or(false)
}

fn quoted(s: &str) -> Vec<String> {
    // all "..." strings of a strace line (paths are printed in full, C-escaped)
    let mut out = vec![];
    let b = s.as_bytes();
    let mut i = 0;
    while i < b.len() {
        if b[i] == b'"' {
            let mut j = i + 1;
            let mut cur = String::new();
            while j < b.len() && b[j] != b'"' {
                if b[j] == b'\\' && j + 1 < b.len() {
                    cur.push(b[j + 1] as char);
                    j += 2;
                } else {
                    cur.push(b[j] as char);
                    j += 1;
                }
            }
            out.push(cur);
            i = j + 1;
        } else {
            i += 1;
        }
    }
    out
}

fn parse_trace(text: &str, snapdir: &str) -> Result<Vec<Op>, String> {
    let mut ops = vec![];
    let mut our_fds: BTreeSet<i64> = BTreeSet::new();
    let mut dir_fds: BTreeSet<i64> = BTreeSet::new();
    let rel = |p: &str| -> Option<String> { p.strip_prefix(snapdir).map(|r| r.trim_start_matches('/').to_string()) };
    for raw in text.lines() {
        // "-f -o" prefixes each record with the pid ("12345 openat(...")
        let line = raw.trim_start();
        let line = if line.starts_with("[pid") { line.split_once(']').map(|x| x.1).unwrap_or(line) } else { line };
        let line = line.trim_start().trim_start_matches(|c: char| c.is_ascii_digit()).trim_start();
        if line.contains("<unfinished") || line.contains("resumed>") {
            if line.contains(snapdir) {
                return Err(format!("split strace record touching the snapshot dir: {raw}"));
            }
            continue;
        }
        let Some(paren) = line.find('(') else { continue };
        let name = &line[..paren];
        let ret: i64 = match line.rfind(" = ") {
            Some(p) => line[p + 3..].split_whitespace().next().and_then(|x| x.parse().ok()).unwrap_or(-1),
            None => continue,
        };
        let first_int = || -> Option<i64> { line[paren + 1..].split(|c| c == ',' || c == ')').next().and_then(|x| x.trim().parse().ok()) };
        match name {
            "mkdir" | "mkdirat" => {
                let q = quoted(line);
                if let Some(p) = q.first() {
                    if p.starts_with(snapdir) && ret == 0 {
                        ops.push(Op::Mkdir(p.clone()));
                    }
                }
            }
            "openat" | "open" | "creat" => {
                let q = quoted(line);
                let Some(p) = q.first() else { continue };
                if ret < 0 {
                    continue;
                }
                if p.trim_end_matches('/') == snapdir.trim_end_matches('/') {
                    dir_fds.insert(ret);
                    continue;
                }
                let Some(r) = rel(p) else { continue };
                if r.contains('/') {
                    continue;
                }
                if line.contains("O_CREAT") || name == "creat" {
                    our_fds.insert(ret);
                    ops.push(Op::Create { name: r, fd: ret, trunc: line.contains("O_TRUNC") || name == "creat" });
                } else if line.contains("O_WRONLY") || line.contains("O_RDWR") {
                    return Err(format!("snapshot file opened for writing without O_CREAT (not modelled): {raw}"));
                }
            }
            "write" | "pwrite64" => {
                if let Some(fd) = first_int() {
                    if our_fds.contains(&fd) && ret > 0 {
                        ops.push(Op::Write { fd, n: ret as usize });
                    }
                }
            }
            "fsync" | "fdatasync" => {
                if let Some(fd) = first_int() {
                    if ret == 0 && our_fds.contains(&fd) {
                        ops.push(Op::Fsync { fd });
                    } else if ret == 0 && dir_fds.contains(&fd) {
                        ops.push(Op::FsyncDir);
                    }
                }
            }
            "close" => {
                if let Some(fd) = first_int() {
                    if our_fds.remove(&fd) {
                        ops.push(Op::Close { fd });
                    }
                    dir_fds.remove(&fd);
                }
            }
            "rename" | "renameat" | "renameat2" => {
                let q = quoted(line);
                if q.len() >= 2 && ret == 0 {
                    match (rel(&q[0]), rel(&q[1])) {
                        (Some(a), Some(b)) => ops.push(Op::Rename { from: a, to: b }),
                        (None, None) => {}
                        _ => return Err(format!("rename across the snapshot dir boundary: {raw}")),
                    }
                }
            }
            "unlink" | "unlinkat" => {
                let q = quoted(line);
                if let Some(r) = q.first().and_then(|p| rel(p)) {
                    if ret == 0 {
                        ops.push(Op::Unlink { name: r });
                    }
                }
            }
            _ => {}
        }
    }
    Ok(ops)
}

fn read_image(data_path: &Path) -> Image {
    let mut img = Image::new();
    if let Ok(rd) = std::fs::read_dir(data_path.join("snapshots")) {
        for e in rd.flatten() {
            if let Ok(c) = std::fs::read(e.path()) {
                img.insert(e.file_name().to_string_lossy().to_string(), c);
            }
        }
    }
    img
}
fn write_image(data_path: &Path, img: &Image, with_dir: bool) {
    let _ = std::fs::remove_dir_all(data_path);
    std::fs::create_dir_all(data_path).expect("mkdir state dir");
    if with_dir {
        let d = data_path.join("snapshots");
        std::fs::create_dir_all(&d).expect("mkdir snapshots");
        for (n, c) in img {
            std::fs::write(d.join(n), c).expect("write state file");
        }
    }
}

// ---------------------------------------------------------------------------------------------
// graphs
// ---------------------------------------------------------------------------------------------
fn node(labels: &[&str], k: i64) -> NodeSpec {
    NodeSpec { labels: labels.iter().map(|l| l.to_string()).collect(), props: vec![("k".into(), PropertyValue::Integer(k))] }
}
fn snapshot_specs() -> Vec<(&'static str, GraphSpec)> {
    vec![
        ("a", GraphSpec { nodes: vec![node(&["A"], 1)], edges: vec![] }),
        ("b", GraphSpec { nodes: vec![node(&["B"], 2), node(&["B"], 3)], edges: vec![EdgeSpec { src: 0, dst: 1, ty: "R".into(), props: vec![] }] }),
        ("c", GraphSpec { nodes: vec![node(&["C"], 4)], edges: vec![EdgeSpec { src: 0, dst: 0, ty: "S".into(), props: vec![("w".into(), PropertyValue::Integer(1))] }] }),
    ]
}

fn plain_of_store(st: &GraphStore) -> Plain {
    Plain::of(&dump(st, &LABELS, &KEYS))
}

struct Restored {
    plain: Plain,
    result: String,
    is_err: bool,
}
fn restore(data_path: &Path) -> Restored {
    let mut st = GraphStore::new();
    let r = guarded(|| restore_persisted_snapshots(&data_path.to_string_lossy(), &mut st).map(|o| o.map(|s| (s.node_count, s.edge_count))).map_err(|e| e.to_string()));
    let (result, is_err) = match &r {
        Ok(Ok(Some(s))) => (format!("Ok(Some{s:?})"), false),
        Ok(Ok(None)) => ("Ok(None)".to_string(), false),
        Ok(Err(e)) => (format!("Err({e})"), true),
        Err(p) => (format!("panic: {p}"), true),
    };
    Restored { plain: plain_of_store(&st), result, is_err }
}

// ---------------------------------------------------------------------------------------------
// one (history, k) analysis
// ---------------------------------------------------------------------------------------------
struct Hist {
    names: Vec<&'static str>,
    bytes: Vec<Vec<u8>>,
    /// cumulative live graph after import j (index j, 0 = empty)
    cumulative: Vec<Plain>,
    /// content of import j alone (index j-1)
    alone: Vec<Plain>,
}

struct Analysis {
    ops: Vec<Op>,
    source: &'static str,
    states: u64,
    distinct_images: u64,
    nontrivial: u64,
    hook_images_checked: u64,
    /// power-loss images of the *complete* operation list (persist returned Ok) that do not restore the new graph
    post_ack_not_new: u64,
    /// (signature, message, witness)
    violations: Vec<(String, String, J)>,
    outcome_count: BTreeMap<String, u64>,
}

fn scratch(tag: &str) -> PathBuf {
    use std::sync::atomic::{AtomicU64, Ordering};
    static N: AtomicU64 = AtomicU64::new(0);
    let p = svmc::engine::ctx::verif_dir().join("target").join("tmp").join(format!("c14-{}-{}-{}", std::process::id(), tag, N.fetch_add(1, Ordering::SeqCst)));
    std::fs::create_dir_all(&p).expect("scratch dir");
    p
}

/// hook-point directory images of one in-process persist (cross-check / fallback)
fn hook_images(d0: &Image, payload: &[u8]) -> Vec<(String, Image)> {
    let dir = scratch("hook");
    write_image(&dir, d0, !d0.is_empty());
    let seen: Arc<Mutex<Vec<(String, Image)>>> = Arc::new(Mutex::new(vec![]));
    let s2 = seen.clone();
    let d2 = dir.clone();
    samyama::verif_hooks::set_callback(Some(Arc::new(move |label: &'static str, _arg: u64| {
        if label.starts_with("snap.") {
            s2.lock().unwrap().push((label.to_string(), read_image(&d2)));
        }
    })));
    let r = guarded(|| persist_snapshot(&dir.to_string_lossy(), payload));
    samyama::verif_hooks::set_callback(None);
    let _ = std::fs::remove_dir_all(&dir);
    let _ = r;
    let v = seen.lock().unwrap().clone();
    v
}

/// operation list reconstructed from consecutive hook images (fallback without strace)
fn ops_from_hooks(d0: &Image, hooks: &[(String, Image)]) -> Vec<Op> {
    let mut ops = vec![];
    let mut prev = d0.clone();
    let mut fd = 100i64;
    let mut open: BTreeMap<String, i64> = BTreeMap::new();
    for (label, img) in hooks {
        let gone: Vec<String> = prev.keys().filter(|k| !img.contains_key(*k)).cloned().collect();
        let new: Vec<String> = img.keys().filter(|k| !prev.contains_key(*k)).cloned().collect();
        let mut renamed = BTreeSet::new();
        for g in &gone {
            // rename target: a new name, or an existing name whose content became the vanished file's
            let target = img.keys().find(|n| img[*n] == prev[g] && !renamed.contains(*n) && (!prev.contains_key(*n) || prev[*n] != img[*n]));
            if let Some(n) = target {
                ops.push(Op::Rename { from: g.clone(), to: n.clone() });
                if let Some(f) = open.remove(g) {
                    open.insert(n.clone(), f);
                }
                renamed.insert(n.clone());
            } else {
                ops.push(Op::Unlink { name: g.clone() });
            }
        }
        for n in &new {
            if renamed.contains(n) {
                continue;
            }
            fd += 1;
            open.insert(n.clone(), fd);
            ops.push(Op::Create { name: n.clone(), fd, trunc: true });
            if !img[n].is_empty() {
                ops.push(Op::Write { fd, n: img[n].len() });
            }
        }
        for (n, c) in img {
            if renamed.contains(n) {
                continue;
            }
            if let Some(p) = prev.get(n) {
                if c.len() > p.len() {
                    let f = *open.entry(n.clone()).or_insert_with(|| {
                        fd += 1;
                        fd
                    });
                    ops.push(Op::Write { fd: f, n: c.len() - p.len() });
                }
            }
        }
        if label == "snap.after_fsync_tmp" {
            if let Some(f) = open.get(TMP) {
                ops.push(Op::Fsync { fd: *f });
            }
        }
        if label == "snap.after_fsync_marker" {
            if let Some(f) = open.get(MARKER) {
                ops.push(Op::Fsync { fd: *f });
            }
        }
        prev = img.clone();
    }
    ops
}

fn analyse(h: &Hist, tier: Tier, use_strace: bool, keep_trace: &mut Option<String>) -> Result<Analysis, String> {
    let k = h.bytes.len();
    // D0: the directory after the k-1 earlier (complete) persists
    let d0dir = scratch("d0");
    for b in &h.bytes[..k - 1] {
        persist_snapshot(&d0dir.to_string_lossy(), b).map_err(|e| format!("earlier persist failed: {e}"))?;
    }
    let d0 = read_image(&d0dir);
    let payload = &h.bytes[k - 1];
    let hooks = hook_images(&d0, payload);
    // the traced k-th persist
    let (ops, source) = if use_strace {
        let run = scratch("run");
        write_image(&run, &d0, k > 1);
        let payload_file = run.join("payload.bin");
        std::fs::write(&payload_file, payload).map_err(|e| e.to_string())?;
        let trace_file = run.join("trace.txt");
        let exe = std::env::current_exe().map_err(|e| e.to_string())?;
        let st = std::process::Command::new("strace")
            .args(["-f", "-e", "trace=open,openat,creat,write,pwrite64,fsync,fdatasync,rename,renameat,renameat2,unlink,unlinkat,mkdir,mkdirat,close", "-o"])
            .arg(&trace_file)
            .arg(&exe)
            .arg("--persist-worker")
            .arg(&run)
            .arg(&payload_file)
            .stdout(std::process::Stdio::null())
            .stderr(std::process::Stdio::null())
            .status()
            .map_err(|e| format!("strace spawn: {e}"))?;
        if !st.success() {
            return Err(format!("traced worker exited with {st}"));
        }
        let text = std::fs::read_to_string(&trace_file).map_err(|e| e.to_string())?;
        let snapdir = run.join("snapshots").to_string_lossy().to_string();
        let ops = parse_trace(&text, &snapdir)?;
        // the model must reproduce what the real run left behind
        let mut fs = Fs::from_image(&d0);
        for o in &ops {
            fs.apply(o, payload);
        }
        let real = read_image(&run);
        if fs.crash_image() != real {
            return Err(format!("trace model does not reproduce the directory the traced run left: model {:?} real {:?} ops {:?}", fs.crash_image().keys().collect::<Vec<_>>(), real.keys().collect::<Vec<_>>(), ops));
        }
        if keep_trace.is_none() {
            *keep_trace = Some(text.lines().filter(|l| l.contains(&snapdir) || l.contains("fsync") || l.contains("write(")).take(40).collect::<Vec<_>>().join("\n"));
        }
        let _ = std::fs::remove_dir_all(&run);
        (ops, "strace")
    } else {
        (ops_from_hooks(&d0, &hooks), "hooks")
    };
    let _ = std::fs::remove_dir_all(&d0dir);

    // enumerate states
    let mut fs = Fs::from_image(&d0);
    // image -> first description; crash kind
    let mut images: BTreeMap<Image, (String, String)> = BTreeMap::new();
    let mut states = 0u64;
    let mut crash_images: BTreeSet<Image> = BTreeSet::new();
    let mut post_ack: BTreeSet<Image> = BTreeSet::new();
    let all_lengths = tier == Tier::Thorough;
    for i in 0..=ops.len() {
        if i > 0 {
            fs.apply(&ops[i - 1], payload);
        }
        let prefix = format!("after {} of {} operations [{}]", i, ops.len(), ops[..i].iter().map(|o| o.show()).collect::<Vec<_>>().join(", "));
        let ci = fs.crash_image();
        states += 1;
        crash_images.insert(ci.clone());
        images.entry(ci).or_insert_with(|| ("process crash".into(), prefix.clone()));
        for (img, desc) in fs.power_loss_images(all_lengths) {
            states += 1;
            if i == ops.len() {
                post_ack.insert(img.clone());
            }
            images.entry(img).or_insert_with(|| ("power loss".into(), format!("{prefix}; {desc}")));
        }
    }
    // cross-check with the hook points
    let mut hook_checked = 0u64;
    for (label, img) in &hooks {
        hook_checked += 1;
        if !crash_images.contains(img) {
            return Err(format!("directory image at hook {label} ({:?}) is not among the {} process-crash images derived from {source}", img.iter().map(|(k, v)| (k, v.len())).collect::<Vec<_>>(), crash_images.len()));
        }
    }
    let mut an = Analysis { ops: ops.clone(), source, states, distinct_images: images.len() as u64, nontrivial: 0, hook_images_checked: hook_checked, post_ack_not_new: 0, violations: vec![], outcome_count: BTreeMap::new() };
    let prev_g = &h.cumulative[k - 1];
    let new_g = &h.cumulative[k];
    let empty = Plain { nodes: vec![], edges: vec![] };
    let had_marker = d0.contains_key(MARKER);
    let state_dir = scratch("state");
    for (img, (kind, desc)) in &images {
        if *img != d0 && *img != fs.crash_image() {
            an.nontrivial += 1;
        }
        write_image(&state_dir, img, true);
        let r = restore(&state_dir);
        let is = |p: &Plain| iso(&r.plain, p).is_some();
        let witness = || json!({"history": h.names, "k": k, "crash": kind, "state": desc, "directory": img.iter().map(|(n, c)| json!({"file": n, "bytes": c.len()})).collect::<Vec<_>>(), "files_hex": img.iter().map(|(n, c)| (n.clone(), hex(c))).collect::<BTreeMap<_, _>>(), "restore_result": r.result, "restored": r.plain.to_json(), "expected_either": [prev_g.to_json(), new_g.to_json()]});
        let outcome;
        if r.is_err {
            outcome = "restore_error";
            an.violations.push((format!("{}:restore_fails", kind.replace(' ', "_")), format!("restore fails ({}) in a {kind} state: {desc}", r.result), witness()));
        } else if is(prev_g) {
            outcome = "previous";
        } else if is(new_g) {
            outcome = "new";
        } else if k >= 2 && (is(&h.alone[k - 1]) || (k >= 3 && is(&h.alone[k - 2]))) {
            // exactly one import's content although >= 2 were acknowledged
            outcome = "only_last_import";
            an.violations.push(("acknowledged_imports>=2:restore_yields_only_one_import".into(), format!("{kind} state restores only the content of import {} although {} imports were acknowledged before it: {desc}", if is(&h.alone[k - 1]) { k } else { k - 1 }, k - 1), witness()));
        } else if is(&empty) && had_marker && !img.contains_key(MARKER) {
            outcome = "nothing_in_marker_window";
            an.violations.push(("old_marker_removed_new_marker_absent:restores_nothing".into(), format!("{kind} state restores the empty graph although {} import(s) were acknowledged: {desc}", k - 1), witness()));
        } else {
            outcome = "other";
            an.violations.push((format!("unclassified:{}:restored_graph_is_neither_previous_nor_new", kind.replace(' ', "_")), format!("{kind} state restores neither the previous nor the new graph: {desc}"), witness()));
        }
        *an.outcome_count.entry(format!("{kind}:{outcome}")).or_default() += 1;
        if post_ack.contains(img) && *img != fs.crash_image() && (outcome == "previous" || outcome == "nothing_in_marker_window") {
            an.post_ack_not_new += 1;
        }
    }
    // clean restart after the complete persist
    {
        write_image(&state_dir, &fs.crash_image(), true);
        let r = restore(&state_dir);
        let w = json!({"history": h.names, "k": k, "crash": "none (clean restart)", "restore_result": r.result, "restored": r.plain.to_json(), "expected": new_g.to_json()});
        if r.is_err {
            an.violations.push(("clean_restart:restore_fails".into(), format!("clean restart: {}", r.result), w));
        } else if iso(&r.plain, new_g).is_none() {
            if k >= 2 && iso(&r.plain, &h.alone[k - 1]).is_some() {
                an.violations.push(("acknowledged_imports>=2:restore_yields_only_one_import".into(), format!("after {k} acknowledged imports a clean restart restores only the last one"), w));
            } else {
                an.violations.push(("unclassified:clean_restart:restored_graph_differs".into(), "clean restart does not restore the live graph".into(), w));
            }
        }
        *an.outcome_count.entry("clean_restart".into()).or_default() += 1;
    }
    let _ = std::fs::remove_dir_all(&state_dir);
    Ok(an)
}

fn hex(b: &[u8]) -> String {
    b.iter().map(|x| format!("{:02x}", x)).collect()
}
fn unhex(s: &str) -> Vec<u8> {
    (0..s.len() / 2).map(|i| u8::from_str_radix(&s[2 * i..2 * i + 2], 16).unwrap_or(0)).collect()
}

fn make_hist(names: &[&'static str]) -> Hist {
    let specs = snapshot_specs();
    let mut bytes = vec![];
    let mut alone = vec![];
    let mut live = GraphStore::new();
    let mut cumulative = vec![plain_of_store(&live)];
    for n in names {
        let spec = &specs.iter().find(|s| s.0 == *n).expect("snapshot name").1;
        let mut src = GraphStore::new();
        build(&mut src, spec, Builder::Api).expect("source builds");
        let b = export_bytes(&src, None).expect("export");
        // as restore_snapshot_handler: import into the live store, then persist the uploaded bytes
        samyama::snapshot::import_tenant_with_dedup(&mut live, std::io::Cursor::new(&b), &[]).expect("live import");
        cumulative.push(plain_of_store(&live));
        let mut one = GraphStore::new();
        samyama::snapshot::import_tenant(&mut one, std::io::Cursor::new(&b)).expect("single import");
        alone.push(plain_of_store(&one));
        bytes.push(b);
    }
    Hist { names: names.to_vec(), bytes, cumulative, alone }
}

// ---------------------------------------------------------------------------------------------
// handler phase: uploads through the shipped router (`POST /api/snapshot/import`) with a data
// directory, acknowledged and rejected ones mixed, a clean restart after every step
// ---------------------------------------------------------------------------------------------
const BOUNDARY: &str = "----c14boundary";
fn multipart_body(file: &[u8]) -> Vec<u8> {
    let mut body = Vec::new();
    body.extend_from_slice(format!("--{BOUNDARY}\r\nContent-Disposition: form-data; name=\"file\"; filename=\"g.sgsnap\"\r\nContent-Type: application/octet-stream\r\n\r\n").as_bytes());
    body.extend_from_slice(file);
    body.extend_from_slice(format!("\r\n--{BOUNDARY}--\r\n").as_bytes());
    body
}
/// (name, bytes, is a well-formed snapshot)
fn uploads() -> Vec<(&'static str, Vec<u8>, bool)> {
    let mut v = vec![];
    for (n, spec) in snapshot_specs() {
        let mut src = GraphStore::new();
        build(&mut src, &spec, Builder::Api).expect("source builds");
        v.push((n, export_bytes(&src, None).expect("export"), true));
    }
    let b = v[1].1.clone();
    v.push(("b-cut-in-half", b[..b.len() / 2].to_vec(), false));
    v.push(("b-last-byte-missing", b[..b.len() - 1].to_vec(), false));
    v.push(("garbage", b"this is not a snapshot".to_vec(), false));
    v.push(("empty", vec![], false));
    v
}
fn handler_phase(ctx: &Ctx, max_len: usize, symbols: &[&str]) -> (u64, u64, BTreeMap<String, u64>) {
    use tower::ServiceExt;
    let ups = uploads();
    let rt = tokio::runtime::Builder::new_current_thread().enable_all().build().expect("runtime");
    let idx: Vec<usize> = symbols.iter().map(|s| ups.iter().position(|u| u.0 == *s).expect("upload name")).collect();
    let (mut histories, mut steps) = (0u64, 0u64);
    let mut outcomes: BTreeMap<String, u64> = BTreeMap::new();
    for len in 1..=max_len {
        for seq in svmc::engine::odometer::sequences(idx.len(), len) {
            histories += 1;
            let names: Vec<&str> = seq.iter().map(|&i| ups[idx[i]].0).collect();
            let dir = scratch("handler");
            let data_path = dir.to_string_lossy().to_string();
            let store = Arc::new(tokio::sync::RwLock::new(GraphStore::new()));
            let app = samyama::http::server::HttpServer::new(Arc::clone(&store), 0).with_data_path(Some(data_path.clone())).router();
            let mut restored_before = restore(&dir);
            for (step, &i) in seq.iter().enumerate() {
                steps += 1;
                let (uname, bytes, _wellformed) = &ups[idx[i]];
                let live_before = rt.block_on(async { plain_of_store(&*store.read().await) });
                let req = axum::http::Request::builder().method("POST").uri("/api/snapshot/import").header("Content-Type", format!("multipart/form-data; boundary={BOUNDARY}")).body(axum::body::Body::from(multipart_body(bytes))).unwrap();
                let status = match guarded(|| rt.block_on(async { app.clone().oneshot(req).await.map(|r| r.status().as_u16()) })) {
                    Ok(Ok(s)) => s,
                    Ok(Err(_)) => 0,
                    Err(p) => {
                        ctx.violation("handler:panic", format!("POST /api/snapshot/import of `{uname}` panicked: {p}"), json!({"kind": "handler", "history": names, "step": step}));
                        break;
                    }
                };
                let live_after = rt.block_on(async { plain_of_store(&*store.read().await) });
                let r = restore(&dir);
                let acked = status == 200;
                *outcomes.entry(format!("{uname}:{status}:{}", if r.is_err { "restart-error" } else { "restart-ok" })).or_default() += 1;
                let w = json!({"kind": "handler", "history": names, "step": step, "upload": uname, "status": status, "restart": r.result});
                if r.is_err {
                    ctx.violation(&format!("handler:restart_fails_after_{}_upload", if acked { "acknowledged" } else { "rejected" }), format!("after uploads {:?} (the last one answered {status}) a clean restart fails: {}", &names[..=step], r.result), w);
                    break;
                }
                if !acked {
                    if iso(&live_after, &live_before).is_none() {
                        ctx.violation("handler:rejected_upload_changes_live_graph", format!("upload `{uname}` was answered {status} but the live graph changed: {} -> {}", live_before.to_json(), live_after.to_json()), w.clone());
                    }
                    if iso(&r.plain, &restored_before.plain).is_none() {
                        ctx.violation("handler:rejected_upload_changes_what_a_restart_restores", format!("upload `{uname}` was answered {status}; a restart restored {} before it and {} after it", restored_before.plain.to_json(), r.plain.to_json()), w);
                        break;
                    }
                } else {
                    // acknowledged: a restart restores the new import (alone -- the recorded finding that
                    // only the last import is kept -- or the cumulative live graph)
                    let mut one = GraphStore::new();
                    let alone = samyama::snapshot::import_tenant(&mut one, std::io::Cursor::new(bytes)).map(|_| plain_of_store(&one));
                    let ok = iso(&r.plain, &live_after).is_some() || alone.as_ref().map(|a| iso(&r.plain, a).is_some()).unwrap_or(false);
                    if !ok {
                        ctx.violation("handler:acknowledged_upload_not_restored", format!("upload `{uname}` was answered 200; a restart restores {} (live graph {})", r.plain.to_json(), live_after.to_json()), w);
                        break;
                    }
                }
                restored_before = r;
            }
            let _ = std::fs::remove_dir_all(&dir);
        }
    }
    (histories, steps, outcomes)
}

fn main() {
    let args: Vec<String> = std::env::args().collect();
    if args.len() >= 4 && args[1] == "--persist-worker" {
        let bytes = std::fs::read(&args[3]).expect("payload");
        match persist_snapshot(&args[2], &bytes) {
            Ok(()) => std::process::exit(0),
            Err(e) => {
                eprintln!("persist failed: {e}");
                std::process::exit(3)
            }
        }
    }
    run_check("C14", Level::FaultEnumeration, |ctx| {
        silence_stderr();
        tune_malloc();
        let _ = std::fs::create_dir_all(svmc::engine::ctx::verif_dir().join("target").join("tmp"));
        if let Some(p) = &ctx.replay {
            replay(ctx, p);
            return;
        }
        let use_strace = strace_available() && std::env::var("C14_NO_STRACE").is_err();
        let histories: Vec<Vec<&'static str>> = match ctx.tier {
            Tier::Quick => vec![vec!["a"], vec!["a", "b"], vec!["b", "a"], vec!["a", "b", "c"]],
            Tier::Thorough => {
                let n = ["a", "b", "c"];
                let mut v = vec![];
                for len in 1..=3 {
                    for p in svmc::engine::odometer::sequences(3, len) {
                        let mut q = p.clone();
                        q.sort();
                        q.dedup();
                        if q.len() == len {
                            v.push(p.iter().map(|&i| n[i]).collect());
                        }
                    }
                }
                v
            }
        };
        let mut total_states = 0u64;
        let mut total_images = 0u64;
        let mut nontrivial = 0u64;
        let mut hook_checked = 0u64;
        let mut post_ack = 0u64;
        let mut outcomes: BTreeMap<String, u64> = BTreeMap::new();
        let mut trace_excerpt = None;
        let mut op_lists: Vec<J> = vec![];
        let mut source = "";
        for names in &histories {
            let h = make_hist(names);
            let an = match analyse(&h, ctx.tier, use_strace, &mut trace_excerpt) {
                Ok(a) => a,
                Err(e) => ctx.machinery(&format!("history {:?}: {e}", names)),
            };
            source = an.source;
            total_states += an.states;
            total_images += an.distinct_images + 1;
            nontrivial += an.nontrivial;
            hook_checked += an.hook_images_checked;
            post_ack += an.post_ack_not_new;
            for (k, v) in &an.outcome_count {
                *outcomes.entry(k.clone()).or_default() += v;
            }
            op_lists.push(json!({"history": names, "k": names.len(), "operations": an.ops.iter().map(|o| o.show()).collect::<Vec<_>>()}));
            for (sig, msg, w) in an.violations {
                ctx.violation(&sig, msg, w);
            }
        }
        ctx.cov("evaluations", total_images);
        ctx.cov("states_enumerated", total_states);
        ctx.cov("generator_cardinality", json!({"histories (sequence of distinct snapshots, last persist analysed)": histories.len(), "states (prefixes + power-loss variants)": total_states, "distinct directory images restored (incl. one clean restart per history)": total_images}));
        // quick cuts an unsynced tail at three lengths only; thorough at every length
        ctx.cov("exhaustive", ctx.tier == Tier::Thorough);
        ctx.cov("distinct_nontrivial", nontrivial);
        ctx.cov("rule", "a state is non-trivial if its directory image differs both from the directory before the persist and from the directory after the complete persist (i.e. it is a genuinely intermediate or partially durable state); distinct = distinct directory images per history");
        ctx.cov("ground_truth", source);
        ctx.cov("strace_available", use_strace);
        ctx.cov("hook_images_cross_checked", hook_checked);
        ctx.cov("outcomes", json!(outcomes));
        ctx.cov("power_loss_after_acknowledgement_restoring_an_older_graph", post_ack);
        ctx.note("persist_snapshot never fsyncs the snapshot directory: a power loss after it has returned Ok can still restore the previous graph (count under power_loss_after_acknowledgement_restoring_an_older_graph). The property speaks of crashes *while* an import is being persisted, so these states are judged by the same k-1-or-k oracle and are not violations by themselves.");
        // handler phase
        let (hl, syms): (usize, Vec<&str>) = match ctx.tier {
            Tier::Quick => (2, vec!["a", "b", "b-cut-in-half", "garbage"]),
            Tier::Thorough => (3, vec!["a", "b", "c", "b-cut-in-half", "b-last-byte-missing", "garbage", "empty"]),
        };
        let (hh, hs, ho) = handler_phase(ctx, hl, &syms);
        ctx.cov("handler_phase", json!({"uploads": syms, "max_history_length": hl, "histories": hh, "steps_with_clean_restart": hs, "outcomes (upload:status:restart)": ho}));
        ctx.assume("handler phase: every sequence of uploads (well-formed snapshots and rejected ones) up to the stated length through the shipped router with a data directory; after every step a clean restart (restore_persisted_snapshots into a fresh store) must succeed, a rejected upload must leave both the live graph and what a restart restores unchanged, an acknowledged one must be what a restart restores");
        ctx.cov("operation_lists", json!(op_lists));
        if let Some(t) = trace_excerpt {
            ctx.cov("trace_excerpt", t);
        }
        ctx.sample(op_lists.first().cloned().unwrap_or(json!(null)));
        ctx.sample(op_lists.last().cloned().unwrap_or(json!(null)));
        if !use_strace {
            ctx.note("strace unavailable (or disabled with C14_NO_STRACE): operation lists reconstructed from the eight snap.* hook points; write granularity is one write per hook interval");
        }
        ctx.assume("power-loss model: file contents are durable up to the file's last fsync, the unsynced tail may be cut anywhere (quick: synced / half / full); each create / rename / unlink not followed by a directory fsync may independently be lost; operations on a name whose creation was lost are lost with it");
        ctx.assume("the directory left by the previous acknowledged import is taken as durable when the next persist starts (otherwise even import k-1 could be lost, which the k-1-or-k oracle would not express)");
        ctx.assume("the live graph after import k is the cumulative graph, as restore_snapshot_handler builds it: import into the live store (no dedup keys), then persist the uploaded bytes");
        ctx.assume("restore is judged as main.rs uses it: into a fresh store when no RocksDB data was recovered");
    });
}

fn replay(ctx: &Ctx, p: &Path) {
    let doc: J = serde_json::from_str(&std::fs::read_to_string(p).expect("read replay")).expect("json");
    let w = &doc["witness"];
    if w["kind"] == "handler" {
        // re-run every upload sequence over the witness history's symbols up to its length
        let hist: Vec<String> = w["history"].as_array().map(|a| a.iter().filter_map(|x| x.as_str().map(|s| s.to_string())).collect()).unwrap_or_default();
        let all = uploads();
        let mut syms: Vec<&str> = vec![];
        for h in &hist {
            if let Some(u) = all.iter().find(|u| u.0 == h.as_str()) {
                if !syms.contains(&u.0) {
                    syms.push(u.0);
                }
            }
        }
        println!("handler phase over uploads {syms:?}, sequences up to length {}", hist.len());
        let (hh, hs, ho) = handler_phase(ctx, hist.len(), &syms);
        println!("histories {hh}, steps {hs}, outcomes {ho:?}");
        return;
    }
    let names: Vec<&'static str> = w["history"].as_array().map(|a| a.iter().filter_map(|x| ["a", "b", "c"].into_iter().find(|n| Some(*n) == x.as_str())).collect()).unwrap_or_default();
    if names.is_empty() {
        ctx.machinery("replay: no history in witness");
    }
    let h = make_hist(&names);
    let k = names.len();
    let dir = scratch("replay");
    if let Some(files) = w["files_hex"].as_object() {
        let img: Image = files.iter().map(|(n, c)| (n.clone(), unhex(c.as_str().unwrap_or("")))).collect();
        write_image(&dir, &img, true);
        println!("state: {} — {}", w["crash"], w["state"]);
    } else {
        // clean restart: run the k persists for real
        for b in &h.bytes {
            persist_snapshot(&dir.to_string_lossy(), b).expect("persist");
        }
        println!("state: clean restart after {k} complete persists");
    }
    let r = restore(&dir);
    let _ = std::fs::remove_dir_all(&dir);
    println!("expected: graph after import {} = {}\n      or  graph after import {} = {}", k - 1, h.cumulative[k - 1].to_json(), k, h.cumulative[k].to_json());
    println!("observed: {} -> {}", r.result, r.plain.to_json());
    let ok = !r.is_err && (iso(&r.plain, &h.cumulative[k]).is_some() || (w["files_hex"].is_object() && iso(&r.plain, &h.cumulative[k - 1]).is_some()));
    if !ok {
        let sig = doc["signature"].as_str().unwrap_or("unclassified:replay").to_string();
        println!("  MISMATCH [{sig}]");
        ctx.violation(&sig, "replayed state still restores a graph that is neither the previous nor the new one", json!({"history": names}));
    }
}
