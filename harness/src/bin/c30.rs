//! C30 — the column store behaves as a map under every update sequence.
//! hx over `ColumnStore` (cloned from prefilled, non-initial start states that sit one or two
//! writes away from every change of representation) against a plain map (DESIGN §C30).
use samyama::graph::storage::columnar::ColumnData;
use samyama::graph::{Column, ColumnStore, PropertyValue};
use serde_json::{json, Value};
use std::collections::{BTreeMap, BTreeSet};
use svmc::engine::ctx::guarded;
use svmc::engine::hx::{self, Model, Stats, Step};
use svmc::{run_check, Level};

const KEYS: [&str; 2] = ["a", "b"];
const NVALS: u8 = 6;

fn val(i: u8) -> PropertyValue {
    match i {
        0 => PropertyValue::Integer(1),
        1 => PropertyValue::Integer(2),
        2 => PropertyValue::Float(0.5),
        3 => PropertyValue::String("s".into()),
        4 => PropertyValue::Boolean(true),
        _ => PropertyValue::Array(vec![PropertyValue::Integer(1), PropertyValue::String("x".into())]),
    }
}

/// Logical value as text: ordered containers only, floats by bits.
fn norm(v: &PropertyValue) -> String {
    match v {
        PropertyValue::Null => "null".into(),
        PropertyValue::Integer(i) => format!("i{i}"),
        PropertyValue::Float(f) => format!("f{:016x}", f.to_bits()),
        PropertyValue::String(s) => format!("s{s:?}"),
        PropertyValue::Boolean(b) => format!("b{b}"),
        PropertyValue::Array(a) => format!("[{}]", a.iter().map(norm).collect::<Vec<_>>().join(",")),
        other => format!("?{other:?}"),
    }
}

#[derive(Clone, Debug, PartialEq, Eq, Hash)]
enum Op {
    /// set_property(rows[r], KEYS[k], val(v))
    Set(u8, u8, u8),
    /// remove_property(rows[r], KEYS[k])
    Remove(u8, u8),
    /// clear_row(rows[r])
    Clear(u8),
}

struct Start {
    name: &'static str,
    what: &'static str,
    store: ColumnStore,
    /// contents of the prefilled store: (row, key index) -> normalised value
    base: BTreeMap<(usize, u8), PropertyValue>,
    /// rows of the alphabet, with their role
    rows: Vec<(&'static str, usize)>,
    /// every row that is read after every step (alphabet rows and their neighbours)
    near: Vec<usize>,
    /// every row read after a step that changed a representation (all prefilled rows + near)
    all: Vec<usize>,
    /// prefilled rows outside `near`, with their (constant) reference values per key
    far_rows: Vec<(usize, [Option<PropertyValue>; 2])>,
    /// number of prefilled rows per key
    base_count: [i64; 2],
}

#[derive(Clone)]
struct St {
    cs: ColumnStore,
    /// reference: overlay on `base` for the alphabet rows; None = absent
    ov: BTreeMap<(usize, u8), Option<u8>>,
}

struct M {
    start: Start,
    full_sweep_always: bool,
    vals: Vec<PropertyValue>,
    /// indices into `start.rows` that the alphabet uses in this pass
    active: Vec<u8>,
}

/// Rows of the deeper passes, most important first (the boundary row whose write changes the
/// representation, the far-away row, then two more); a pass over k rows uses the first k.
fn deep_rows(start: &str) -> Vec<&'static str> {
    match start {
        "empty" => vec!["r0", "far", "r1", "r7"],
        "sparse1023" => vec!["last+1", "far", "hole", "first", "last"],
        "dense1024@0" => vec!["last+1", "far", "last+200", "last", "first", "inside"],
        "dense2048@10" => vec!["below-1", "far", "last+200", "last+1", "first", "below-0"],
        "breakeven" => vec!["last+1", "far", "first", "below", "hole"],
        "demoted2047" => vec!["far", "last+1", "first", "far2", "below"],
        "string+bool" => vec!["last+1-a", "far", "last+1-b", "below-a", "absent-b"],
        "float+other" => vec!["last+1", "far", "below", "first", "inside"],
        _ => vec!["last+1", "far", "gap", "first", "inside"],
    }
}

/// Logical equality of two stored values (floats by bits, containers element-wise).
fn same(a: &PropertyValue, b: &PropertyValue) -> bool {
    match (a, b) {
        (PropertyValue::Null, PropertyValue::Null) => true,
        (PropertyValue::Integer(x), PropertyValue::Integer(y)) => x == y,
        (PropertyValue::Float(x), PropertyValue::Float(y)) => x.to_bits() == y.to_bits(),
        (PropertyValue::String(x), PropertyValue::String(y)) => x == y,
        (PropertyValue::Boolean(x), PropertyValue::Boolean(y)) => x == y,
        (PropertyValue::Array(x), PropertyValue::Array(y)) => x.len() == y.len() && x.iter().zip(y).all(|(p, q)| same(p, q)),
        _ => false,
    }
}
const NULL: PropertyValue = PropertyValue::Null;

impl M {
    fn ref_get<'a>(&'a self, st: &St, row: usize, k: u8) -> Option<&'a PropertyValue> {
        match st.ov.get(&(row, k)) {
            Some(v) => v.map(|i| &self.vals[i as usize]),
            None => self.start.base.get(&(row, k)),
        }
    }
}

/// (variant, representation, base, span, entries) of a column, read from the public enum.
fn repr_of(col: Option<&Column>) -> String {
    fn d<T>(name: &str, c: &ColumnData<T>) -> String {
        match c {
            ColumnData::Sparse(m) => format!("{name}:sparse(len={})", m.len()),
            ColumnData::Dense { base, values, count, .. } => format!("{name}:dense(base={base},span={},count={count})", values.len()),
        }
    }
    match col {
        None => "none".into(),
        Some(Column::Int(c)) => d("Int", c),
        Some(Column::Float(c)) => d("Float", c),
        Some(Column::String(c)) => d("String", c),
        Some(Column::Bool(c)) => d("Bool", c),
        Some(Column::Other(m)) => format!("Other(len={})", m.len()),
    }
}
fn repr_kind(s: &str) -> &str {
    s.split(|c| c == '(').next().unwrap_or("")
}
fn reprs(cs: &ColumnStore) -> [String; 2] {
    [repr_of(cs.get_column(KEYS[0])), repr_of(cs.get_column(KEYS[1]))]
}

/// What kind of representation change a step caused (outcome label; also decides the full sweep).
fn classify(before: &[String; 2], after: &[String; 2]) -> String {
    let out: Vec<String> = (0..2).map(|i| classify_one(&before[i], &after[i])).filter(|c| c != "same").collect();
    if out.is_empty() {
        "same".into()
    } else {
        out.join("+")
    }
}
fn classify_one(b: &String, a: &String) -> String {
    {
        if b == a {
            return "same".into();
        }
        let (bk, ak) = (repr_kind(b), repr_kind(a));
        if bk == "none" {
            "new-column".to_string()
        } else if bk == ak {
            if ak.ends_with("dense") {
                let f = |s: &str, key: &str| -> String { s.split(key).nth(1).unwrap_or("").split(|c| c == ',' || c == ')').next().unwrap_or("").to_string() };
                if f(b, "base=") != f(a, "base=") {
                    "rebase".to_string()
                } else if f(b, "span=") != f(a, "span=") {
                    "extend".to_string()
                } else {
                    "count".to_string()
                }
            } else {
                "count".to_string()
            }
        } else if ak.starts_with("Other") {
            format!("spill({bk})")
        } else if ak.ends_with("dense") {
            "promote".to_string()
        } else {
            "demote".to_string()
        }
    }
}

impl Model for M {
    type Op = Op;
    type State = St;
    type Key = (u64, u64);
    fn init(&self) -> St {
        St { cs: self.start.store.clone(), ov: BTreeMap::new() }
    }
    fn ops(&self, _st: &St) -> Vec<Op> {
        let mut v = vec![];
        for &r in &self.active {
            for k in 0..2 {
                for x in 0..NVALS {
                    v.push(Op::Set(r, k, x));
                }
            }
        }
        for &r in &self.active {
            for k in 0..2 {
                v.push(Op::Remove(r, k));
            }
        }
        for &r in &self.active {
            v.push(Op::Clear(r));
        }
        v
    }
    fn apply(&self, st: &mut St, op: &Op, check: bool) -> Step {
        let mut vio: Vec<(String, String)> = vec![];
        let before = if check { Some(reprs(&st.cs)) } else { None };
        let rows = &self.start.rows;
        let res = match op {
            Op::Set(r, k, x) => {
                let row = rows[*r as usize].1;
                st.ov.insert((row, *k), Some(*x));
                let cs = &mut st.cs;
                guarded(|| cs.set_property(row, KEYS[*k as usize], val(*x)))
            }
            Op::Remove(r, k) => {
                let row = rows[*r as usize].1;
                st.ov.insert((row, *k), None);
                let cs = &mut st.cs;
                guarded(|| cs.remove_property(row, KEYS[*k as usize]))
            }
            Op::Clear(r) => {
                let row = rows[*r as usize].1;
                for k in 0..2u8 {
                    st.ov.insert((row, k), None);
                }
                let cs = &mut st.cs;
                guarded(|| cs.clear_row(row))
            }
        };
        if let Err(p) = res {
            let name = self.op_name(op);
            vio.push((format!("panic:{name}"), format!("{op:?} panicked: {p}")));
            return Step { violations: vio, outcome: "panic".into() };
        }
        let mut outcome = String::from("ok");
        if check {
            let after = reprs(&st.cs);
            outcome = classify(before.as_ref().unwrap(), &after);
            let after_ref = &after;
            let before_ref = before.as_ref().unwrap();
            let full_api = self.full_sweep_always;
            let r = guarded(|| {
                self.compare(st, if full_api { &self.start.all } else { &self.start.near }, &mut vio);
                // a column whose variant / sparse-dense state / base / span changed: re-read every prefilled row of it
                for k in 0..2usize {
                    let c = classify_one(&before_ref[k], &after_ref[k]);
                    if c != "same" && c != "count" {
                        self.sweep_far(st, k, &mut vio);
                    }
                }
            });
            if let Err(p) = r {
                vio.push(("panic:read".into(), format!("a read panicked after {op:?}: {p}")));
            }
        }
        Step { violations: vio, outcome }
    }
    fn key(&self, st: &St) -> (u64, u64) {
        // reference contents of the alphabet rows (everything else is constant = `base`)
        // + per-column representation (variant, sparse/dense, base, span, entries)
        let mut s = String::new();
        for (_, row) in &self.start.rows {
            for k in 0..2u8 {
                // value index if the cell holds one of the alphabet's values, '-' if absent, 'B' = untouched prefill value
                let c = match self.ref_get(st, *row, k) {
                    None => '-',
                    Some(v) => match self.vals.iter().position(|x| same(x, v)) {
                        Some(i) => (b'0' + i as u8) as char,
                        None => 'B',
                    },
                };
                s.push(c);
            }
        }
        s.push('|');
        let r = reprs(&st.cs);
        s.push_str(&r[0]);
        s.push('|');
        s.push_str(&r[1]);
        // 128-bit digest of the canonical text (keeps the visited set small at depth 4)
        use std::hash::{Hash, Hasher};
        let mut h1 = std::collections::hash_map::DefaultHasher::new();
        s.hash(&mut h1);
        let mut h2 = std::collections::hash_map::DefaultHasher::new();
        (0x9E3779B97F4A7C15u64, &s, s.len()).hash(&mut h2);
        (h1.finish(), h2.finish())
    }
}

impl M {
    fn compare(&self, st: &St, rows: &[usize], vio: &mut Vec<(String, String)>) {
        let cs = &st.cs;
        let ids = [cs.column_id(KEYS[0]), cs.column_id(KEYS[1])];
        let role = |row: usize| -> &'static str { self.start.rows.iter().find(|(_, r)| *r == row).map(|(n, _)| *n).unwrap_or("other") };
        for &row in rows {
            let mut want_keys: BTreeSet<&str> = BTreeSet::new();
            for k in 0..2u8 {
                let want = self.ref_get(st, row, k);
                if want.is_some() {
                    want_keys.insert(KEYS[k as usize]);
                }
                let present = want.is_some();
                let want = want.unwrap_or(&NULL);
                let got = cs.get_property(row, KEYS[k as usize]);
                if !same(&got, want) {
                    vio.push(("get_property".into(), format!("get_property(row {row} [{}], {}) = {}, map says {}", role(row), KEYS[k as usize], norm(&got), norm(want))));
                }
                let got2 = match ids[k as usize] {
                    Some(id) => cs.get_by_id(id, row),
                    None => PropertyValue::Null,
                };
                if !same(&got2, want) {
                    vio.push(("get_by_id".into(), format!("get_by_id(column {}, row {row} [{}]) = {}, map says {}", KEYS[k as usize], role(row), norm(&got2), norm(want))));
                }
                if let Some(col) = cs.get_column(KEYS[k as usize]) {
                    let h = col.has(row);
                    if h != present {
                        vio.push(("column_has".into(), format!("Column::has(row {row} [{}]) of {} = {h}, map says {}", role(row), KEYS[k as usize], norm(want))));
                    }
                }
            }
            let got = cs.get_property_keys(row);
            let got_set: BTreeSet<&str> = got.iter().map(|s| s.as_str()).collect();
            if got_set != want_keys || got.len() != got_set.len() {
                vio.push(("get_property_keys".into(), format!("get_property_keys(row {row} [{}]) = {got:?}, map says {want_keys:?}", role(row))));
            }
        }
        // entry counts: Column::len must equal the number of rows holding a value
        for k in 0..2u8 {
            if let Some(col) = cs.get_column(KEYS[k as usize]) {
                let mut n = self.start.base_count[k as usize];
                for ((row, kk), v) in &st.ov {
                    if *kk != k {
                        continue;
                    }
                    let was = self.start.base.contains_key(&(*row, k));
                    match (was, v.is_some()) {
                        (true, false) => n -= 1,
                        (false, true) => n += 1,
                        _ => {}
                    }
                }
                if col.len() as i64 != n {
                    vio.push(("column_len".into(), format!("Column::len of {} = {}, map holds {n} rows", KEYS[k as usize], col.len())));
                }
            }
        }
    }
}

impl M {
    /// Re-read every prefilled row outside the alphabet's neighbourhood for one column
    /// (their reference values never change) directly through `Column::get` / `has`.
    fn sweep_far(&self, st: &St, k: usize, vio: &mut Vec<(String, String)>) {
        let Some(col) = st.cs.get_column(KEYS[k]) else {
            if self.start.base_count[k] > 0 {
                vio.push(("get_property".into(), format!("column {} vanished", KEYS[k])));
            }
            return;
        };
        for (row, vals) in &self.start.far_rows {
            let got = col.get(*row);
            let want = vals[k].as_ref().unwrap_or(&NULL);
            if !same(&got, want) {
                vio.push(("get_property".into(), format!("after a representation change, row {row} [prefilled, never written by the history] of {} reads {}, map says {}", KEYS[k], norm(&got), norm(want))));
                return;
            }
            if col.has(*row) != vals[k].is_some() {
                vio.push(("column_has".into(), format!("after a representation change, Column::has(row {row}) of {} = {}, map says {}", KEYS[k], col.has(*row), norm(want))));
                return;
            }
        }
    }
}

// ---------------------------------------------------------------------------------------------
// start states

fn build(name: &'static str, what: &'static str, fill: impl FnOnce(&mut ColumnStore, &mut BTreeMap<(usize, u8), PropertyValue>), rows: Vec<(&'static str, usize)>) -> Start {
    let mut cs = ColumnStore::new();
    let mut base = BTreeMap::new();
    fill(&mut cs, &mut base);
    let mut near: BTreeSet<usize> = BTreeSet::new();
    for (_, r) in &rows {
        near.insert(*r);
        near.insert(r + 1);
        if *r > 0 {
            near.insert(r - 1);
        }
    }
    let mut all: BTreeSet<usize> = near.clone();
    for (r, _) in base.keys() {
        all.insert(*r);
    }
    let far_rows = all.iter().filter(|r| !near.contains(r)).map(|r| (*r, [base.get(&(*r, 0)).cloned(), base.get(&(*r, 1)).cloned()])).collect();
    let base_count = [base.keys().filter(|(_, k)| *k == 0).count() as i64, base.keys().filter(|(_, k)| *k == 1).count() as i64];
    Start { name, what, store: cs, base, rows, near: near.into_iter().collect(), all: all.into_iter().collect(), far_rows, base_count }
}

fn put(cs: &mut ColumnStore, base: &mut BTreeMap<(usize, u8), PropertyValue>, row: usize, k: u8, v: PropertyValue) {
    base.insert((row, k), v.clone());
    cs.set_property(row, KEYS[k as usize], v);
}
fn del(cs: &mut ColumnStore, base: &mut BTreeMap<(usize, u8), PropertyValue>, row: usize, k: u8) {
    base.remove(&(row, k));
    cs.remove_property(row, KEYS[k as usize]);
}

fn starts() -> Vec<Start> {
    let far = 5_000_000usize;
    let mut v = vec![];
    // 0. empty store (small sparse columns, first-write column typing)
    v.push(build("empty", "fresh store: columns are created and typed by the first write", |_, _| {}, vec![("r0", 0), ("r1", 1), ("r7", 7), ("far", far)]));
    // 1. sparse Int column with 1023 entries in rows 100..=1123 except the hole 400: one new row -> promotion test
    v.push(build(
        "sparse1023",
        "a: Int sparse, 1023 entries (rows 100..=1123 without 400): one new row reaches 1024 = promotion",
        |cs, b| {
            for r in 100..=1123 {
                if r != 400 {
                    put(cs, b, r, 0, PropertyValue::Integer(r as i64));
                }
            }
        },
        vec![("below", 50), ("first", 100), ("inside", 600), ("hole", 400), ("last", 1123), ("last+1", 1124), ("far", far)],
    ));
    // 2. dense 1024 rows at base 0; b: String sparse small
    v.push(build(
        "dense1024@0",
        "a: Int dense base 0 span 1024; b: String sparse with 3 entries",
        |cs, b| {
            for r in 0..1024 {
                put(cs, b, r, 0, PropertyValue::Integer(r as i64));
            }
            for r in [0usize, 512, 1023] {
                put(cs, b, r, 1, PropertyValue::String(format!("v{r}")));
            }
        },
        vec![("first", 0), ("inside", 512), ("last", 1023), ("last+1", 1024), ("last+2", 1025), ("last+200", 1223), ("near-far", 3000), ("far", far)],
    ));
    // 3. dense 2048 rows at base 10 (writes below the base -> rebase)
    v.push(build(
        "dense2048@10",
        "a: Int dense base 10 span 2048 (rows below the base force rebase)",
        |cs, b| {
            for r in 10..2058 {
                put(cs, b, r, 0, PropertyValue::Integer(-(r as i64)));
            }
        },
        vec![("below-0", 0), ("below-1", 9), ("first", 10), ("inside", 1000), ("last", 2057), ("last+1", 2058), ("last+200", 2257), ("far", far)],
    ));
    // 4. dense with holes exactly at the fill-factor break-even of i64 (span 2048):
    //    856 entries -> a write at last+1 still extends, after one removal it must refuse and demote.
    v.push(build(
        "breakeven",
        "a: Int dense base 10 span 2048 holding 856 entries (i64 break-even: extension to last+1 just pays, after one removal it does not)",
        |cs, b| {
            for r in 10..2058 {
                put(cs, b, r, 0, PropertyValue::Integer(r as i64));
            }
            // keep first, last, row 1000 and the lowest rows; remove from the top down
            let mut count = 2048;
            let mut r = 2056;
            while count > 856 {
                if r != 1000 {
                    del(cs, b, r, 0);
                    count -= 1;
                }
                r -= 1;
            }
        },
        vec![("below", 9), ("first", 10), ("inside", 1000), ("hole", 1500), ("last", 2057), ("last+1", 2058), ("far", far)],
    ));
    // 5. 2047 rows that were dense and got demoted by a far-away row (sparse, 2048 entries)
    v.push(build(
        "demoted2047",
        "a: Int, 2047 consecutive rows promoted to dense then demoted by a far-away row: sparse with 2048 entries; removing the far row and adding one re-promotes",
        |cs, b| {
            for r in 10..2057 {
                put(cs, b, r, 0, PropertyValue::Integer(r as i64));
            }
            put(cs, b, far, 0, PropertyValue::Integer(7));
        },
        vec![("below", 9), ("first", 10), ("inside", 1000), ("last", 2056), ("last+1", 2057), ("far", far), ("far2", far + 10)],
    ));
    // 6. String dense + Bool dense (other element sizes -> other break-even points)
    v.push(build(
        "string+bool",
        "a: String dense base 10 span 1024; b: Bool dense base 0 span 2048 with every third row absent",
        |cs, b| {
            for r in 10..1034 {
                put(cs, b, r, 0, PropertyValue::String(format!("s{r}")));
            }
            for r in 0..2048 {
                if r % 3 != 1 {
                    put(cs, b, r, 1, PropertyValue::Boolean(r % 2 == 0));
                }
            }
        },
        vec![("below-a", 9), ("first-a", 10), ("absent-b", 1000), ("last-a", 1033), ("last+1-a", 1034), ("last+1-b", 2048), ("far", far)],
    ));
    // 7. Float dense + an untyped column
    v.push(build(
        "float+other",
        "a: Float dense base 10 span 2048; b: Other (lists) with 4 entries",
        |cs, b| {
            for r in 10..2058 {
                put(cs, b, r, 0, PropertyValue::Float(r as f64 / 2.0));
            }
            for r in [10usize, 11, 2057, 5_000_000] {
                put(cs, b, r, 1, PropertyValue::Array(vec![PropertyValue::Integer(r as i64)]));
            }
        },
        vec![("below", 9), ("first", 10), ("inside", 11), ("last", 2057), ("last+1", 2058), ("far", far), ("never", 4_000_000)],
    ));
    // 8. sparse Int column with 1023 scattered entries whose span does NOT pay: crossing 1024 must refuse to promote
    v.push(build(
        "sparse1023-wide",
        "a: Int sparse, 1023 entries at stride 3 (span 3067, fill 0.33 < 0.42): reaching 1024 entries must not promote",
        |cs, b| {
            for i in 0..1023usize {
                put(cs, b, 100 + 3 * i, 0, PropertyValue::Integer(i as i64));
            }
        },
        vec![("below", 50), ("first", 100), ("gap", 101), ("inside", 1600), ("last", 100 + 3 * 1022), ("last+1", 100 + 3 * 1022 + 1), ("far", far)],
    ));
    v
}

fn merge(into: &mut Stats, s: &Stats) {
    into.states += s.states;
    into.transitions += s.transitions;
    into.max_depth = into.max_depth.max(s.max_depth);
    into.pruned_after_violation += s.pruned_after_violation;
    into.cap_hit |= s.cap_hit;
    for (i, n) in s.per_depth_states.iter().enumerate() {
        if into.per_depth_states.len() <= i {
            into.per_depth_states.push(0);
        }
        into.per_depth_states[i] += n;
    }
    for (op, m) in &s.outcomes_per_op {
        let e = into.outcomes_per_op.entry(op.clone()).or_default();
        for (k, n) in m {
            *e.entry(k.clone()).or_default() += n;
        }
    }
}

fn op_text(m: &M, op: &Op) -> String {
    let rows = &m.start.rows;
    match op {
        Op::Set(r, k, x) => format!("set_property({}={}, {}, {})", rows[*r as usize].0, rows[*r as usize].1, KEYS[*k as usize], norm(&val(*x))),
        Op::Remove(r, k) => format!("remove_property({}={}, {})", rows[*r as usize].0, rows[*r as usize].1, KEYS[*k as usize]),
        Op::Clear(r) => format!("clear_row({}={})", rows[*r as usize].0, rows[*r as usize].1),
    }
}

fn main() {
    run_check("C30", Level::ModelChecking, |ctx| {
        let all_starts = starts();
        if let Some(p) = &ctx.replay {
            replay(ctx, all_starts, p);
            return;
        }
        // passes: (depth, deep rows only?)
        // passes: (depth, number of rows in the alphabet; 0 = all rows of the start)
        let passes: Vec<(usize, usize)> = if ctx.quick() { vec![(3, 4), (8, 2)] } else { vec![(3, 0), (4, 4), (5, 3), (12, 2)] };
        let mut total = Stats::default();
        let mut per_start = vec![];
        let mut repr_changes: BTreeMap<String, u64> = BTreeMap::new();
        for (depth, nrows) in passes {
            for start in starts() {
                let active: Vec<u8> = if nrows > 0 {
                    let all_names = deep_rows(start.name);
                    let names = &all_names[..nrows.min(all_names.len())];
                    names.iter().map(|n| start.rows.iter().position(|(x, _)| x == n).expect("deep row name") as u8).collect()
                } else {
                    (0..start.rows.len() as u8).collect()
                };
                let m = M { start, full_sweep_always: false, vals: (0..NVALS).map(val).collect(), active };
                // sanity of the start itself (prefill vs map), full sweep
                let st0 = m.init();
                let mut vio = vec![];
                m.compare(&st0, &m.start.all, &mut vio);
                for (sig, msg) in vio {
                    ctx.violation(&format!("{sig}@prefill"), msg, json!({"start": m.start.name, "history": []}));
                }
                let t0 = std::time::Instant::now();
                let stats = hx::explore(&m, depth, 30_000_000, |v| {
                    ctx.violation(
                        &v.sig,
                        v.msg,
                        json!({"start": m.start.name, "history": v.history.iter().map(|o| format!("{:?}", o)).collect::<Vec<_>>(), "readable": v.history.iter().map(|o| op_text(&m, o)).collect::<Vec<_>>()}),
                    );
                });
                for m2 in stats.outcomes_per_op.values() {
                    for (k, n) in m2 {
                        if k != "same" {
                            *repr_changes.entry(k.clone()).or_default() += n;
                        }
                    }
                }
                per_start.push(json!({"start": m.start.name, "what": m.start.what, "initial_repr": reprs(&m.start.store), "depth": depth,
                    "rows": m.active.iter().map(|i| format!("{}={}", m.start.rows[*i as usize].0, m.start.rows[*i as usize].1)).collect::<Vec<_>>(),
                    "alphabet_size": m.ops(&st0).len(),
                    "states": stats.states, "transitions": stats.transitions, "max_depth": stats.max_depth, "cap_hit": stats.cap_hit, "wall_s": t0.elapsed().as_secs_f64()}));
                if let Some(s) = stats.samples.last() {
                    total.samples.push(json!({"start": m.start.name, "depth": depth, "sample": s}));
                }
                merge(&mut total, &stats);
            }
        }
        hx::report(
            ctx,
            &total,
            "set_property(row,key,value) remove_property(row,key) clear_row(row); rows = 4..7 per start state placed relative to it (below base, first, inside/hole, last, last+1, far away, never written), keys {a,b}, values {Int 1, Int 2, Float 0.5, 's', true, [1,'x']}",
        );
        ctx.cov("starts", json!(per_start));
        ctx.cov("representation_changes_exercised", json!(repr_changes));
        ctx.cov("passes", if ctx.quick() { "from each start: depth 3 over 4 of its rows; depth 8 (fixpoint) over the 2 rows that drive representation changes (separate visited sets; states/transitions are summed over passes)" } else { "from each start: depth 3 over all its rows; depth 4 over 4 rows; depth 5 over 3 rows; depth 12 (fixpoint) over 2 rows (rows that drive representation changes first; separate visited sets; states/transitions are summed over passes)" });
        ctx.assume("PropertyValue::Null as a *set* value is not in the alphabet: whether it stores a null or removes the key is not fixed by the property");
        ctx.assume("get_property_keys is compared as a set (plus: no duplicates); key order is column creation order and not part of the property");
        ctx.assume("after every step the alphabet rows and their +-1 neighbours are re-read through the whole read API (get_property, get_by_id, Column::has, get_property_keys, Column::len); after a step that changes a column's variant / sparse-dense state / base / span every prefilled row of that column (1023..2048 rows) is re-read as well");
        ctx.assume("the visited set stores a 128-bit digest (two independent SipHash-64) of the canonical key text");
        ctx.assume("dedup key = reference contents of the alphabet rows + per column (variant, sparse|dense, base, span, entries); all other rows are constant in the reference and verified by the sweeps");
    });
}

fn replay(ctx: &svmc::Ctx, starts: Vec<Start>, p: &std::path::Path) {
    let doc: Value = serde_json::from_str(&std::fs::read_to_string(p).expect("read replay")).expect("json");
    let name = doc["witness"]["start"].as_str().unwrap_or("").to_string();
    let hist: Vec<String> = doc["witness"]["history"].as_array().map(|a| a.iter().map(|s| s.as_str().unwrap().to_string()).collect()).unwrap_or_default();
    let start = starts.into_iter().find(|s| s.name == name).unwrap_or_else(|| ctx.machinery(&format!("replay: unknown start {name}")));
    let m = M { active: (0..start.rows.len() as u8).collect(), start, full_sweep_always: true, vals: (0..NVALS).map(val).collect() };
    let mut st = m.init();
    println!("start {}: {} repr={:?}", m.start.name, m.start.what, reprs(&st.cs));
    for (i, want) in hist.iter().enumerate() {
        let ops = m.ops(&st);
        let op = ops.iter().find(|o| &format!("{:?}", o) == want).unwrap_or_else(|| ctx.machinery(&format!("replay: op {want} not in alphabet at step {i}")));
        let step = m.apply(&mut st, op, true);
        println!("step {i}: {} -> {} repr={:?}", op_text(&m, op), step.outcome, reprs(&st.cs));
        for (sig, msg) in step.violations {
            println!("  MISMATCH [{sig}] expected(map) vs observed: {msg}");
            ctx.violation(&sig, msg, json!({"start": m.start.name, "history": hist[..=i]}));
        }
    }
    if ctx.violation_count() == 0 {
        println!("replay: every read agreed with the map");
    }
}
