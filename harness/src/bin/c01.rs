//! C01 — read queries return exactly the rows openCypher defines (or are refused).
//! Bounded-exhaustive (graph x query) enumeration against the reference evaluator.
#[path = "../cy/ast.rs"]
mod ast;
#[path = "../cy/eval.rs"]
mod eval;
#[path = "../cy/gen.rs"]
mod gen;
#[path = "../cy/judge.rs"]
mod judge;
#[path = "../cy/classify.rs"]
mod classify;

use judge::Verdict;
use rayon::prelude::*;
use serde_json::json;
use std::collections::{BTreeMap, BTreeSet};
use svmc::model::graph::{build, RefGraph};
use svmc::{run_check, Level, Tier};

fn silence_stderr() {
    unsafe {
        let fd = libc::open(b"/dev/null\0".as_ptr() as *const libc::c_char, libc::O_WRONLY);
        if fd >= 0 {
            libc::dup2(fd, 2);
        }
    }
}

#[derive(Default)]
struct Tally {
    evaluations: u64,
    agree: u64,
    refused: u64,
    unjudged: u64,
    mismatches: u64,
    nontrivial: u64,
    /// sig -> (count, first witness)
    groups: BTreeMap<String, (u64, serde_json::Value, String)>,
    ok_queries_bad: BTreeSet<usize>,
    unjudged_reasons: BTreeMap<String, u64>,
    refused_queries: BTreeSet<usize>,
}
impl Tally {
    fn merge(mut self, o: Tally) -> Tally {
        self.evaluations += o.evaluations;
        self.agree += o.agree;
        self.refused += o.refused;
        self.unjudged += o.unjudged;
        self.mismatches += o.mismatches;
        self.nontrivial += o.nontrivial;
        for (k, v) in o.groups {
            match self.groups.get_mut(&k) {
                Some(e) => e.0 += v.0,
                None => {
                    self.groups.insert(k, v);
                }
            }
        }
        self.ok_queries_bad.extend(o.ok_queries_bad);
        self.refused_queries.extend(o.refused_queries);
        for (k, v) in o.unjudged_reasons {
            *self.unjudged_reasons.entry(k).or_default() += v;
        }
        self
    }
}

fn main() {
    run_check("C01", Level::Exploration, |ctx| {
        silence_stderr();
        let thorough = ctx.tier == Tier::Thorough;
        let write_baseline = std::env::args().any(|a| a == "--write-baseline");
        let dump_groups = std::env::args().any(|a| a == "--dump-groups");
        // quick: small graphs x base queries. thorough: (wide U dense) graphs x base queries, see also below.
        let spaces = if thorough { vec![gen::GraphSpace::wide(), gen::GraphSpace::dense()] } else { vec![gen::GraphSpace::small()] };
        let (mut graphs, mut raw) = (vec![], 0u64);
        {
            let mut seen = BTreeSet::new();
            for sp in &spaces {
                let (gs, r) = gen::enumerate_graphs(sp);
                raw += r;
                for g in gs {
                    if seen.insert(svmc::model::graph::canonical(&g)) {
                        graphs.push(g);
                    }
                }
            }
        }
        // the numeric space (mixed Integer / Float values) is run against the aggregating queries only
        let first_numeric = graphs.len();
        {
            let (gs, r) = gen::enumerate_graphs(&gen::GraphSpace::numeric());
            raw += r;
            let mut seen = BTreeSet::new();
            for g in gs {
                if !g.rels.is_empty() && seen.insert(svmc::model::graph::canonical(&g)) {
                    graphs.push(g);
                }
            }
        }
        let numeric_graphs = graphs.len() - first_numeric;
        let queries = gen::queries(false);
        let is_agg: Vec<bool> = queries.iter().map(|q| {
            // name = template/where/tail: numeric aggregates (sum, avg, min/max), without a WHERE variant
            let parts: Vec<&str> = q.name.split('/').collect();
            let tail = parts.last().copied().unwrap_or("");
            let plain_where = parts.len() < 3 || parts[1] == "none" || parts[1].is_empty();
            plain_where && ["sum", "avg", "min_max"].iter().any(|k| tail.contains(k))
        }).collect();
        let mut capped = false;
        if let Some(n) = std::env::var("C01_MAX_GRAPHS").ok().and_then(|s| s.parse::<usize>().ok()) {
            // development knob only: strided subset, reported as a cap (never "exhaustive")
            if n < graphs.len() {
                let stride = graphs.len() / n;
                graphs = graphs.into_iter().step_by(stride.max(1)).collect();
                capped = true;
            }
        }
        println!("space: {} graphs (raw {}; {} of them mixed-numeric, run against the {} aggregating queries), {} queries", graphs.len(), raw, numeric_graphs, is_agg.iter().filter(|x| **x).count(), queries.len());
        if std::env::args().any(|a| a == "--count") {
            return;
        }
        let texts: Vec<String> = queries.iter().map(|q| q.q.print()).collect();
        let parsed: Vec<Result<samyama::query::Query, String>> = texts.iter().map(|t| judge::parse(t)).collect();
        let baseline_path = ctx.verif_dir.join("baselines/C01_supported.txt");
        let supported: BTreeSet<String> = std::fs::read_to_string(&baseline_path).map(|s| s.lines().map(|l| l.to_string()).collect()).unwrap_or_default();

        if let Some(p) = &ctx.replay {
            replay(ctx, p);
            return;
        }

        let tally = graphs
            .par_iter()
            .enumerate()
            .map(|(gi, g)| {
                let mut t = Tally::default();
                // two storage tiers: never compacted; compacted after the first relationship
                let variants: Vec<(&str, Option<usize>)> = if g.rels.is_empty() { vec![("buffer", None)] } else { vec![("buffer", None), ("frozen+buffer", Some(1))] };
                for (vn, compact_after) in variants {
                    let (store, idmap) = build(g, compact_after);
                    for (qi, gq) in queries.iter().enumerate() {
                        if gi >= first_numeric && !is_agg[qi] {
                            continue;
                        }
                        t.evaluations += 1;
                        let verdict = match &parsed[qi] {
                            Err(e) => Verdict::Refused(e.clone()),
                            Ok(pq) => judge::judge_read(&gq.q, pq, g, &store, &idmap),
                        };
                        match verdict {
                            Verdict::Agree => {
                                t.agree += 1;
                            }
                            Verdict::Refused(e) => {
                                t.refused += 1;
                                t.refused_queries.insert(qi);
                                if supported.contains(&texts[qi]) {
                                    let sig = format!("started_failing:{}", classify::shape(&gq.q));
                                    let w = json!({"graph": g.describe(), "tier": vn, "query": texts[qi], "error": e, "graph_index": gi});
                                    let e2 = t.groups.entry(sig).or_insert((0, w, format!("supported construct now refused: {} :: {}", texts[qi], e)));
                                    e2.0 += 1;
                                    t.mismatches += 1;
                                }
                            }
                            Verdict::Unjudged(why) => {
                                t.unjudged += 1;
                                *t.unjudged_reasons.entry(why).or_default() += 1;
                            }
                            Verdict::Mismatch(sym, detail) => {
                                t.mismatches += 1;
                                t.ok_queries_bad.insert(qi);
                                let sig = classify::signature(&gq.q, g, &sym, &detail);
                                let w = json!({"graph": g.describe(), "tier": vn, "query": texts[qi], "name": gq.name, "detail": detail, "graph_index": gi});
                                let e = t.groups.entry(sig).or_insert((0, w, format!("{} on [{}] ({}): {}", texts[qi], g.describe(), vn, detail)));
                                e.0 += 1;
                            }
                        }
                    }
                }
                t
            })
            .reduce(Tally::default, Tally::merge);

        if write_baseline {
            // supported today = parsed and never refused on any graph of this tier's space
            let mut lines: BTreeSet<String> = supported.clone();
            for (qi, t) in texts.iter().enumerate() {
                if parsed[qi].is_ok() && !tally.refused_queries.contains(&qi) {
                    lines.insert(t.clone());
                }
            }
            std::fs::create_dir_all(baseline_path.parent().unwrap()).unwrap();
            std::fs::write(&baseline_path, lines.into_iter().collect::<Vec<_>>().join("\n") + "\n").unwrap();
            println!("baseline written: {}", baseline_path.display());
        }
        for (sig, (count, w, msg)) in &tally.groups {
            if dump_groups {
                println!("GROUP {count:>8} {sig} :: {}", msg.chars().take(400).collect::<String>());
            }
            ctx.violation_n(sig, msg.clone(), w.clone(), *count);
        }
        let card = (graphs.len() as u64, queries.len() as u64);
        ctx.cov("evaluations", tally.evaluations);
        ctx.cov("generator_cardinality", json!({"graphs_up_to_isomorphism": card.0, "graphs_raw": raw, "queries": card.1, "tiers_per_graph": "1 if no relationships else 2", "graph_spaces": spaces.iter().map(|s| s.describe()).collect::<Vec<_>>()}));
        ctx.cov("agree", tally.agree);
        ctx.cov("refused", tally.refused);
        ctx.cov("unjudged", tally.unjudged);
        ctx.cov("unjudged_reasons", json!(tally.unjudged_reasons));
        ctx.cov("mismatches", tally.mismatches);
        ctx.cov("queries_refused_somewhere", tally.refused_queries.len() as u64);
        ctx.cov("queries_unparseable", parsed.iter().filter(|p| p.is_err()).count() as u64);
        ctx.cov("distinct_nontrivial", tally.agree + tally.mismatches);
        ctx.cov("rule", "cases = (graph up to isomorphism, storage tier, query) triples, all distinct by construction; a case is non-trivial when the engine answered (did not refuse) and the reference evaluator defines the result, i.e. rows were actually compared (agree + mismatches)");
        ctx.cov("exhaustive", !capped);
        ctx.cov("cap_hit", capped);
        ctx.cov("supported_baseline_size", supported.len() as u64);
        for (i, gq) in queries.iter().enumerate().filter(|(i, _)| i % (queries.len() / 4).max(1) == 0).take(4) {
            ctx.sample(json!({"query": texts[i], "name": gq.name, "graph": graphs[(i * 7) % graphs.len()].describe()}));
        }
        ctx.assume("reference evaluator harness/src/cy/eval.rs implements DESIGN Appendix A; constructs it marks unjudged are not compared");
        ctx.assume("engine refusal (Err) is accepted unless the query text is in baselines/C01_supported.txt");
    });
}

fn replay(ctx: &svmc::Ctx, p: &std::path::Path) {
    let doc: serde_json::Value = serde_json::from_str(&std::fs::read_to_string(p).expect("read")).expect("json");
    let w = &doc["witness"];
    let text = w["query"].as_str().unwrap().to_string();
    let gdesc = w["graph"].as_str().unwrap().to_string();
    let thorough = ctx.tier == Tier::Thorough;
    // find the graph and query by their printed forms in the generated spaces
    let _ = thorough;
    for space in [gen::GraphSpace::small(), gen::GraphSpace::wide(), gen::GraphSpace::dense()] {
        let (graphs, _) = gen::enumerate_graphs(&space);
        let queries = gen::queries(false);
        if let (Some(g), Some(gq)) = (graphs.iter().find(|g| g.describe() == gdesc), queries.iter().find(|q| q.q.print() == text)) {
            replay_one(ctx, g, &gq.q, w["tier"].as_str().unwrap_or("buffer"));
            return;
        }
    }
    ctx.machinery("replay: graph/query not found in the generated spaces");
}

fn replay_one(ctx: &svmc::Ctx, g: &RefGraph, q: &ast::Query, tier: &str) {
    let (store, idmap) = build(g, if tier == "buffer" { None } else { Some(1) });
    let text = q.print();
    println!("graph : {}", g.describe());
    println!("tier  : {tier}");
    println!("query : {text}");
    let mut ev = eval::Evaluator::new(g.clone());
    println!("reference: {:?}", ev.run(q).map(|r| r.rows));
    match judge::parse(&text) {
        Err(e) => println!("engine   : {e}"),
        Ok(pq) => {
            println!("engine   : {:?}", judge::run_read(&store, &pq));
            let v = judge::judge_read(q, &pq, g, &store, &idmap);
            println!("verdict  : {v:?}");
            if let Verdict::Mismatch(sym, detail) = v {
                ctx.violation(&classify::signature(q, g, &sym, &detail), detail, json!({"graph": g.describe(), "tier": tier, "query": text}));
            }
        }
    }
}
