//! C21 — the RESP decoder is safe on arbitrary bytes.
//!
//! Bounded-exhaustive input enumeration against the real `RespValue::decode`:
//!   * every token string over an 18-token RESP alphabet up to length L (quick 5 / thorough 6),
//!   * every byte string over {* $ 1 - CR LF a} up to length N (8 / 9),
//!   * every single-token edit (thorough: every pair of edits) of a corpus of valid frames,
//!   * nesting towers `*1\r\n` x d, d = 10 .. 10^6, with and without a terminating element.
//! Every case runs in a re-exec'ed worker process (RLIMIT_AS + an allocator that refuses one
//! oversized request, so an allocation failure is an abort exactly as in production), on a 2 MiB
//! thread (tokio's worker stack size), under catch_unwind, with the counting allocator.
//! Outcome must be one of {value, need-more, protocol error}; a panic, a dead worker (abort, stack
//! overflow), a hang, or peak allocation during the call > 256 x input length + 64 KiB is a violation.
use bytes::BytesMut;
use samyama::protocol::resp::{RespError, RespValue};
use serde_json::{json, Value};
use std::collections::{BTreeMap, BTreeSet};
use std::sync::OnceLock;
use svmc::engine::ctx::guarded;
use svmc::engine::{alloc, subproc};
use svmc::{run_check, Ctx, Level};

#[global_allocator]
static A: alloc::Counting = alloc::Counting;

/// numerals at and around the edges of the integer types a decoder may parse a length into
const LEN_NUMERALS: [&str; 22] = [
    "-9223372036854775809", "-9223372036854775808", "-2147483649", "-2147483648", "-3", "-2", "-1", "-0", "0", "00", "1",
    "2147483647", "2147483648", "4294967295", "4294967296", "9223372036854775806", "9223372036854775807", "9223372036854775808",
    "18446744073709551614", "18446744073709551615", "18446744073709551616", "99999999999999999999999",
];
/// frame positions that read a length
const LEN_TEMPLATES: [&str; 8] = ["${L}\r\n", "${L}\r\nab\r\n", "${L}\r\n\r\n", "*{L}\r\n", "*{L}\r\n:1\r\n", "*1\r\n${L}\r\nab\r\n", "*2\r\n$1\r\na\r\n${L}\r\nab\r\n", "*1\r\n*{L}\r\n"];
const TOKENS: [&str; 18] = ["*", "$", "+", "-", ":", "_", "0", "1", "2", "-1", "-2", "9223372036854775807", "99999999999", "\r\n", "\r", "\n", "a", "\""];
const BYTES: [u8; 7] = [b'*', b'$', b'1', b'-', b'\r', b'\n', b'a'];
const TOWER_DEPTHS: [u64; 6] = [10, 100, 1_000, 10_000, 100_000, 1_000_000];
/// A single request above this is refused by the allocator (-> abort), like a failed malloc.
const ALLOC_CAP: usize = 1 << 30;
const RLIMIT_AS: u64 = 6 << 30;
const WORKER_STACK: usize = 2 << 20;
/// Array nesting deeper than this is the "deep-nesting" region of the classifier.
const DEEP: usize = 1000;

fn budget(len: usize) -> usize {
    256 * len + 64 * 1024
}

// ---------------------------------------------------------------------------------------------
// generators

#[derive(Clone, Copy, Debug, PartialEq, Eq, PartialOrd, Ord)]
enum Gen {
    Tok(usize),
    Byte(usize),
    Edit(usize),
    Tower,
    /// boundary lattice of announced lengths: every numeral around the edges of i32 / u32 / i64 /
    /// u64 = usize (and one past) in every frame position that reads a length (seeded change C21
    /// parsed the length as usize and added 2 without saturating: only usize::MAX - 1 and
    /// usize::MAX reach it)
    Len,
}
impl Gen {
    fn name(&self) -> String {
        match self {
            Gen::Tok(l) => format!("tok{l}"),
            Gen::Byte(n) => format!("byte{n}"),
            Gen::Edit(d) => format!("edit{d}"),
            Gen::Tower => "tower".into(),
            Gen::Len => "len".into(),
        }
    }
    fn parse(s: &str) -> Option<Gen> {
        if let Some(r) = s.strip_prefix("tok") {
            return r.parse().ok().map(Gen::Tok);
        }
        if let Some(r) = s.strip_prefix("byte") {
            return r.parse().ok().map(Gen::Byte);
        }
        if let Some(r) = s.strip_prefix("edit") {
            return r.parse().ok().map(Gen::Edit);
        }
        if s == "tower" {
            return Some(Gen::Tower);
        }
        if s == "len" {
            return Some(Gen::Len);
        }
        None
    }
    fn size(&self) -> u64 {
        match self {
            Gen::Tok(l) => (TOKENS.len() as u64).pow(*l as u32),
            Gen::Byte(n) => (BYTES.len() as u64).pow(*n as u32),
            Gen::Edit(d) => edits(*d).len() as u64,
            Gen::Tower => (TOWER_DEPTHS.len() * 2) as u64,
            Gen::Len => (LEN_NUMERALS.len() * LEN_TEMPLATES.len()) as u64,
        }
    }
    /// (input bytes, is the canonical representative of its byte string within this generator)
    fn case(&self, idx: u64) -> (Vec<u8>, bool) {
        match self {
            Gen::Tok(l) => {
                let mut digs = vec![0usize; *l];
                let mut i = idx;
                for k in (0..*l).rev() {
                    digs[k] = (i % TOKENS.len() as u64) as usize;
                    i /= TOKENS.len() as u64;
                }
                let mut out = Vec::with_capacity(24);
                let mut canon = true;
                for (k, &d) in digs.iter().enumerate() {
                    out.extend_from_slice(TOKENS[d].as_bytes());
                    if k > 0 && banned_pair(digs[k - 1], d) {
                        canon = false;
                    }
                }
                (out, canon)
            }
            Gen::Byte(n) => {
                let mut out = vec![0u8; *n];
                let mut i = idx;
                for k in (0..*n).rev() {
                    out[k] = BYTES[(i % BYTES.len() as u64) as usize];
                    i /= BYTES.len() as u64;
                }
                (out, true)
            }
            Gen::Edit(d) => (edits(*d)[idx as usize].clone(), true),
            Gen::Len => {
                let num = LEN_NUMERALS[(idx as usize) / LEN_TEMPLATES.len()];
                let t = LEN_TEMPLATES[(idx as usize) % LEN_TEMPLATES.len()];
                (t.replace("{L}", num).into_bytes(), true)
            }
            Gen::Tower => {
                let d = TOWER_DEPTHS[(idx / 2) as usize] as usize;
                let mut out = Vec::with_capacity(d * 4 + 4);
                for _ in 0..d {
                    out.extend_from_slice(b"*1\r\n");
                }
                if idx % 2 == 1 {
                    out.extend_from_slice(b":1\r\n");
                }
                (out, true)
            }
        }
    }
}

/// Token pairs whose concatenation is itself a token ("-","1" = "-1"; "-","2" = "-2"; CR,LF = CRLF):
/// a token string containing one is a second spelling of a shorter token string.
fn banned_pair(a: usize, b: usize) -> bool {
    (TOKENS[a] == "-" && (TOKENS[b] == "1" || TOKENS[b] == "2")) || (TOKENS[a] == "\r" && TOKENS[b] == "\n")
}

/// Number of token strings of length l without a banned adjacent pair (transfer-matrix count,
/// computed independently of the enumeration and compared with it).
fn canonical_count(l: usize) -> u64 {
    if l == 0 {
        return 1;
    }
    // state: last token is "-" / "\r" / anything else
    let (mut dash, mut cr, mut other) = (1u64, 1u64, TOKENS.len() as u64 - 2);
    for _ in 1..l {
        let total = dash + cr + other;
        let nd = total; // "-" may follow anything
        let nc = total; // "\r" may follow anything
        // others: 16 tokens; after "-" the tokens 1,2 are banned; after "\r" the token "\n" is banned
        let no = (TOKENS.len() as u64 - 2) * total - 2 * dash - cr;
        dash = nd;
        cr = nc;
        other = no;
    }
    dash + cr + other
}

/// Greedy (longest-match) tokenisation length over TOKENS, None if the string is not in the token language.
fn token_len(b: &[u8]) -> Option<usize> {
    static ORDER: OnceLock<Vec<&'static str>> = OnceLock::new();
    let order = ORDER.get_or_init(|| {
        let mut o: Vec<&'static str> = TOKENS.to_vec();
        o.sort_by_key(|t| std::cmp::Reverse(t.len()));
        o
    });
    let (mut p, mut n) = (0, 0);
    while p < b.len() {
        let t = order.iter().find(|t| b[p..].starts_with(t.as_bytes()))?;
        p += t.len();
        n += 1;
    }
    Some(n)
}

/// Corpus of valid frames, pre-split into edit units (alphabet tokens where possible).
fn corpus() -> Vec<Vec<&'static str>> {
    vec![
        vec!["*", "1", "\r\n", "$", "4", "\r\n", "PING", "\r\n"],
        vec!["*", "2", "\r\n", "$", "4", "\r\n", "ECHO", "\r\n", "$", "2", "\r\n", "a", "a", "\r\n"],
        vec!["$", "-1", "\r\n"],
        vec!["$", "0", "\r\n", "\r\n"],
        vec!["$", "2", "\r\n", "\r\n", "\r\n"],
        vec!["*", "0", "\r\n"],
        vec!["*", "2", "\r\n", "*", "1", "\r\n", ":", "1", "\r\n", "_", "\r\n"],
        vec![":", "-1", "\r\n"],
        vec!["+", "a", "\r\n"],
        vec!["-", "a", "\r\n"],
        vec!["PING", "\r\n"],
        vec!["ECHO", " ", "\"", "a", " ", "a", "\"", "\r\n"],
        vec!["*", "3", "\r\n", "$", "1", "1", "\r\n", "GRAPH.QUERY", "\r\n", "$", "1", "\r\n", "a", "\r\n", "$", "2", "\r\n", "a", "a", "\r\n"],
    ]
}

fn edit_once(units: &[Vec<u8>]) -> Vec<Vec<Vec<u8>>> {
    let toks: Vec<Vec<u8>> = TOKENS.iter().map(|t| t.as_bytes().to_vec()).collect();
    let mut out = vec![];
    for p in 0..units.len() {
        // delete
        let mut v = units.to_vec();
        v.remove(p);
        out.push(v);
        // replace
        for t in &toks {
            if *t != units[p] {
                let mut v = units.to_vec();
                v[p] = t.clone();
                out.push(v);
            }
        }
    }
    for p in 0..=units.len() {
        for t in &toks {
            let mut v = units.to_vec();
            v.insert(p, t.clone());
            out.push(v);
        }
    }
    out
}

/// All distinct byte strings at edit distance exactly <= d (in units) from a corpus frame, d in {1,2};
/// edits(2) excludes what edits(1) already contains. Sorted (length, bytes): simplest first.
fn edits(d: usize) -> &'static Vec<Vec<u8>> {
    static E1: OnceLock<Vec<Vec<u8>>> = OnceLock::new();
    static E2: OnceLock<Vec<Vec<u8>>> = OnceLock::new();
    let build = |d: usize| -> Vec<Vec<u8>> {
        let mut set: BTreeSet<(usize, Vec<u8>)> = BTreeSet::new();
        for f in corpus() {
            let units: Vec<Vec<u8>> = f.iter().map(|u| u.as_bytes().to_vec()).collect();
            let one = edit_once(&units);
            if d == 1 {
                for v in &one {
                    let b = v.concat();
                    set.insert((b.len(), b));
                }
            } else {
                for v in &one {
                    for w in edit_once(v) {
                        let b = w.concat();
                        set.insert((b.len(), b));
                    }
                }
            }
        }
        set.into_iter().map(|(_, b)| b).collect()
    };
    match d {
        1 => E1.get_or_init(|| build(1)),
        _ => E2.get_or_init(|| {
            let e1: BTreeSet<&Vec<u8>> = edits(1).iter().collect();
            build(2).into_iter().filter(|b| !e1.contains(b)).collect()
        }),
    }
}

// ---------------------------------------------------------------------------------------------
// region classifier (harness-side walk of the first frame; used only to name a violation)

fn find_crlf(b: &[u8], from: usize) -> Option<usize> {
    b[from..].windows(2).position(|w| w == b"\r\n").map(|p| from + p)
}

/// Which dangerous header does a decoder meet first when it reads one frame from `b`?
fn region(b: &[u8]) -> String {
    let mut pos = 0usize;
    let mut stack: Vec<u128> = vec![];
    loop {
        if pos >= b.len() {
            return "none".into();
        }
        let Some(eol) = find_crlf(b, pos) else { return "none".into() };
        let line = &b[pos + 1..eol];
        let after = eol + 2;
        let mut completed = true;
        match b[pos] {
            b'$' => {
                let Some(n) = std::str::from_utf8(line).ok().and_then(|s| s.parse::<i64>().ok()) else { return "none".into() };
                if n == -2 {
                    return "bulk-len=-2".into();
                }
                if n < -2 {
                    return "bulk-len<-2".into();
                }
                if n == -1 {
                    pos = after;
                } else {
                    let need = (n as u128) + 2;
                    if ((b.len() - after) as u128) < need {
                        return "none".into();
                    }
                    pos = after + n as usize + 2;
                }
            }
            b'*' => {
                let Some(n) = std::str::from_utf8(line).ok().and_then(|s| s.parse::<usize>().ok()) else { return "none".into() };
                pos = after;
                if n > b.len() - after {
                    return "array-count>input".into();
                }
                if n > 0 {
                    stack.push(n as u128);
                    completed = false;
                    if stack.len() > DEEP {
                        return "deep-nesting".into();
                    }
                }
            }
            _ => pos = after,
        }
        if completed {
            // one value finished: close every array it completes
            loop {
                match stack.last_mut() {
                    None => return "none".into(),
                    Some(top) => {
                        *top -= 1;
                        if *top == 0 {
                            stack.pop();
                        } else {
                            break;
                        }
                    }
                }
            }
        }
    }
}

fn esc(b: &[u8]) -> String {
    if b.len() > 120 {
        let head: String = b[..60].iter().map(|&c| esc1(c)).collect();
        return format!("{head}… ({} bytes)", b.len());
    }
    b.iter().map(|&c| esc1(c)).collect()
}
fn esc1(c: u8) -> String {
    match c {
        b'\r' => "\\r".into(),
        b'\n' => "\\n".into(),
        b'\\' => "\\\\".into(),
        0x20..=0x7e => (c as char).to_string(),
        _ => format!("\\x{c:02x}"),
    }
}

// ---------------------------------------------------------------------------------------------
// tallies (child -> supervisor -> parent)

#[derive(Default, Debug, Clone)]
struct Tally {
    evals: u64,
    counts: BTreeMap<String, u64>,
    canon: u64,
    distinct: u64,
    nontrivial: u64,
    max_peak: u64,
    max_ratio_milli: u64,
    died: u64,
    /// sig -> (count, first idx, message of the first)
    vios: BTreeMap<String, (u64, u64, String)>,
    samples: Vec<Value>,
}
impl Tally {
    fn vio(&mut self, sig: String, n: u64, idx: u64, msg: String) {
        match self.vios.get_mut(&sig) {
            Some(e) => {
                e.0 += n;
                if idx < e.1 {
                    e.1 = idx;
                    e.2 = msg;
                }
            }
            None => {
                self.vios.insert(sig, (n, idx, msg));
            }
        }
    }
    fn merge(&mut self, o: &Tally) {
        self.evals += o.evals;
        for (k, c) in &o.counts {
            *self.counts.entry(k.clone()).or_default() += c;
        }
        self.canon += o.canon;
        self.distinct += o.distinct;
        self.nontrivial += o.nontrivial;
        self.max_peak = self.max_peak.max(o.max_peak);
        self.max_ratio_milli = self.max_ratio_milli.max(o.max_ratio_milli);
        self.died += o.died;
        for (s, (n, i, m)) in &o.vios {
            self.vio(s.clone(), *n, *i, m.clone());
        }
        for s in &o.samples {
            if self.samples.len() < 4 {
                self.samples.push(s.clone());
            }
        }
    }
    fn to_json(&self) -> Value {
        json!({"evals": self.evals, "counts": self.counts, "canon": self.canon, "distinct": self.distinct, "nontrivial": self.nontrivial,
               "max_peak": self.max_peak, "max_ratio_milli": self.max_ratio_milli, "died": self.died,
               "vios": self.vios.iter().map(|(k, v)| json!([k, v.0, v.1, v.2])).collect::<Vec<_>>(), "samples": self.samples})
    }
    fn from_json(v: &Value) -> Option<Tally> {
        let mut t = Tally { evals: v["evals"].as_u64()?, canon: v["canon"].as_u64()?, distinct: v["distinct"].as_u64()?, nontrivial: v["nontrivial"].as_u64()?, max_peak: v["max_peak"].as_u64()?, max_ratio_milli: v["max_ratio_milli"].as_u64()?, died: v["died"].as_u64()?, ..Default::default() };
        for (k, c) in v["counts"].as_object()? {
            t.counts.insert(k.clone(), c.as_u64()?);
        }
        for x in v["vios"].as_array()? {
            t.vios.insert(x[0].as_str()?.to_string(), (x[1].as_u64()?, x[2].as_u64()?, x[3].as_str()?.to_string()));
        }
        t.samples = v["samples"].as_array()?.clone();
        Some(t)
    }
}

// ---------------------------------------------------------------------------------------------
// worker: a supervisor process (one per parent thread) that forks one child per range; a child
// announces every case in shared memory before running it, so a dead child names its killer.

#[derive(Debug, Clone)]
struct One {
    /// V value, N need-more (Ok(None)), I need-more (Err(Incomplete)), E protocol error, P panic
    class: char,
    peak: usize,
    detail: String,
}

fn decode_one(input: &[u8]) -> One {
    let mut buf = BytesMut::from(input);
    let base = alloc::current();
    alloc::reset_peak();
    let r = guarded(|| RespValue::decode(&mut buf));
    let peak = alloc::peak().saturating_sub(base);
    let (class, detail) = match &r {
        Ok(Ok(Some(_))) => ('V', String::new()),
        Ok(Ok(None)) => ('N', String::new()),
        Ok(Err(RespError::Incomplete)) => ('I', String::new()),
        Ok(Err(e)) => ('E', format!("{e}")),
        Err(p) => ('P', p.clone()),
    };
    drop(r);
    One { class, peak, detail }
}

#[derive(Clone)]
enum Cases {
    /// positions lo..hi of the strided index sequence off, off + stride, off + 2*stride, ... (consecutive fatal
    /// inputs are thereby spread over all workers instead of being worked off one by one in a single range)
    Range { gen: Gen, off: u64, stride: u64, lo: u64, hi: u64, l_tok: usize, n_byte: usize },
    Hex(Vec<u8>),
}
impl Cases {
    fn lo(&self) -> u64 {
        match self {
            Cases::Range { lo, .. } => *lo,
            Cases::Hex(_) => 0,
        }
    }
    fn hi(&self) -> u64 {
        match self {
            Cases::Range { hi, .. } => *hi,
            Cases::Hex(_) => 1,
        }
    }
    fn with(&self, a: u64, b: u64) -> Cases {
        match self {
            Cases::Range { gen, off, stride, l_tok, n_byte, .. } => Cases::Range { gen: *gen, off: *off, stride: *stride, lo: a, hi: b, l_tok: *l_tok, n_byte: *n_byte },
            Cases::Hex(h) => Cases::Hex(h.clone()),
        }
    }
    fn case(&self, idx: u64) -> (Vec<u8>, bool, bool) {
        match self {
            Cases::Range { gen, l_tok, n_byte, .. } => {
                let (input, canon) = gen.case(self.real(idx));
                let home = canon && first_generator(*gen, &input, *l_tok, *n_byte);
                (input, canon, home)
            }
            Cases::Hex(h) => (h.clone(), true, true),
        }
    }
    /// generator index of position k
    fn real(&self, k: u64) -> u64 {
        match self {
            Cases::Range { off, stride, .. } => off + k * stride,
            Cases::Hex(_) => k,
        }
    }
    fn gen_name(&self) -> String {
        match self {
            Cases::Range { gen, .. } => gen.name(),
            Cases::Hex(_) => "hex".into(),
        }
    }
}

/// Runs in the forked child, on a 2 MiB thread.
fn run_cases_in_child(c: &Cases, progress: *mut u64) -> Tally {
    let mut t = Tally::default();
    for idx in c.lo()..c.hi() {
        unsafe { std::ptr::write_volatile(progress, idx + 1) };
        let (input, canon, home) = c.case(idx);
        let o = decode_one(&input);
        t.evals += 1;
        *t.counts.entry(o.class.to_string()).or_default() += 1;
        if canon {
            t.canon += 1;
        }
        if home {
            t.distinct += 1;
        }
        t.max_peak = t.max_peak.max(o.peak as u64);
        if !input.is_empty() {
            t.max_ratio_milli = t.max_ratio_milli.max((o.peak as u64 * 1000) / input.len() as u64);
        }
        let over = o.peak > budget(input.len());
        let bad = o.class == 'P' || over;
        if home && (bad || matches!(o.class, 'V' | 'E')) {
            t.nontrivial += 1;
        }
        if bad {
            let sym = if o.class == 'P' { "panic" } else { "overalloc" };
            let msg = if o.class == 'P' {
                format!("decode({}) panicked: {}", esc(&input), o.detail)
            } else {
                format!("decode({}) peak allocation {} B for {} input bytes (budget {})", esc(&input), o.peak, input.len(), budget(input.len()))
            };
            t.vio(format!("{}:{}", region(&input), sym), 1, c.real(idx), msg);
        } else if t.samples.len() < 2 && home && o.class != 'N' && input.len() >= 4 {
            t.samples.push(json!({"gen": c.gen_name(), "idx": c.real(idx), "input": esc(&input), "outcome": o.class.to_string(), "peak_alloc": o.peak}));
        }
    }
    t
}

enum ChildEnd {
    Done(Tally),
    /// (index of the announced case, symptom, detail)
    Died(u64, String, String),
}

fn read_all(fd: i32, deadline: std::time::Instant) -> (Vec<u8>, bool) {
    let mut out = vec![];
    let mut buf = [0u8; 65536];
    loop {
        let left = deadline.saturating_duration_since(std::time::Instant::now()).as_millis() as i32;
        let mut p = libc::pollfd { fd, events: libc::POLLIN, revents: 0 };
        let r = unsafe { libc::poll(&mut p, 1, left.max(0)) };
        if r == 0 {
            return (out, false);
        }
        if r < 0 {
            continue;
        }
        let n = unsafe { libc::read(fd, buf.as_mut_ptr() as *mut libc::c_void, buf.len()) };
        if n <= 0 {
            return (out, true);
        }
        out.extend_from_slice(&buf[..n as usize]);
    }
}

fn fork_run(c: &Cases, progress: *mut u64) -> ChildEnd {
    unsafe { std::ptr::write_volatile(progress, 0) };
    let mut rp = [0i32; 2];
    let mut ep = [0i32; 2];
    unsafe {
        if libc::pipe(rp.as_mut_ptr()) != 0 || libc::pipe(ep.as_mut_ptr()) != 0 {
            return ChildEnd::Died(u64::MAX, "machinery".into(), "pipe() failed".into());
        }
    }
    let pid = unsafe { libc::fork() };
    if pid < 0 {
        return ChildEnd::Died(u64::MAX, "machinery".into(), "fork() failed".into());
    }
    if pid == 0 {
        // child
        unsafe {
            libc::close(rp[0]);
            libc::close(ep[0]);
            libc::dup2(ep[1], 2);
            libc::close(ep[1]);
        }
        let c2 = c.clone();
        let pr = progress as usize;
        let t = std::thread::Builder::new().stack_size(WORKER_STACK).spawn(move || run_cases_in_child(&c2, pr as *mut u64)).expect("thread").join();
        let s = match t {
            Ok(t) => t.to_json().to_string(),
            Err(_) => "{\"machinery\":\"child thread panicked\"}".to_string(),
        };
        let b = s.as_bytes();
        let mut off = 0;
        while off < b.len() {
            let n = unsafe { libc::write(rp[1], b[off..].as_ptr() as *const libc::c_void, b.len() - off) };
            if n <= 0 {
                break;
            }
            off += n as usize;
        }
        unsafe { libc::_exit(0) };
    }
    unsafe {
        libc::close(rp[1]);
        libc::close(ep[1]);
    }
    // watchdog on progress, not on the range: a case that holds the progress word for 120 s is a hang
    let mut res = vec![];
    let mut finished;
    let mut last_progress = unsafe { std::ptr::read_volatile(progress) };
    let mut last_change = std::time::Instant::now();
    loop {
        let (part, done) = read_all(rp[0], std::time::Instant::now() + std::time::Duration::from_secs(5));
        res.extend_from_slice(&part);
        finished = done;
        if done {
            break;
        }
        let now = unsafe { std::ptr::read_volatile(progress) };
        if now != last_progress {
            last_progress = now;
            last_change = std::time::Instant::now();
        } else if last_change.elapsed() > std::time::Duration::from_secs(120) {
            break;
        }
    }
    if !finished {
        unsafe { libc::kill(pid, libc::SIGKILL) };
    }
    let (errtxt, _) = read_all(ep[0], std::time::Instant::now() + std::time::Duration::from_secs(5));
    let mut status = 0i32;
    unsafe {
        libc::waitpid(pid, &mut status, 0);
        libc::close(rp[0]);
        libc::close(ep[0]);
    }
    let at = unsafe { std::ptr::read_volatile(progress) };
    let errtxt = String::from_utf8_lossy(&errtxt).replace('\n', " | ");
    let errtxt = errtxt.split(" | ").filter(|l| !l.contains("RUST_BACKTRACE") && !l.trim().is_empty()).map(strip_tid).collect::<Vec<_>>().join(" | ");
    if !finished {
        return ChildEnd::Died(at.wrapping_sub(1), "hang".into(), "the case did not finish within 120 s".into());
    }
    if libc::WIFEXITED(status) && libc::WEXITSTATUS(status) == 0 {
        if let Some(t) = serde_json::from_slice::<Value>(&res).ok().and_then(|v| Tally::from_json(&v)) {
            return ChildEnd::Done(t);
        }
        return ChildEnd::Died(u64::MAX, "machinery".into(), format!("child answer unparsable: {}", String::from_utf8_lossy(&res)));
    }
    if at == 0 {
        return ChildEnd::Died(u64::MAX, "machinery".into(), format!("child died before announcing a case: status {status} {errtxt}"));
    }
    let sym = if errtxt.contains("overflowed its stack") {
        "stack-overflow".to_string()
    } else if errtxt.contains("memory allocation of") {
        "abort".to_string()
    } else if libc::WIFSIGNALED(status) {
        format!("killed-by-signal-{}", libc::WTERMSIG(status))
    } else {
        format!("exit-{}", libc::WEXITSTATUS(status))
    };
    ChildEnd::Died(at - 1, sym, errtxt)
}

/// "thread '<unknown>' (1234) has overflowed its stack": drop the thread id (not deterministic).
fn strip_tid(l: &str) -> String {
    match (l.find("' ("), l.find(") has")) {
        (Some(a), Some(b)) if a < b => format!("{}{}", &l[..a + 1], &l[b + 1..]),
        _ => l.to_string(),
    }
}

/// `range <gen> <offset> <stride> <lo> <hi> <L> <N>` or `hex <hex>`; answer: hex(JSON tally).
fn supervisor(line: &str, progress: *mut u64) -> String {
    let parts: Vec<&str> = line.split(' ').collect();
    let all = match parts[0] {
        "hex" => Cases::Hex(unhex(parts[1])),
        _ => Cases::Range { gen: Gen::parse(parts[1]).expect("gen"), off: parts[2].parse().unwrap(), stride: parts[3].parse().unwrap(), lo: parts[4].parse().unwrap(), hi: parts[5].parse().unwrap(), l_tok: parts[6].parse().unwrap(), n_byte: parts[7].parse().unwrap() },
    };
    let mut total = Tally::default();
    let mut cur = all.lo();
    let hi = all.hi();
    let fail = |m: String| hex(json!({"machinery": m}).to_string().as_bytes());
    while cur < hi {
        match fork_run(&all.with(cur, hi), progress) {
            ChildEnd::Done(t) => {
                total.merge(&t);
                cur = hi;
            }
            ChildEnd::Died(idx, sym, detail) => {
                if sym == "machinery" || idx < cur || idx >= hi {
                    return fail(format!("{sym}: {detail} (announced {idx}, range [{cur}, {hi}))"));
                }
                // the cases before the fatal one ran, but their tally died with the child
                if idx > cur {
                    match fork_run(&all.with(cur, idx), progress) {
                        ChildEnd::Done(t) => total.merge(&t),
                        ChildEnd::Died(i2, s2, d2) => return fail(format!("not reproducible: cases [{cur}, {idx}) survived once and then died at {i2}: {s2} {d2}")),
                    }
                }
                let (input, canon, home) = all.case(idx);
                total.evals += 1;
                total.died += 1;
                *total.counts.entry(format!("D:{sym}")).or_default() += 1;
                if canon {
                    total.canon += 1;
                }
                if home {
                    total.distinct += 1;
                    total.nontrivial += 1;
                }
                total.vio(format!("{}:{}", region(&input), sym), 1, all.real(idx), format!("decode({}) killed the process: {}", esc(&input), detail));
                cur = idx + 1;
            }
        }
    }
    hex(total.to_json().to_string().as_bytes())
}

/// Is `gen` the first generator (order tok < byte < edit < tower) whose space contains this byte string?
fn first_generator(gen: Gen, input: &[u8], l_tok: usize, n_byte: usize) -> bool {
    let in_tok = || token_len(input).map(|n| n <= l_tok).unwrap_or(false);
    let in_byte = || input.len() <= n_byte && input.iter().all(|c| BYTES.contains(c));
    match gen {
        Gen::Tok(_) => true,
        Gen::Byte(_) => !in_tok(),
        // edits(2) already excludes edits(1); towers are longer than anything else
        Gen::Edit(_) | Gen::Tower => !in_tok() && !in_byte(),
        // a handful of short lattice members are token strings too; count them where they come first
        Gen::Len => !in_tok() && !in_byte(),
    }
}

fn hex(b: &[u8]) -> String {
    b.iter().map(|c| format!("{c:02x}")).collect()
}
fn unhex(s: &str) -> Vec<u8> {
    (0..s.len() / 2).map(|i| u8::from_str_radix(&s[2 * i..2 * i + 2], 16).unwrap()).collect()
}

// ---------------------------------------------------------------------------------------------
// parent

fn opts(conc: usize) -> subproc::Opts {
    subproc::Opts { concurrency: conc, timeout: std::time::Duration::from_secs(1800), env: vec![("RUST_BACKTRACE".into(), "0".into())], rlimit_as: Some(RLIMIT_AS) }
}

fn parse_answer(ctx: &Ctx, o: &subproc::Outcome, what: &str) -> Tally {
    match o {
        subproc::Outcome::Done(s) => {
            let txt = String::from_utf8_lossy(&unhex(s)).to_string();
            let v: Value = serde_json::from_str(&txt).unwrap_or_else(|e| ctx.machinery(&format!("supervisor answer unparsable ({what}): {e}: {txt}")));
            if let Some(m) = v.get("machinery") {
                ctx.machinery(&format!("supervisor ({what}): {m}"));
            }
            Tally::from_json(&v).unwrap_or_else(|| ctx.machinery(&format!("supervisor answer incomplete ({what}): {txt}")))
        }
        other => ctx.machinery(&format!("supervisor process failed ({what}): {other:?}")),
    }
}

fn main() {
    if let Some(_name) = subproc::worker_arg() {
        std::panic::set_hook(Box::new(|_| {}));
        alloc::set_cap(ALLOC_CAP);
        let progress = unsafe { libc::mmap(std::ptr::null_mut(), 4096, libc::PROT_READ | libc::PROT_WRITE, libc::MAP_SHARED | libc::MAP_ANONYMOUS, -1, 0) };
        if progress == libc::MAP_FAILED {
            eprintln!("mmap failed");
            std::process::exit(3);
        }
        let progress = progress as *mut u64;
        subproc::worker_main(|line| supervisor(line, progress));
    }
    run_check("C21", Level::Exploration, |ctx| {
        if let Some(p) = ctx.replay.clone() {
            replay(ctx, &p);
            return;
        }
        let quick = ctx.quick();
        let l_tok = if quick { 5 } else { 6 };
        let n_byte = if quick { 8 } else { 9 };
        // phase 1: the quick-tier space; phase 2 (thorough only): what the thorough tier adds
        let mut phase1: Vec<Gen> = (0..=5usize).map(Gen::Tok).collect();
        phase1.extend((0..=8usize).map(Gen::Byte));
        phase1.push(Gen::Edit(1));
        phase1.push(Gen::Tower);
        phase1.push(Gen::Len);
        let phase2: Vec<Gen> = if quick { vec![] } else { vec![Gen::Tok(6), Gen::Byte(9), Gen::Edit(2)] };
        let conc = std::thread::available_parallelism().map(|n| n.get()).unwrap_or(8).min(16);
        let chunk = 10_000u64;
        let mut cardinality = 0u64;
        let mut card_by_gen = BTreeMap::new();
        for g in phase1.iter().chain(phase2.iter()) {
            cardinality += g.size();
            card_by_gen.insert(g.name(), g.size());
        }
        let mut total = Tally::default();
        let mut canon_by_gen: BTreeMap<String, u64> = BTreeMap::new();
        let mut evals_by_gen: BTreeMap<String, u64> = BTreeMap::new();
        // sig -> (count, (gen, idx), msg)
        let mut vios: BTreeMap<String, (u64, (Gen, u64), String)> = BTreeMap::new();
        let mut samples: Vec<Value> = vec![];
        let mut skipped: Vec<String> = vec![];
        for (phase, gens) in [(1, &phase1), (2, &phase2)] {
            if phase == 2 && total.died > 50 {
                // every fatal case costs a process; the deeper sweep of a tree that dies this often would take
                // hours and could only add to an existing verdict. Reported as a cap, never as exhaustive.
                skipped = gens.iter().map(|g| g.name()).collect();
                break;
            }
            // (generator, offset, stride, number of positions)
            let mut ranges: Vec<(Gen, u64, u64, u64)> = vec![];
            for g in gens.iter() {
                let n = g.size();
                // phase 2 only runs on a tree that does not kill its children: bigger ranges, fewer processes
                let per = if *g == Gen::Tower { 1 } else if phase == 2 { 5 * chunk } else { chunk };
                let stride = ((n + per - 1) / per).max(1);
                for off in 0..stride.min(n) {
                    let count = (n - off + stride - 1) / stride;
                    ranges.push((*g, off, stride, count));
                }
            }
            let lines: Vec<String> = ranges.iter().map(|(g, off, stride, count)| format!("range {} {} {} 0 {} {} {}", g.name(), off, stride, count, l_tok, n_byte)).collect();
            let outs = subproc::run_cases("c21", &lines, &opts(conc));
            for ((g, off, stride, count), o) in ranges.iter().zip(outs.iter()) {
                let t = parse_answer(ctx, o, &format!("{} offset {off} stride {stride}", g.name()));
                if t.evals != *count {
                    ctx.machinery(&format!("{} offset {off} stride {stride}: {} of {count} cases evaluated", g.name(), t.evals));
                }
                *canon_by_gen.entry(g.name()).or_default() += t.canon;
                *evals_by_gen.entry(g.name()).or_default() += t.evals;
                for (sig, (n, idx, msg)) in &t.vios {
                    match vios.get_mut(sig) {
                        Some(e) => {
                            e.0 += n;
                            if (*g, *idx) < e.1 {
                                e.1 = (*g, *idx);
                                e.2 = msg.clone();
                            }
                        }
                        None => {
                            vios.insert(sig.clone(), (*n, (*g, *idx), msg.clone()));
                        }
                    }
                }
                samples.extend(t.samples.iter().cloned());
                total.merge(&t);
            }
        }
        let skipped_card: u64 = skipped.iter().map(|n| card_by_gen[n]).sum();

        // cross-checks of the bookkeeping (machinery, not verdicts)
        if total.evals + skipped_card != cardinality {
            ctx.machinery(&format!("evaluated {} cases, generators hold {}", total.evals, cardinality));
        }
        for l in 0..=l_tok {
            if skipped.contains(&format!("tok{l}")) {
                continue;
            }
            let got = canon_by_gen.get(&format!("tok{l}")).copied().unwrap_or(0);
            if got != canonical_count(l) {
                ctx.machinery(&format!("canonical token strings of length {l}: enumerated {got}, transfer-matrix count {}", canonical_count(l)));
            }
        }

        for (sig, (n, (gen, idx), msg)) in &vios {
            let (input, _) = gen.case(*idx);
            let w = json!({"gen": gen.name(), "idx": idx, "input_hex": if input.len() <= 4096 { hex(&input) } else { String::new() }, "input": esc(&input), "region": region(&input)});
            ctx.violation(sig, msg.clone(), w);
            for _ in 1..*n {
                ctx.violation(sig, "", Value::Null);
            }
        }

        ctx.cov("evaluations", total.evals);
        ctx.cov("generator_cardinality", cardinality);
        ctx.cov("generator_cardinality_by_generator", json!(card_by_gen));
        ctx.cov("exhaustive", skipped.is_empty());
        ctx.cov("cap_hit", !skipped.is_empty());
        ctx.cov("skipped_generators", json!(skipped));
        if !skipped.is_empty() {
            ctx.note(format!("{} cases of the quick-tier space killed their process; the thorough-only generators {:?} ({} cases) were not run", total.died, skipped, skipped_card));
        }
        ctx.cov("evaluations_by_generator", json!(evals_by_gen));
        ctx.cov("distinct_inputs", total.distinct);
        ctx.cov("distinct_nontrivial", total.nontrivial);
        ctx.cov("rule", "a case counts once per distinct byte string (token strings that spell a byte string a shorter token string already spells, and byte/edit/tower strings already in an earlier generator's space, are evaluated but not counted); it is non-trivial if the decoder did anything but ask for more data: returned a value, a protocol error, panicked, over-allocated or killed the process");
        ctx.cov("outcome_counts", json!(total.counts));
        ctx.cov("outcome_legend", "V value, N Ok(None) need-more, I Err(Incomplete) need-more, E protocol error, P panic, D:* the process died");
        ctx.cov("processes_killed_by_a_case", total.died);
        ctx.cov("max_peak_alloc_bytes_of_surviving_cases", total.max_peak);
        ctx.cov("max_peak_alloc_per_input_byte_of_surviving_cases", total.max_ratio_milli as f64 / 1000.0);
        ctx.cov("alloc_budget", "256 x input length + 65536 bytes");
        ctx.cov("token_alphabet", json!(TOKENS));
        ctx.cov("byte_alphabet", json!(BYTES.iter().map(|&c| esc1(c)).collect::<Vec<_>>()));
        ctx.cov("bounds", json!({"token_len": l_tok, "byte_len": n_byte, "edit_distance": if quick { 1 } else { 2 }, "corpus_frames": corpus().len(), "tower_depths": TOWER_DEPTHS}));
        samples.sort_by_key(|s| (s["gen"].as_str().unwrap_or("").to_string(), s["idx"].as_u64().unwrap_or(0)));
        let mut seen_gen = BTreeSet::new();
        for s in &samples {
            let g = s["gen"].as_str().unwrap_or("");
            let family: String = g.chars().filter(|c| c.is_alphabetic()).collect();
            if (g == format!("tok{l_tok}") || g == format!("byte{n_byte}") || family == "edit" || family == "tower") && seen_gen.insert(g.to_string()) {
                ctx.sample(s.clone());
            }
        }
        ctx.assume("allocation bound read as: peak bytes allocated during one decode call <= 256 x input length + 64 KiB");
        ctx.assume("every case runs in a forked child: RLIMIT_AS 6 GiB, a single allocation request above 1 GiB is refused (abort, as with a failed malloc), 2 MiB stack (tokio worker default); the decoder sees the whole input as one buffer");
        ctx.assume("'asks for more data' = Ok(None) or Err(Incomplete); any other Err is a protocol error; all three are admissible for every input");
    });
}

fn replay(ctx: &Ctx, p: &std::path::Path) {
    let doc: Value = serde_json::from_str(&std::fs::read_to_string(p).unwrap_or_else(|e| ctx.machinery(&format!("read replay: {e}")))).unwrap_or_else(|e| ctx.machinery(&format!("replay json: {e}")));
    let w = &doc["witness"];
    let input = match w["input_hex"].as_str() {
        Some(h) if !h.is_empty() => unhex(h),
        _ => {
            let gen = Gen::parse(w["gen"].as_str().unwrap_or("")).unwrap_or_else(|| ctx.machinery("replay: no input_hex and no generator"));
            gen.case(w["idx"].as_u64().unwrap_or(0)).0
        }
    };
    println!("input ({} bytes): {}", input.len(), esc(&input));
    println!("region: {}", region(&input));
    println!("expected: a value, need-more or a protocol error; peak allocation <= {} bytes", budget(input.len()));
    let outs = subproc::run_cases("c21", &[format!("hex {}", hex(&input))], &opts(1));
    let t = parse_answer(ctx, &outs[0], "replay");
    println!("observed: outcome counts {:?}, peak allocation {} bytes", t.counts, t.max_peak);
    for (sig, (_, _, msg)) in &t.vios {
        println!("  MISMATCH [{sig}] {msg}");
        ctx.violation(sig, msg.clone(), w.clone());
    }
}
